"""C10 - event processing terminates and a faulty flow fails alone.

Domain : generated helper flows (vf/co2.py) under a fixed `main` that only starts/activates them, plus
         (a) ONE injected erroneous statement at an enumerated position of one helper (bad expression, bad subscript,
             undefined reference, invalid regex pattern, type-mismatching comparison pattern, surplus flow arguments,
             out-of-range priority, wrong action argument type), preceded by the marker `send Reached()`; or a VALID comparison
             pattern (`match EvC(v=op(number))`, plain or inside a list / dict pattern) whose error only exists together with an
             incoming value of another type: there the payload of the canary event (string, list, dict, None, the other numeric
             type, a well-typed number that does not satisfy the comparison, parameter missing) is part of the case;
             or a match on a member event of a REFERENCE the helper created itself (`start <action> as $argref` / `start argchild as
             $argref`, then `match $argref.Finished|Started(<param>=<erroneous expression>)`, directly after the action statement, after a
             match statement or after a send statement; alone / `as $ref` / in an or- / and-group): the statement can be registered when
             the head arrives, its arguments are evaluated when an event of that name is matched - the history feeds the referenced
             action's own event (or the event that lets the referenced child flow finish) while the head is parked there;
             or an erroneous expression in a `return` statement (`return $items[3]` with $items = None, `return 1 / 0`, `return $undefinedvar.attr`,
             ...), which is the LAST statement of the flow that carries it: the helper itself (awaited by another helper, started or activated
             by main) or a child flow `retchild $items` that the helper awaits / awaits for its value / starts, with or without a waiting
             statement before the return. Every statement-level fault either sits at the position itself (reached through the history) or in a
             child flow with an interaction loop of its own behind `match EvC()`, so that the error arises while the canary event itself is
             processed and the canaries have to react to that SAME event;
             or a meta-tag hierarchy: a flow with a valid `bot_action` / `user_action` tag finishes while an ancestor (parent .. great-grandparent, awaited
             or started) that is still running carries a `bot_intent` / `user_intent` tag whose interpolation cannot be evaluated - the ancestor's tag is
             evaluated on behalf of the finishing descendant; a further canary reacts to every event on which the descendant / the ancestor finish;
         (b) activated flows that finish / return / abort / raise / fail in their first action before their first waiting statement;
         (c) two canary flows (same interaction loop as main / a loop of their own) and a ColangError watcher.
         Histories mix alphabet events, action life-cycle events, the canary event EvC and `toward` items that feed what the
         faulty helper is waiting for at that moment (so that the injected position is reached by construction, not by luck).
Oracle : termination = deterministic step budget (wrappers on the interpreter's per-internal-event and per-slide entry
         points) + confirmed watchdog; isolation = through the real RuntimeV2_x.process_events no exception escapes, after
         every EvC each canary emitted exactly one marker, a reached fault is reported by a ColangError event seen by the
         watcher flow, and the C09 invariants still hold. For a valid comparison pattern an error is only demanded when the
         delivered value forces a number to be compared with a str / list / dict; for every other payload (None, int vs
         float, well-typed, missing) only the unconditional parts (no escape, canaries, termination, invariants) are asserted.
         For a reference-member match with an erroneous argument nothing beyond the unconditional parts is demanded when the head
         arrives (an implementation may fail the flow there already); when the referenced object's own event comes in while the head
         is still parked on the statement, that very call must report a ColangError and the flow instance must have failed. A third
         canary (own loop) waits for EVERY event of that name and must react exactly once to each of them.
"""
import asyncio
import math

from hypothesis import strategies as st

from vf import co2, smh
from vf.core import Violation, ok

PID = "C10"
LEVEL = "fault_enumeration"
CASE_TIMEOUT = 20
HANG_IS_VIOLATION = True
RULE = (
    "helpers h0..h3 from the co2 grammar; main = activate canary, canary2 (@loop), watcher, 0-2 immediate flows (finish|return|abort|raise "
    "before any wait), then start/activate every parameterless helper, then `match Never()`; fault = (helper, top-level position, kind) with kind "
    "in {add-str, subscript, undefined-attr, bad-regex-match (alone / with a child flow waiting for the same event / inside an or- or and-group), bad-compare-match, surplus-args, priority-range, action-arg-type, "
    "undefined-ref-match | undefined-ref-send | unknown-member-action-match | unknown-member-action-send | not-a-reference-match (a reference whose event name cannot be evaluated: the error arises when the head arrives), "
    "compare-type-match (a VALID comparison pattern op(ref), op in less_than|equal_less_than|greater_than|equal_greater_than|not_equal_to, ref int or float, plain / inside a list pattern / inside a dict pattern; "
    "statement alone / `as $ref` / with a child flow waiting for the same event / inside an or- or and-group - the error only arises when an EvC value of another type is matched against it), "
    "ref-arg-match (a match on a member event of a reference created by the helper itself whose ARGUMENT is erroneous: `start X as $argref` + `match $argref.M(p=BAD)`, X in UtteranceBotAction|GestureBotAction|TimerBotAction|child flow argchild, "
    "M in Finished|Started (flows: Finished), BAD in {$cfg[\"missing\"] with $cfg undefined, {\"a\": 1}[\"nokey\"], $undefinedvar.attr, 1 / 0, 1 + \"a\"}; the match directly after the start statement / `as $ref` / after a further `match Ev0()` / after a send / "
    "inside an or- or and-group - the head can park, the error is due when the referenced object's own event is matched), "
    "bad-return (an erroneous expression in a `return` statement = the LAST statement of its flow: `$items = None` + `return BAD` in the helper itself, the statements after the position dropped) | bad-return-awaited-child | "
    "bad-return-assigned-child | bad-return-started-child (`await retchild None` / `$rv = await retchild None` / `start retchild None as $retref` with `flow retchild $items` = [match Ev91()] + send Reached() + `return BAD`; "
    "BAD in {$items[3], 1 / 0, $undefinedvar.attr, {\"a\": 1}[\"nokey\"], 1 + \"a\"}; the child with or without a waiting statement before the return), none}; "
    "every statement-level kind (all but the match kinds) is injected either AT the position or - one case in three - BEHIND THE CANARY EVENT: the helper gets `start onevc` and the flow onevc (@loop of its own) is "
    "`match EvC()` + marker + erroneous statement(s), so the error arises while EvC itself is processed and both canaries must still react to that same event (labels fault-behind-canary-event, fault-reached-by-canary-event); "
    "kinds listed in PENDING_FAULTS (erroneous parameter default evaluated when the flow is started / awaited / activated, `@meta(tag=\"{BAD}\")` decorator interpolated when the flow finishes, internal flow events with a missing or "
    "wrong-typed flow id sent by a flow, `activate` of a flow whose first action cannot be generated) are implemented but NOT generated: they break the statement on the unchanged tree and are reported as findings; for each generated "
    "program the quick tier draws the position, `enumerate_cases` walks every position x kind for a fixed family of programs (for compare-type-match: position x statement shape x nesting with a history that first "
    "delivers well-typed values and then wrong-typed ones, and operator x reference x nesting x payload class at one position; for ref-arg-match: position x statement shape with object / member / expression rotating, and object x member x expression at one position, "
    "with histories that walk the helper to the position and then feed the referenced action's event - for a flow reference without any EvC before the child's event, because every finishing flow makes the statement evaluate; "
    "for every statement-level kind: every position behind the canary event, for the bad-return family also at the position, expression / child wait rotating, and placement x expression x child wait x {at the position, behind the canary event} at one position of a helper that awaits another helper, "
    "with a history that walks the helper to the position, feeds Ev91 to the waiting child and sends EvC after every step); immediate activated flows: finish | return | abort | raise | the same after an action / send statement | restart failure through a flipped global | "
    "first-action-arg (first statement = an action whose event cannot be generated, alone or followed by a wait); "
    "meta-tag HIERARCHY (bad-meta-ancestor-await | bad-meta-ancestor-start: the helper awaits / starts `metaanc`, a flow with `@meta(bot_intent|user_intent=\"{BAD}\")`, BAD in BAD_METAS, that reaches - as parent, grandparent or "
    "great-grandparent, every level awaiting or starting the next one (sub.links) - the flow `metaleaf` with a VALID tag `@meta(bot_action|user_action=True|\"wave hand\")` = [match Ev91()] + send Reached(); the ancestor's tag is "
    "evaluated, in the ancestor's context, when the DESCENDANT finishes while the ancestor is still running (it stays for ever at `match NeverMeta()` or finishes later on Ev92, where its own tag is evaluated once more); "
    "at the position or behind the canary event (there the carrier flow stays after `start metaanc` so that the hierarchy survives); the program gets one more canary (loop of its own) for EVERY Ev91 / Ev92 - the events on which "
    "the descendant / the ancestor finish - that must emit exactly one marker per such event; enumerated: every position x kind x placement with the sub-parameters rotating, levels x link pattern x descendant-waits x placement and "
    "ancestor tag x descendant tag x expression x placement at one position, with a history that steers towards the descendant's / ancestor's own event after every step of the helper and sends EvC after every item; "
    "labels meta-ancestor-tag-*, meta-descendant-tag-*, meta-ancestor-is-parent|grandparent|great-grandparent, meta-ancestor-links-all-await|all-start|mixed, meta-descendant-tag-value-*, meta-ancestor-stays|finishes-later, "
    "meta-descendant-finished-under-faulty-ancestor, meta-own-event-canary-checked-while-hierarchy-waits|idle); history of <=18 items incl. EvC - either free, or steered (free prefix, then 1-6 items `toward` = an event that a waiting statement of the helper carrying the fault, or of a flow it started, "
    "is waiting for at that moment: alphabet event with the parameters the statement names, the end of an action it awaits, or the Started/Finished event of the action an erroneous reference-member match refers to; three of four ref-arg-match cases are steered; then EvC items mixed with further steering; label history-steered-towards-fault) -, each EvC carrying a drawn payload "
    "(str | list | dict | None | number of the other numeric type | well-typed number not satisfying the comparison | parameter missing; optionally wrapped like the pattern's nesting; bare item = \"x1\"). "
    "Non-trivial = the fault position was reached (marker `Reached` seen, or a head was parked on the faulty match when an EvC arrived whose evaluation has to fail: any EvC for an invalid pattern, "
    "an EvC that makes a number meet a str/list/dict for a valid comparison pattern; for ref-arg-match: the referenced action's own Started/Finished event, or Ev90 that lets the referenced child flow finish, while the head is parked) or an immediate activated flow of kind abort/raise is present; distinct by case. Labels cmp-op-*, cmp-ref-*, cmp-nest-*, "
    "cmp-parked-got-<payload class> show what was delivered to a parked comparison pattern (…-not-compared: wrong type but not where the pattern compares; wrong-type-after-well-typed: the failing value came after tolerated ones). "
    "Labels refarg-obj-*, refarg-member-*, refarg-bad-<i> and refarg-own-event-delivered-while-parked | refarg-parked-only | refarg-never-parked show how far a ref-arg-match case got. "
    "Labels ret-bad-<i>, child-waits-before-fault | child-fails-without-waiting show the bad-return family; `toward` items also feed Ev91 to the waiting child that carries the return statement."
)
ASSUMPTIONS = [
    "step budget = max(2000, 200 x source lines) interpreter steps (internal events processed + slides) per fed event; the order of magnitude of the largest per-event count is reported in the class histogram (steps<=N)",
    "main never awaits a helper, so a failing helper cannot legitimately take the canaries down with it",
    "no generated flow other than the injected faulty match listens to the canary event EvC, so a canary can never legitimately lose an action conflict",
    "numbers delivered to a valid comparison pattern never satisfy it (constructed from operator and reference; checked again in prop, otherwise skipped), so the helper never legitimately advances on EvC and competes with the canary of its loop",
    "ref-arg-match: no generated flow other than the injected statement and the third canary refers to $argref, argchild or Ev90; the third canary sits in a loop of its own and only sends an event, so it can never legitimately miss an event of the name it waits for",
    "ref-arg-match: a ColangError and the failure of the flow instance are demanded only in the call that delivers the referenced object's own event (action event with the uid of the referenced action / Ev90 while the referenced child flow waits for it) to a head that is parked on the statement; failing earlier - on arrival or on another event of the same name - is accepted",
    "fault behind the canary event: the flow onevc that carries the fault sits in an interaction loop of its own (as do the immediate flows and the children it starts), so its statements never compete with a canary for an action; the canaries must emit exactly one marker each for that very EvC",
    "bad-return: `return` ends its flow, so the statements the helper had after the position are dropped; an awaited child that fails takes the awaiting helper with it (language semantics), a started one does not unless it fails before it has started - neither is asserted, only the unconditional parts plus the ColangError in the call that emits the marker",
    "the marker `send Reached()` is an outgoing event: if an exception escapes run_to_completion the outgoing events of that step are dropped by process_events' retry, the marker with them - such an escape then shows through the canaries (fault behind the canary event) or the C09 invariants, not through error-not-reported",
    "meta-tag hierarchy: which flow has to FAIL when the ancestor's intent tag cannot be evaluated on behalf of the finishing descendant is not derivable from the statement (the unchanged tree fails none: the descendant has finished, "
    "the ancestor goes on, a ColangError is pushed) - only the unconditional parts are asserted: no exception escapes, a ColangError in the call that emits the descendant's marker, both EvC canaries and the Ev91 / Ev92 canary react exactly once to "
    "every event of their name, termination, C09 invariants; no other generated flow waits for Ev91 / Ev92 or carries a meta tag, so the nearest tagged ancestor of `metaleaf` is always `metaanc`",
    "a ColangError is demanded for a valid comparison pattern only when a number has to be compared with a str, list or dict; None, bool and int-vs-float are treated as unspecified (the implementation rejects them too, the check does not rely on it)",
]
WALL = {"quick": 170, "thorough": 1500}

FAULTS = {
    "add-str": '$z = 1 + "a"',
    "subscript": '$z = {"a": 1}["nokey"]',
    "undefined-attr": "send Probe(p=$undefinedvar.attr)",
    "bad-regex-match": 'match EvC(v=regex("("))',
    "bad-compare-match": 'match EvC(v=less_than("x"))',
    "surplus-args": "await hlast 1 2 3 4 5",
    "priority-range": "priority 7.0",
    "action-arg-type": "await UtteranceBotAction(script=None)",
    # references: a variable that nothing defines, and an event that the referenced object does not have - the error arises when
    # the head ARRIVES at the statement (the event name is evaluated to register the waiting head), not when an event comes in
    "undefined-ref-match": "match $undefinedref.Finished()",
    "undefined-ref-send": "send $undefinedref.Stop()",
    "unknown-member-action-match": 'start TimerBotAction(timer_name="q", duration=1.0) as $qref\nmatch $qref.Bogus()',
    "unknown-member-action-send": 'start TimerBotAction(timer_name="q", duration=1.0) as $qref\nsend $qref.Bogus()',
    "not-a-reference-match": "$notref = 5\nmatch $notref.Finished()",
    # the erroneous match has a relative (child flow / sibling head) waiting for the same event name
    "bad-regex-match-with-child": 'start evcchild\nmatch EvC(v=regex("("))',
    "bad-regex-match-or-group": 'match EvC(v=regex("(")) or EvC(v="other")',
    "bad-regex-match-and-group": 'match EvC(v=regex("(")) and EvC()',
    # a comparison pattern that is VALID when the statement is evaluated (CMP = op(number), possibly inside a list / dict pattern):
    # the runtime error only exists in the combination with an incoming EvC whose value has another type, i.e. it is raised
    # while the event is matched, after the pattern itself evaluated fine
    "compare-type-match": "match EvC(v=CMP)",
    "compare-type-match-as-ref": "match EvC(v=CMP) as $cmpref",
    "compare-type-match-with-child": "start evcchild\nmatch EvC(v=CMP)",
    "compare-type-match-or-group": 'match EvC(v=CMP) or EvC(v="other")',
    "compare-type-match-and-group": "match EvC(v=CMP) and EvC()",
    # a match on a member event of a REFERENCE (action / flow started by the helper itself) whose ARGUMENT expression is erroneous:
    # the event name can be evaluated when the head arrives (the head parks), the arguments are evaluated when an event of that
    # name is matched - the error is due at the latest when the referenced object's own event comes in. The statement directly
    # follows the action statement that created the reference, a match statement or a send statement
    "ref-arg-match": "REFSTART as $argref\nmatch $argref.MEMBER(PARAM=BADARG)",
    "ref-arg-match-as-ref": "REFSTART as $argref\nmatch $argref.MEMBER(PARAM=BADARG) as $argev",
    "ref-arg-match-after-match": "REFSTART as $argref\nmatch Ev0()\nmatch $argref.MEMBER(PARAM=BADARG)",
    "ref-arg-match-after-send": "REFSTART as $argref\nsend Probe(p=1)\nmatch $argref.MEMBER(PARAM=BADARG)",
    "ref-arg-match-or-group": "REFSTART as $argref\nmatch $argref.MEMBER(PARAM=BADARG) or NeverOr()",
    "ref-arg-match-and-group": "REFSTART as $argref\nmatch $argref.MEMBER(PARAM=BADARG) and NeverAnd()",
    # an erroneous expression in a `return` statement - the LAST statement of the flow that carries it (the statements the helper had
    # after the position are dropped): in the helper itself (awaited by another helper / started or activated by main), or in a child
    # flow `retchild $items` (called with None; with or without a waiting statement before the return) that the helper awaits
    # (the awaiting parent fails with it), awaits for its value, or starts (the helper goes on)
    "bad-return": "$items = None\nreturn BADRET",
    "bad-return-awaited-child": "await retchild None",
    "bad-return-assigned-child": "$rv = await retchild None",
    "bad-return-started-child": "start retchild None as $retref",
    # an activated flow whose FIRST statement fails while its action event is generated (no waiting statement reached)
    "activate-bad-first-action": "activate badfirstaction",
    # an internal flow event with a missing / wrong-typed flow id, sent by the flow itself: whether each of them is an error is not
    # specified (some are ignored) - no ColangError is demanded, only the unconditional parts
    "bad-internal-event": "send BADEVENT",
    # a parameter DEFAULT expression that raises: evaluated when the flow is started (start / await / activate, the parameter omitted)
    "bad-default-start": "start defchildDEFCALL",
    "bad-default-await": "await defchildDEFCALL",
    "bad-default-activate": "activate defchildDEFCALL",
    # a decorator `@meta(<tag>="{<erroneous expression>}")`: the interpolation is evaluated when the decorated flow finishes
    "bad-meta-await": "await metachild",
    "bad-meta-start": "start metachild",
    # a HIERARCHY: the erroneous interpolation sits in the intent tag (`@meta(bot_intent|user_intent="{<erroneous expression>}")`) of an
    # ANCESTOR (parent / grandparent / great-grandparent, each level awaits or starts the next one) of a flow with a VALID action tag
    # (`@meta(bot_action|user_action=True|"name")`): the ancestor's tag is evaluated, in the ancestor's context, when the DESCENDANT
    # finishes (it looks up the intent it belongs to) while the ancestor itself is still running
    "bad-meta-ancestor-await": "await metaanc",
    "bad-meta-ancestor-start": "start metaanc",
}
CMP_FAULTS = ("compare-type-match", "compare-type-match-as-ref", "compare-type-match-with-child", "compare-type-match-or-group", "compare-type-match-and-group")
REFARG_FAULTS = ("ref-arg-match", "ref-arg-match-as-ref", "ref-arg-match-after-match", "ref-arg-match-after-send", "ref-arg-match-or-group", "ref-arg-match-and-group")
RET_FAULTS = ("bad-return", "bad-return-awaited-child", "bad-return-assigned-child", "bad-return-started-child")
DEF_FAULTS = ("bad-default-start", "bad-default-await", "bad-default-activate")
META_FAULTS = ("bad-meta-await", "bad-meta-start")
META_ANC_FAULTS = ("bad-meta-ancestor-await", "bad-meta-ancestor-start")
# kinds whose marker `send Reached()` sits inside the child flow that carries the error (directly before the erroneous statement / as
# the last statement of the decorated flow) instead of in front of the injected statement
CHILD_MARKED = RET_FAULTS[1:] + META_FAULTS + META_ANC_FAULTS
# kinds for which a ColangError is not demanded when the statement is reached (marker ReachedSoft)
SOFT_FAULTS = ("bad-internal-event",)
BAD_RETS = ["$items[3]", "1 / 0", "$undefinedvar.attr", '{"a": 1}["nokey"]', '1 + "a"']
RET_CHILD_EVENT = "Ev91"
BAD_EVENTS = [
    "StartFlow()",
    "StopFlow(flow_id=[1])",
    "FinishFlow(flow_id=5)",
    "StartFlow(flow_id=[1])",
    'StopFlow(flow_id={"a": 1})',
    "FinishFlow(flow_id=[1])",
    "StopFlow(flow_instance_uid=[1])",
    "FinishFlow(flow_instance_uid=[1])",
    "StartFlow(flow_id=5)",
]
BAD_DEFAULTS = ["1 / 0", "$undefinedvar.attr", '{"a": 1}["nokey"]', '1 + "a"', "None[3]"]
DEF_SIGS = [("$p=BAD", ""), ("$q $p=BAD", " 1")]  # (signature, arguments of the call: the parameter with the default is omitted)
META_TAGS = ("user_intent", "bot_intent", "user_action", "bot_action")
BAD_METAS = ["1 / 0", "$undefinedvar.attr", "[1][5]"]
# hierarchy of the ancestor-tag family: intent tag of the ancestor x action tag of the finishing descendant (sub["tag"] selects the pair),
# value of the descendant's own (valid) tag, number of levels between the two (sub["depth"]: 0 = parent, 1 = grandparent, 2 = great-
# grandparent), per level await (bit clear) / start (bit set) in sub["links"], ancestor staying for ever / finishing later on Ev92
META_ANC_TAGS = ("bot_intent", "user_intent")
META_LEAF_TAGS = ("bot_action", "user_action")
META_LEAF_VALUES = ("True", '"wave hand"')
META_ANC_LEVELS = ("parent", "grandparent", "great-grandparent")
META_ANC_EVENT = "Ev92"
SUB_DEFAULT = {"bad": 0, "sig": 0, "tag": 0, "wait": False, "ie": 0, "depth": 0, "links": 0, "leafval": 0, "ancfin": False}
SUB_FAULTS = RET_FAULTS + DEF_FAULTS + META_FAULTS + META_ANC_FAULTS + ("activate-bad-first-action", "bad-internal-event")
MATCH_FAULTS = ("bad-regex-match", "bad-compare-match", "bad-regex-match-with-child", "bad-regex-match-or-group", "bad-regex-match-and-group") + CMP_FAULTS + REFARG_FAULTS
# reference-member matches with an erroneous argument: referenced object (statement that creates it, event type prefix, parameter
# named in the match) x member event x erroneous argument expression. The child flow `argchild` finishes on the event Ev90.
REF_OBJS = {
    "utterance": ('start UtteranceBotAction(script="x")', "UtteranceBotAction", "final_script"),
    "gesture": ('start GestureBotAction(gesture="q")', "GestureBotAction", "is_success"),
    "timer": ('start TimerBotAction(timer_name="q", duration=1.0)', "TimerBotAction", "is_success"),
    "flow": ("start argchild", None, "flow_id"),
}
REF_MEMBERS = ("Finished", "Started")
BAD_ARGS = ['$cfg["missing"]', '{"a": 1}["nokey"]', "$undefinedvar.attr", "1 / 0", '1 + "a"']
REF_DEFAULT = {"obj": "utterance", "member": "Finished", "bad": 0}
REF_CHILD_EVENT = "Ev90"
# comparison patterns: operator x reference number (int and float) x nesting of the pattern inside the parameter value
CMP_OPS = {
    "less_than": lambda v, r: v < r,
    "equal_less_than": lambda v, r: v <= r,
    "greater_than": lambda v, r: v > r,
    "equal_greater_than": lambda v, r: v >= r,
    "not_equal_to": lambda v, r: v != r,
}
CMP_REFS = [5, 0, -3, 1000000, 5.0, 2.5, -0.5]
CMP_NESTS = ("plain", "list", "dict")
CMP_DEFAULT = {"op": "less_than", "ref": 5, "nest": "plain"}
# payload classes of the canary event EvC (history item ["evc", [class, i], wrap]); a bare ["evc"] carries the string "x1"
PAY_STR = ["x1", "", "5", "a b"]
PAY_LIST = [[], ["a"], [["a"]]]
PAY_DICT = [{}, {"a": "s"}, {"b": "s"}]
PAY_CLASSES = ("str", "list", "dict", "none", "cross", "ok", "missing")
IMMEDIATE = {
    "finish": ["send ImmOut()"],
    "return": ["return"],
    "abort": ["abort"],
    "raise": ['$z = 1 + "a"'],
    # failing after an action statement but before the first wait (the flow is advanced twice while still starting)
    "act-raise": ['start GestureBotAction(gesture="pre")', '$z = 1 + "a"'],
    "act-abort": ['start GestureBotAction(gesture="pre")', "abort"],
    "send-raise": ["send ImmOut()", '$z = 1 + "a"'],
    # the first instance is fine; after EvZ set the global to 0 the *restarted* instance fails before its first wait
    "cond-raise": ["global $gd", 'start GestureBotAction(gesture="pre")', "$z = 10 / $gd", "match EvC()", "send ImmDone()"],
    "cond-raise-plain": ["global $gd", "$z = 10 / $gd", "match EvC()"],
    # the FIRST statement is an action whose event cannot be generated (wrong argument type): the flow fails while it is starting
    "first-action-arg": ["await UtteranceBotAction(script=None)"],
    "first-action-arg-then-wait": ["await UtteranceBotAction(script=None)", "match EvC()", "send ImmDone()"],
}
MAIN_SURVIVES = ("finish", "return", "cond-raise", "cond-raise-plain")
# Open known finding C10-F18: an activated flow whose only waits are for a child flow that finishes without any external event
# restarts forever. These kinds are NOT generated (excluded by construction, see known_findings.json); they exist for the repro.
KNOWN_IMMEDIATE = {
    "child-finish": ["await immchild"],
    "child-raise": ["await immchild", '$z = 1 + "a"'],
    # Open known finding C10-F41: the FIRST statement of an activated flow sends a malformed internal event and the flow then waits;
    # the event is processed after the flow reached its wait (status STARTED), fails the flow, the flow is restarted and sends it again
    "first-bad-internal-event": ['send StartFlow(flow_id="immchild")', "match EvC()"],
    "first-bad-internal-event-stop": ['send StopFlow(flow_instance_uid=["x"])', "match EvC()"],
}
KNOWN_IMMEDIATE_FINDING = {"child-finish": "C10-F18", "child-raise": "C10-F18", "first-bad-internal-event": "C10-F41", "first-bad-internal-event-stop": "C10-F41"}


# Fault kinds that break the statement on the UNCHANGED tree (reported to the coordinator with repro files, not yet listed in
# known_findings.json): buildable for the repro files, but neither drawn nor enumerated until the repository is repaired - then empty
# this tuple. The error is raised outside the try block of _advance_head_front (create_flow_instance evaluating a default,
# _log_action_or_intents interpolating a meta tag when the flow finishes, the internal-event handlers indexing / hashing the flow id):
# it escapes run_to_completion, the outgoing events of that processing step are lost and the canaries do not react to the event;
# two flows activating, on the same event, a flow whose first action cannot be generated never terminates.
PENDING_FAULTS = ()  # (all of them are generated since the findings C10-F34 .. C10-F37 were fixed in /repo)


def known(case, violation):
    if violation.kind in ("non-termination", "hang"):
        for k in case.get("imm", []):
            if k in KNOWN_IMMEDIATE:
                return KNOWN_IMMEDIATE_FINDING[k]
    return None


class StepBudget(BaseException):
    pass


def _cmp_of(case):
    c = dict(CMP_DEFAULT)
    c.update(case["fault"].get("cmp") or {})
    return c


def _cmp_text(cmp):
    t = "%s(%r)" % (cmp["op"], cmp["ref"])
    return {"plain": t, "list": "[%s]" % t, "dict": '{"a": %s}' % t}[cmp["nest"]]


def _flows():
    from nemoguardrails.colang.v2_x.runtime import flows

    return flows


def _ref_of(case):
    r = dict(REF_DEFAULT)
    r.update(case["fault"].get("ref") or {})
    if r["obj"] == "flow":
        r["member"] = "Finished"  # `start f as $r` only goes on once the flow has started: its Started event never comes again
    return r


def _ref_parked(state, case):
    """[(flow state, referenced object)] of instances of the faulty helper with a head parked on the injected
    `match $argref.<member>(<param>=<erroneous expression>)`."""
    s = smh.sm()
    target = "h%d" % (case["fault"]["helper"] % len(case["helpers"]))
    out = []
    for fs in state.flow_states.values():
        if fs.flow_id != target or not s.is_listening_flow(fs):
            continue
        cfg = state.flow_configs[fs.flow_id]
        for head in fs.heads.values():
            if head.status == s.FlowHeadStatus.INACTIVE or not 0 <= head.position < len(cfg.elements):
                continue
            el = cfg.elements[head.position]
            if s.is_match_op_element(el) and getattr(el, "spec", None) is not None and el.spec["var_name"] == "argref" and "argref" in fs.context:
                out.append((fs, fs.context["argref"]))
                break
    return out


def _ref_event(obj, ref):
    """The event of the referenced action the parked statement is waiting for."""
    d = {"type": obj.name + ref["member"], "action_uid": obj.uid}
    if ref["member"] == "Finished":
        d["is_success"] = True
    return d


def _canary3_event(case):
    ref = _ref_of(case)
    return REF_CHILD_EVENT if ref["obj"] == "flow" else REF_OBJS[ref["obj"]][1] + ref["member"]


def _unsatisfying(cmp, k):
    """A number of the reference's own type that does NOT satisfy the comparison (k = distance from the border)."""
    r = cmp["ref"]
    d = {"less_than": k, "equal_less_than": k + 1, "greater_than": -k, "equal_greater_than": -k - 1, "not_equal_to": 0}[cmp["op"]]
    return r + d


def payload(item, cmp):
    """History item ["evc"] | ["evc", [class, i], wrap] -> (class, has_v, value) of the EvC event."""
    if len(item) < 2 or item[1] is None:
        return "str", True, "x1"
    spec = item[1]
    cls, i = spec[0], (spec[1] if len(spec) > 1 else 0)
    if cls == "missing":
        return cls, False, None
    if cls == "str":
        v = PAY_STR[i % len(PAY_STR)]
    elif cls == "list":
        v = PAY_LIST[i % len(PAY_LIST)]
    elif cls == "dict":
        v = PAY_DICT[i % len(PAY_DICT)]
    elif cls == "none":
        v = None
    elif cls == "ok":
        v = _unsatisfying(cmp, i)
    elif cls == "cross":
        # the other numeric type (float where an int is compared and vice versa), numerically not satisfying either
        n = _unsatisfying(cmp, i + 1)
        if isinstance(cmp["ref"], int):
            v = float(n)
        elif cmp["op"] in ("less_than", "equal_less_than"):
            v = math.ceil(n)
        elif cmp["op"] in ("greater_than", "equal_greater_than"):
            v = math.floor(n)
        elif n == int(n):
            v = int(n)
        else:
            return "missing", False, None  # every int differs from a fractional reference: nothing unsatisfying to send
    else:
        raise ValueError(cls)
    if len(item) > 2 and item[2]:
        v = {"plain": v, "list": [v], "dict": {"a": v}}[cmp["nest"]]
    return cls, True, v


def _toward(state, case, item, sess):
    """History item ["toward", i, v]: an event one of the waiting statements of the helper that carries the fault (or of a flow it
    started) is waiting for - alphabet events with the parameters the statement asks for, or the end of an action it awaits."""
    s = smh.sm()
    target = "h%d" % (case["fault"]["helper"] % len(case["helpers"]))
    cands = []
    for fs in state.flow_states.values():
        if not s.is_listening_flow(fs):
            continue
        anc, depth = fs, 0
        while anc is not None and anc.flow_id != target and depth < 20:
            anc, depth = state.flow_states.get(anc.parent_uid) if anc.parent_uid else None, depth + 1
        if anc is None or anc.flow_id != target:
            continue
        cfg = state.flow_configs[fs.flow_id]
        for head in fs.heads.values():
            if head.status == s.FlowHeadStatus.INACTIVE or not 0 <= head.position < len(cfg.elements):
                continue
            el = cfg.elements[head.position]
            if not s.is_match_op_element(el):
                continue
            try:
                ref = s.get_event_from_element(state, fs, el)
            except Exception:
                # the injected reference-member match with an erroneous argument: its event cannot be built, feed the referenced action's event
                if case["fault"]["kind"] in REFARG_FAULTS and fs.flow_id == target:
                    for _fs, obj in _ref_parked(state, case):
                        if _fs is fs and isinstance(obj, _flows().Action) and obj.uid in sess["running"]:
                            d = _ref_event(obj, _ref_of(case))
                            cands.append((fs.flow_id, head.position, d["type"], d))
                continue
            name = ref.name
            if name.startswith("Ev") and name[2:].isdigit():
                d = {"type": name}
                for k, v in ref.arguments.items():
                    if isinstance(v, (int, str)):
                        d[k] = v
                if "v" not in d and len(item) > 2 and item[2] is not None and not (item[1] % 2):
                    d["v"] = item[2]
                cands.append((fs.flow_id, head.position, name, d))
            elif name.endswith("ActionFinished") and getattr(ref, "action_uid", None) in sess["running"]:
                cands.append((fs.flow_id, head.position, name, {"type": name, "action_uid": ref.action_uid, "is_success": True}))
    if not cands:
        return None
    cands.sort(key=lambda c: c[:3])
    d = cands[item[1] % len(cands)][3]
    if "action_uid" in d and d["type"].endswith("Finished"):
        sess["running"].remove(d["action_uid"])
    return d


def _numbers(v):
    if isinstance(v, bool):
        return
    if isinstance(v, (int, float)):
        yield v
    elif isinstance(v, list):
        for x in v:
            yield from _numbers(x)
    elif isinstance(v, dict):
        for x in v.values():
            yield from _numbers(x)


def _wrong_type(v):
    # a value that is no number at all (None = "no value" and the int/float/bool cross cases are left unspecified)
    return isinstance(v, (str, list, dict))


def compare_must_fail(cmp, has_v, value):
    """True when matching the pattern against the value has to compare a number with a non-number."""
    if not has_v:
        return False
    if cmp["nest"] == "plain":
        return _wrong_type(value)
    if cmp["nest"] == "list":
        return isinstance(value, list) and len(value) == 1 and _wrong_type(value[0])
    return isinstance(value, dict) and list(value) == ["a"] and _wrong_type(value["a"])


_rt = {}


def budget(tier):
    return 1500 if tier == "quick" else 25000


@st.composite
def _case(draw):
    prog = draw(co2.programs(profile={"exits": True, "recursion": True}, max_helpers=4))
    helpers = prog["flows"][:-1]
    kind = draw(st.sampled_from([k for k in FAULTS if k not in PENDING_FAULTS] + ["none"]))
    h = draw(st.integers(0, len(helpers) - 1))
    # a flow that fails before its first wait legitimately fails the flow that starts it: inject only after the first wait
    first_wait = next(i for i, st_ in enumerate(helpers[h]["body"]) if st_["k"] in ("match", "matchg"))
    pos = draw(st.integers(first_wait + 1, len(helpers[h]["body"])))
    imm = draw(st.lists(st.sampled_from(list(IMMEDIATE)), max_size=2, unique=True))
    toward = st.tuples(st.just("toward"), st.integers(0, 5), st.sampled_from([None, 0, 1])).map(list)
    hist_item = st.one_of(st.just(["evc"]), _evc_item(), st.just(["evz"]), co2.history_item())
    # the error of a reference-member match with an erroneous argument is only due when the referenced object's own event comes in
    # while the head is parked there: three of four such cases get a steered history
    if draw(st.booleans()) and not (kind in REFARG_FAULTS and draw(st.booleans())):
        hist = draw(st.lists(hist_item, min_size=2, max_size=16))
    else:
        # steered: free prefix, a run of events the faulty helper is waiting for, then canary events with payloads mixed with further steering
        hist = draw(st.lists(hist_item, max_size=4)) + draw(st.lists(toward, min_size=1, max_size=6))
        hist += draw(st.lists(st.one_of(st.just(["evc"]), _evc_item(), _evc_item(), toward, hist_item), min_size=2, max_size=8))
    fault = {"kind": kind, "helper": h, "pos": pos}
    # the statement-level faults either sit at the position itself (reached through the history) or in a child flow with a loop of
    # its own behind `match EvC()`: then the error arises while the canary event itself is processed
    on_evc = draw(st.sampled_from([False, False, True]))
    if on_evc and kind != "none" and kind not in MATCH_FAULTS:
        fault["on_evc"] = True
    sub = draw(st.fixed_dictionaries({"bad": st.integers(0, 4), "wait": st.booleans(), "sig": st.integers(0, len(DEF_SIGS) - 1), "tag": st.integers(0, len(META_TAGS) - 1), "ie": st.integers(0, len(BAD_EVENTS) - 1),
                                      "depth": st.integers(0, len(META_ANC_LEVELS) - 1), "links": st.integers(0, 7), "leafval": st.integers(0, len(META_LEAF_VALUES) - 1), "ancfin": st.booleans()}))
    if kind in SUB_FAULTS:
        fault["sub"] = sub
    cmp = draw(st.fixed_dictionaries({"op": st.sampled_from(sorted(CMP_OPS)), "ref": st.sampled_from(CMP_REFS), "nest": st.sampled_from(("plain",) + CMP_NESTS)}))
    if kind in CMP_FAULTS:
        fault["cmp"] = cmp
    ref = draw(st.fixed_dictionaries({"obj": st.sampled_from(sorted(REF_OBJS)), "member": st.sampled_from(REF_MEMBERS + ("Finished",)), "bad": st.integers(0, len(BAD_ARGS) - 1)}))
    if kind in REFARG_FAULTS:
        fault["ref"] = ref
    return {"helpers": helpers, "fault": fault, "imm": imm, "hist": hist, "choices": draw(st.lists(st.integers(0, 3), max_size=2)), "activate_helpers": draw(st.booleans())}


def _evc_item():
    spec = st.one_of(
        st.tuples(st.just("str"), st.integers(0, len(PAY_STR) - 1)),
        st.tuples(st.just("list"), st.integers(0, len(PAY_LIST) - 1)),
        st.tuples(st.just("dict"), st.integers(0, len(PAY_DICT) - 1)),
        st.tuples(st.sampled_from(("none", "cross", "missing")), st.just(0)),
        st.tuples(st.just("ok"), st.integers(0, 3)),
        st.tuples(st.just("ok"), st.integers(0, 3)),
    ).map(list)
    return st.tuples(st.just("evc"), spec, st.booleans()).map(list)


def strategy(tier):
    return _case()


def enumerate_cases(tier):
    # every position x fault kind for two fixed helper families (the fault_enumeration core)
    fam = [
        [
            {"name": "h0", "params": [], "loop": None, "body": [{"k": "match", "ev": 0, "v": None}, {"k": "send", "n": 1}, {"k": "match", "ev": 1, "v": None}, {"k": "send", "n": 2}]},
        ],
        [
            {"name": "h0", "params": [], "loop": None, "body": [{"k": "match", "ev": 0, "v": None}, {"k": "awaitflow", "f": 1, "arg": None}, {"k": "send", "n": 1}]},
            {"name": "h1", "params": [], "loop": "L1", "body": [{"k": "match", "ev": 1, "v": None}, {"k": "startact", "a": 0, "ref": 0}, {"k": "match", "ev": 2, "v": None}]},
        ],
    ]
    hist = [["evc"], ["ev", 0, None], ["evc"], ["ev", 1, None], ["evc"], ["ev", 2, None], ["evc"], ["ev", 0, None], ["evc"]]
    for helpers in fam:
        for h, fl in enumerate(helpers):
            for pos in range(1, len(fl["body"]) + 1):
                for kind in FAULTS:
                    if kind in REFARG_FAULTS or kind in PENDING_FAULTS:
                        continue  # need a history that feeds the referenced object's event: own family below / not generated
                    yield {"helpers": helpers, "fault": {"kind": kind, "helper": h, "pos": pos}, "imm": [], "hist": hist, "choices": [], "activate_helpers": False}
    # comparison patterns: (a) every position x statement shape with a history that parks the head, delivers well-typed values that
    # do not satisfy the comparison and only then a value of a wrong type; (b) operator x reference x nesting x payload class at one position
    pays = [["ok", 0], ["str", 2], ["ok", 1], ["list", 1], ["missing", 0], ["dict", 1], ["cross", 0], ["str", 0], ["none", 0]]
    hist_c = [[x[0], pays[i // 2], True] if x[0] == "evc" else x for i, x in enumerate(hist)]
    for helpers in fam:
        for h, fl in enumerate(helpers):
            for pos in range(1, len(fl["body"]) + 1):
                for kind in CMP_FAULTS:
                    for nest in CMP_NESTS:
                        yield {"helpers": helpers, "fault": {"kind": kind, "helper": h, "pos": pos, "cmp": {"op": "less_than", "ref": 5, "nest": nest}}, "imm": [], "hist": hist_c, "choices": [], "activate_helpers": nest == "list"}
    for op in sorted(CMP_OPS):
        for ref in CMP_REFS:
            for nest in CMP_NESTS:
                for cls in PAY_CLASSES:
                    for wrap in (True, False) if nest != "plain" and cls in ("str", "list", "dict") else (True,):
                        hist_p = [["ev", 0, None], ["evc", ["ok", 2], True], ["evc", [cls, 1], wrap], ["evc", ["str", 3], True], ["evc"]]
                        yield {"helpers": fam[0], "fault": {"kind": "compare-type-match", "helper": 0, "pos": 1, "cmp": {"op": op, "ref": ref, "nest": nest}}, "imm": [], "hist": hist_p, "choices": [], "activate_helpers": cls in ("ok", "cross")}
    # reference-member matches with an erroneous argument: (a) every position x statement shape, the referenced object / member /
    # expression rotating, with a history that first walks the helper to the position and then feeds what it is waiting for (the
    # event of the referenced action / of the child flow); (b) object x member x expression at one position
    hist_r = hist[:7] + [["toward", 0, None], ["evc"], ["toward", 1, None], ["evc"], ["toward", 0, None], ["evc"], ["finished", 0], ["evc"], ["toward", 0, None], ["evc"]]
    # a flow reference: ANY finishing flow (the canaries on EvC) makes the statement evaluate its arguments - no EvC before the child's own event
    hist_f = [x for x in hist[:7] if x[0] != "evc"] + [["toward", 0, None], ["toward", 0, None], ["toward", 1, None], ["evc"], ["toward", 0, None], ["evc"], ["finished", 0], ["evc"]]
    combos = [(o, m, b) for o in sorted(REF_OBJS) for m in REF_MEMBERS for b in range(len(BAD_ARGS)) if not (o == "flow" and m == "Started")]
    n = 0
    for helpers in fam:
        for h, fl in enumerate(helpers):
            for pos in range(1, len(fl["body"]) + 1):
                for kind in REFARG_FAULTS:
                    o, m, b = combos[(n * 11) % len(combos)]
                    n += 1
                    yield {"helpers": helpers, "fault": {"kind": kind, "helper": h, "pos": pos, "ref": {"obj": o, "member": m, "bad": b}}, "imm": [], "hist": hist_f if o == "flow" else hist_r, "choices": [], "activate_helpers": n % 2 == 0}
    for o, m, b in combos:
        for act in (False, True):
            yield {"helpers": fam[0], "fault": {"kind": "ref-arg-match", "helper": 0, "pos": 1, "ref": {"obj": o, "member": m, "bad": b}}, "imm": [], "hist": hist_f if o == "flow" else hist_r, "choices": [], "activate_helpers": act}
    # statement-level faults behind the canary event (every position x kind), and the families with an erroneous expression in a
    # return statement / parameter default / meta decorator, malformed internal events, an activated flow failing in its first action:
    # (a) every position x kind x {at the position, behind the canary event} with the sub-parameters rotating, (b) the sub-parameter
    # products at one position. The history walks the helper to the position and feeds what the child flow carrying the fault waits for.
    # ancestor-tag hierarchy: the helper goes on after `start ...`, waits itself and stops what it started when it finishes - a history that,
    # after every step of the helper, steers towards the LAST candidates (the tagged descendant `metaleaf` waiting for Ev91, the ancestor
    # `metaanc` waiting for Ev92) instead of the helper's own waits, with the canary event after every item
    tw = lambda i: ["toward", i, None]
    hist_m = [["ev", 0, None], tw(-1), ["ev", 1, None], tw(-1), tw(-2), ["ev", 2, None], tw(-1), tw(0), tw(-1), tw(-2), tw(-1), ["finished", 0], tw(-1)]
    hist_m = [["evc"]] + [y for x in hist_m for y in (x, ["evc"])]
    n = 0
    for helpers in fam:
        for h, fl in enumerate(helpers):
            for pos in range(1, len(fl["body"]) + 1):
                for kind in FAULTS:
                    if kind in MATCH_FAULTS or kind in PENDING_FAULTS:
                        continue
                    for on_evc in (True, False) if kind in SUB_FAULTS else (True,):
                        n += 1
                        fault = {"kind": kind, "helper": h, "pos": pos, "on_evc": on_evc}
                        if kind in SUB_FAULTS:
                            fault["sub"] = {"bad": n % 5, "wait": n % 3 == 0, "sig": n % 2, "tag": n % 4, "ie": n % len(BAD_EVENTS)}
                            if kind in META_ANC_FAULTS:
                                fault["sub"].update({"depth": (n // 2) % 3, "links": (n // 2) % 8, "leafval": (n // 4) % 2, "ancfin": n % 5 == 0})
                        yield {"helpers": helpers, "fault": fault, "imm": [], "hist": hist_m if kind in META_ANC_FAULTS else hist_r, "choices": [], "activate_helpers": n % 4 == 0}
    prods = [(k, {"bad": b, "wait": w}) for k in RET_FAULTS for b in range(len(BAD_RETS)) for w in ((False, True) if k != "bad-return" else (False,))]
    prods += [(k, {"bad": b, "sig": g}) for k in DEF_FAULTS for b in range(len(BAD_DEFAULTS)) for g in range(len(DEF_SIGS))]
    prods += [(k, {"bad": b, "tag": t, "wait": w}) for k in META_FAULTS for b in range(len(BAD_METAS)) for t in range(len(META_TAGS)) for w in (False, True)]
    # ancestor-tag hierarchy: (a) levels x link pattern (await / start per level) x descendant waits, the tag pair / the erroneous expression /
    # the descendant's tag value / the ancestor finishing later rotating; (b) ancestor tag x descendant tag x expression for a parent and a grandparent
    m = 0
    for k in META_ANC_FAULTS:
        for d in range(len(META_ANC_LEVELS)):
            for ln in range(2 ** (d + 1)):
                for w in (False, True):
                    m += 1
                    prods.append((k, {"bad": m % len(BAD_METAS), "tag": (m // 2) % 4, "wait": w, "depth": d, "links": ln, "leafval": (m // 3) % 2, "ancfin": m % 4 == 0}))
        for t in range(len(META_ANC_TAGS) * len(META_LEAF_TAGS)):
            for b in range(len(BAD_METAS)):
                m += 1
                prods.append((k, {"bad": b, "tag": t, "wait": m % 2 == 0, "depth": m % 2, "links": m % 3, "leafval": (m // 2) % 2, "ancfin": m % 5 == 0}))
    prods += [("bad-internal-event", {"ie": i}) for i in range(len(BAD_EVENTS))]
    prods += [("activate-bad-first-action", {"wait": w}) for w in (False, True)]
    for kind, sub in prods:
        for on_evc in (False, True):
            if kind in PENDING_FAULTS:
                continue
            yield {"helpers": fam[1], "fault": {"kind": kind, "helper": 0, "pos": 1, "on_evc": on_evc, "sub": sub}, "imm": [], "hist": hist_m if kind in META_ANC_FAULTS else hist_r, "choices": [], "activate_helpers": on_evc and sub.get("bad", 0) % 2 == 1}
    hist_z = [["evc"], ["evz"], ["evc"], ["evc"], ["ev", 0, None], ["evc"]]
    for imm in IMMEDIATE:
        for act in (False, True):
            for h in (hist, hist_z):
                yield {"helpers": fam[0], "fault": {"kind": "none", "helper": 0, "pos": 0}, "imm": [imm], "hist": h, "choices": [], "activate_helpers": act}


def _sub_of(case):
    d = dict(SUB_DEFAULT)
    d.update(case["fault"].get("sub") or {})
    return d


def _anc_depth(sub):
    return 1 + sub["depth"] % len(META_ANC_LEVELS)


def _anc_tags(sub):
    t = sub["tag"] % (len(META_ANC_TAGS) * len(META_LEAF_TAGS))
    return META_ANC_TAGS[t % len(META_ANC_TAGS)], META_LEAF_TAGS[t // len(META_ANC_TAGS)]


def _event_canaries(case):
    """Names of the events (other than EvC) for which the program gets a canary of its own: the event the tagged descendant of the
    ancestor-tag hierarchy waits for before it finishes, and the event on which the faulty ancestor itself finishes later."""
    if case["fault"]["kind"] not in META_ANC_FAULTS:
        return []
    sub = _sub_of(case)
    return ([RET_CHILD_EVENT] if sub["wait"] else []) + ([META_ANC_EVENT] if sub["ancfin"] else [])


def _on_evc(case):
    """The injected statements sit in a child flow of the helper (interaction loop of its own) behind `match EvC()`: the fault is
    reached while the canary event itself is processed."""
    f = case["fault"]
    return bool(f.get("on_evc")) and f["kind"] != "none" and f["kind"] not in MATCH_FAULTS


def _raw(lines):
    return [{"k": "raw", "text": t} for t in lines]


def build(case):
    helpers = [dict(h) for h in case["helpers"]]
    f = case["fault"]
    kind = f["kind"]
    sub = _sub_of(case)
    flows_extra = []
    if kind != "none":
        h = dict(helpers[f["helper"] % len(helpers)])
        body = list(h["body"])
        pos = min(f["pos"], len(body))
        text = FAULTS[kind].replace("hlast", f"h{len(helpers) - 1}" if (f["helper"] % len(helpers)) != len(helpers) - 1 else "canaryhelper")
        text = text.replace("CMP", _cmp_text(_cmp_of(case)))
        if kind in REFARG_FAULTS:
            ref = _ref_of(case)
            text = text.replace("REFSTART", REF_OBJS[ref["obj"]][0]).replace("MEMBER", ref["member"]).replace("PARAM", REF_OBJS[ref["obj"]][2])
            text = text.replace("BADARG", BAD_ARGS[ref["bad"] % len(BAD_ARGS)])
        bad_ret = BAD_RETS[sub["bad"] % len(BAD_RETS)]
        text = text.replace("BADRET", bad_ret).replace("BADEVENT", BAD_EVENTS[sub["ie"] % len(BAD_EVENTS)])
        sig, call = DEF_SIGS[sub["sig"] % len(DEF_SIGS)]
        text = text.replace("DEFCALL", call)
        lines = _raw(text.split("\n"))
        if kind in MATCH_FAULTS or kind in CHILD_MARKED:
            inj = lines
        else:
            inj = _raw(["send ReachedSoft()" if kind in SOFT_FAULTS else "send Reached()"]) + lines
        # a `return` statement is the last statement of its flow: what the helper had after the position is dropped
        tail = [] if kind == "bad-return" else body[pos:]
        if _on_evc(case):
            # (a flow that finishes stops the flows it started: behind `start metaanc` the carrier stays so that the hierarchy survives)
            stay = _raw(["match NeverOnEvc()"]) if kind == "bad-meta-ancestor-start" else []
            flows_extra.append({"name": "onevc", "params": [], "loop": "onevcloop", "body": _raw(["match EvC()"]) + inj + stay})
            inj, tail = _raw(["start onevc"]), body[pos:]
        h["body"] = body[:pos] + inj + tail
        helpers[f["helper"] % len(helpers)] = h
        wait = _raw([f"match {RET_CHILD_EVENT}()"]) if sub["wait"] else []
        if kind in RET_FAULTS[1:]:
            flows_extra.append({"name": "retchild", "params": ["items"], "loop": None, "body": wait + _raw(["send Reached()", "return " + bad_ret])})
        if kind == "activate-bad-first-action":
            flows_extra.append({"name": "badfirstaction", "params": [], "loop": None, "body": _raw(["await UtteranceBotAction(script=None)"]) + wait})
        if kind in DEF_FAULTS:
            flows_extra.append({"name": "defchild", "params": [sig.replace("BAD", BAD_DEFAULTS[sub["bad"] % len(BAD_DEFAULTS)])[1:]], "loop": None, "body": _raw(["match NeverDef()"])})
        if kind in META_FAULTS:
            flows_extra.append({"name": "metachild", "params": [], "loop": None, "body": wait + _raw(["send Reached()"])})
        if kind in META_ANC_FAULTS:
            names = ["metaanc", "metamid1", "metamid2"][: _anc_depth(sub)] + ["metaleaf"]
            for i, name in enumerate(names[:-1]):
                started = bool((sub["links"] >> i) & 1)
                if i == 0:
                    # the ancestor is still running when the descendant finishes: it stays for ever, or finishes later on an event of its own
                    rest = [f"match {META_ANC_EVENT}()"] if sub["ancfin"] else ["match NeverMeta()"]
                else:
                    # a level in between: finishes with the flow it awaited / stays (a finishing flow would abort the flow it started)
                    rest = ["match NeverMid()"] if started else []
                flows_extra.append({"name": name, "params": [], "loop": None, "body": _raw([("start " if started else "await ") + names[i + 1]] + rest)})
            flows_extra.append({"name": "metaleaf", "params": [], "loop": None, "body": wait + _raw(["send Reached()"])})
    flows = list(helpers) + flows_extra
    flows.append({"name": "canaryhelper", "params": [], "loop": None, "body": [{"k": "raw", "text": "match NeverHelper()"}]})
    flows.append({"name": "evcchild", "params": [], "loop": None, "body": [{"k": "raw", "text": "match EvC()"}, {"k": "raw", "text": "match NeverChild()"}]})
    flows.append({"name": "immchild", "params": [], "loop": None, "body": [{"k": "raw", "text": "send ImmChildOut()"}]})
    flows.append({"name": "gdsetter", "params": [], "loop": "setterloop", "body": [{"k": "raw", "text": "global $gd"}, {"k": "raw", "text": "match EvZ()"}, {"k": "raw", "text": "$gd = 0"}]})
    flows.append({"name": "canary", "params": [], "loop": None, "body": [{"k": "raw", "text": "match EvC()"}, {"k": "raw", "text": "send CanaryOut()"}]})
    flows.append({"name": "canary2", "params": [], "loop": "canaryloop", "body": [{"k": "raw", "text": "match EvC()"}, {"k": "raw", "text": "send Canary2Out()"}]})
    flows.append({"name": "watcher", "params": [], "loop": "watchloop", "body": [{"k": "raw", "text": "match ColangError() as $e"}, {"k": "raw", "text": "send SawError(t=$e.type)"}]})
    main = [{"k": "raw", "text": "global $gd"}, {"k": "raw", "text": "$gd = 1"}, {"k": "raw", "text": "activate canary"}, {"k": "raw", "text": "activate canary2"}, {"k": "raw", "text": "activate watcher"}, {"k": "raw", "text": "activate gdsetter"}]
    if kind in REFARG_FAULTS:
        # the referenced child flow, and a third canary (loop of its own) that reacts to EVERY event of the name the erroneous
        # statement waits for (the action event / the event that lets the child flow finish)
        flows.append({"name": "argchild", "params": [], "loop": None, "body": [{"k": "raw", "text": f"match {REF_CHILD_EVENT}()"}]})
        flows.append({"name": "canary3", "params": [], "loop": "canary3loop", "body": [{"k": "raw", "text": f"match {_canary3_event(case)}()"}, {"k": "raw", "text": "send Canary3Out()"}]})
        main.append({"k": "raw", "text": "activate canary3"})
    for name in _event_canaries(case):
        # a canary (loop of its own) for EVERY event of the name that lets the tagged descendant / the faulty ancestor finish: an unrelated
        # flow must react to the very event whose processing evaluates the erroneous tag
        flows.append({"name": "canary" + name.lower(), "params": [], "loop": "canary%sloop" % name.lower(), "body": _raw([f"match {name}()", f"send Canary{name}Out()"])})
        main.append({"k": "raw", "text": "activate canary" + name.lower()})
    for i, ikind in enumerate(case["imm"]):
        body = IMMEDIATE.get(ikind) or KNOWN_IMMEDIATE[ikind]
        # a loop of its own: a flow that reacts to the canary event must not compete with the canaries for an action
        flows.append({"name": f"imm{i}", "params": [], "loop": "NEW", "body": [{"k": "raw", "text": t} for t in body]})
        main.append({"k": "raw", "text": f"activate imm{i}"})
    for h in helpers:
        if not h["params"]:
            main.append({"k": "raw", "text": ("activate " if case["activate_helpers"] else "start ") + h["name"]})
    main.append({"k": "raw", "text": "match Never()"})
    flows.append({"name": "main", "params": [], "loop": None, "body": main})
    text = co2.render({"flows": flows})
    if kind in META_FAULTS:
        deco = '@meta(%s="{%s}")\n' % (META_TAGS[sub["tag"] % len(META_TAGS)], BAD_METAS[sub["bad"] % len(BAD_METAS)])
        text = text.replace("flow metachild\n", deco + "flow metachild\n")
    if kind in META_ANC_FAULTS:
        anc_tag, leaf_tag = _anc_tags(sub)
        text = text.replace("flow metaanc\n", '@meta(%s="{%s}")\nflow metaanc\n' % (anc_tag, BAD_METAS[sub["bad"] % len(BAD_METAS)]))
        text = text.replace("flow metaleaf\n", "@meta(%s=%s)\nflow metaleaf\n" % (leaf_tag, META_LEAF_VALUES[sub["leafval"] % len(META_LEAF_VALUES)]))
    return text


def _runtime():
    if "rt" not in _rt:
        from nemoguardrails import RailsConfig
        from nemoguardrails.colang.v2_x.runtime.runtime import RuntimeV2_x

        cfg = RailsConfig.from_content(colang_content="flow main\n  match Never()\n", yaml_content='colang_version: "2.x"\nmodels: []')
        _rt["rt"] = RuntimeV2_x(cfg, verbose=False)
        s = smh.sm()
        _rt["orig"] = (s._get_all_head_candidates, s.slide)
        counter = _rt["counter"] = {"n": 0, "limit": 10**9}

        def wrap(fn):
            def inner(*a, **k):
                counter["n"] += 1
                if counter["n"] > counter["limit"]:
                    raise StepBudget()
                return fn(*a, **k)

            return inner

        s._get_all_head_candidates = wrap(s._get_all_head_candidates)
        s.slide = wrap(s.slide)
    return _rt["rt"]


async def _nosleep(*_a, **_k):
    return None


def prop(case):
    from nemoguardrails.colang.v2_x.runtime import runtime as rmod
    from nemoguardrails.colang.v2_x.runtime.runtime import create_flow_configs_from_flow_list

    text = build(case)
    rt = _runtime()
    smh.install()
    smh.CHOOSER.reset(case["choices"])
    smh.Clock.virtual = 0.0
    rt.flow_configs = create_flow_configs_from_flow_list(smh.parse(text))
    counter = _rt["counter"]
    kind = case["fault"]["kind"]
    cmp = _cmp_of(case)
    ref = _ref_of(case)
    sub = _sub_of(case)
    ref_parked_seen = False
    ref_delivered = 0
    delivered = set()
    benign_parked = False
    toward_used = 0
    evc_triggers = 0
    soft_reached = False
    ev_canaries = _event_canaries(case)
    ev_canary_hits = 0
    max_steps = 0
    loop = asyncio.new_event_loop()
    real_sleep = rmod.asyncio.sleep
    sess = {"running": [], "types": {}}
    n_elements = None

    def ledger(events):
        for e in events:
            t = e["type"]
            if t.startswith("Start") and t.endswith("Action") and "action_uid" in e:
                sess["running"].append(e["action_uid"])
                sess["types"][e["action_uid"]] = t[5:]

    def run(events, state):
        nonlocal max_steps
        counter["n"] = 0
        try:
            out, state = loop.run_until_complete(rt.process_events(events, state))
        except StepBudget:
            raise Violation("non-termination", f"more than {counter['limit']} interpreter steps for one event {events}\n{text}")
        except Exception as e:
            raise Violation("exception-escaped:" + type(e).__name__, f"{events}: {e!r}"[:300] + "\n" + text)
        max_steps = max(max_steps, counter["n"])
        return out, state

    reached = False
    saw_error = False
    nt = False
    canary_checks = 0
    try:
        asyncio.set_event_loop(loop)
        counter["limit"] = max(2000, 200 * len(text.splitlines()))
        out, state = run([], None)
        ledger(out)
        types = smh.types(out)
        reached |= "Reached" in types or "ReachedSoft" in types
        saw_error |= "SawError" in types
        if "Reached" in types and "SawError" not in types:
            raise Violation("error-not-reported", f"fault {kind} reached at start but no ColangError was observed; events {types}\n{text}")
        main = [fs for fs in state.flow_states.values() if fs.flow_id == "main"]
        if (not main or main[0].status.value != "started") and any(k not in MAIN_SURVIVES for k in case["imm"]):
            # activating a flow that fails before it started legitimately fails main; only termination is asserted
            return ok(nt=True, labels=["fault-" + kind, "main-failed-by-failing-activation"] + ["imm-" + k for k in case["imm"]], view={"program": text})
        if not main or main[0].status.value != "started":
            raise Violation("main-not-running", f"main is {main[0].status.value if main else 'missing'} after start\n{text}")
        bad = smh.invariants(state)
        if bad:
            raise Violation(bad[0][0], f"after start: {bad[0][1]}\n{text}")
        for i, item in enumerate(case["hist"]):
            parked_fault = must_fail = trigger_parked = False
            if item[0] == "evz":
                ev = {"type": "EvZ"}
            elif item[0] == "evc":
                pay_cls, has_v, value = payload(item, cmp)
                ev = {"type": "EvC"}
                if has_v:
                    ev["v"] = value
                if kind in CMP_FAULTS and any(CMP_OPS[cmp["op"]](n, cmp["ref"]) for n in _numbers(value)):
                    # the helper would legitimately go on and compete with the canary of its loop (never generated; hand-written replays)
                    return ok(skip="payload-could-satisfy-the-comparison")
                waiting = smh.scan_matchers(state).get("EvC", [])
                parked_fault = any(state.flow_states[f].flow_id.startswith("h") for f, _ in waiting)
                # the child flow that carries the fault behind `match EvC()`: this very event walks it into the erroneous statement
                trigger_parked = any(state.flow_states[f].flow_id == "onevc" for f, _ in waiting)
                evc_triggers += trigger_parked
                # an erroneous pattern fails whatever arrives; a valid comparison pattern only when it has to compare a non-number
                must_fail = parked_fault and (kind not in CMP_FAULTS or compare_must_fail(cmp, has_v, value))
                if parked_fault and kind in CMP_FAULTS:
                    delivered.add(pay_cls if must_fail or pay_cls not in ("str", "list", "dict") else pay_cls + "-not-compared")
                    if must_fail and benign_parked:
                        delivered.add("wrong-type-after-well-typed")
                    benign_parked |= not must_fail
            elif item[0] == "toward":
                ev = _toward(state, case, item, sess)
                if ev is None:
                    continue
                toward_used += 1
            else:
                fake = smh.Session.__new__(smh.Session)
                fake.state, fake.running, fake.action_type = state, sess["running"], sess["types"]
                ev = smh.Session.concrete(fake, item)
                if ev is None:
                    continue
            ref_due = []
            if kind in REFARG_FAULTS:
                # instances of the faulty helper parked on the erroneous reference-member match for which THIS event is the referenced
                # object's own event (the action's event with its uid / the event that lets the referenced child flow finish)
                parked = _ref_parked(state, case)
                ref_parked_seen |= bool(parked)
                for fs_, obj in parked:
                    if isinstance(obj, _flows().Action):
                        if ev["type"] == obj.name + ref["member"] and ev.get("action_uid") == obj.uid:
                            ref_due.append(fs_.uid)
                    elif isinstance(obj, _flows().FlowState):
                        if ev["type"] == REF_CHILD_EVENT and obj.uid in [f for f, _ in smh.scan_matchers(state).get(REF_CHILD_EVENT, [])]:
                            ref_due.append(fs_.uid)
            family_parked = False
            if ev["type"] in ev_canaries:
                family_parked = any(state.flow_states[f].flow_id.startswith("meta") for f, _ in smh.scan_matchers(state).get(ev["type"], []))
            out, state = run([ev], state)
            ledger(out)
            types = smh.types(out)
            if ev["type"] in ev_canaries:
                canary_checks += 1
                ev_canary_hits += family_parked
                cn = types.count("Canary%sOut" % ev["type"])
                if cn != 1:
                    raise Violation(
                        "canary-starved" if family_parked else "canary-miscount",
                        f"after {ev} (#{i}) the canary waiting for every {ev['type']} emitted Canary{ev['type']}Out x{cn} (expected 1); a flow of the hierarchy under the faulty tag ({kind}) was waiting for that event: {family_parked}; events {types}\n{text}",
                    )
            if kind in REFARG_FAULTS and ev["type"] == _canary3_event(case):
                canary_checks += 1
                c3 = types.count("Canary3Out")
                if c3 != 1:
                    raise Violation(
                        "canary-starved" if ref_due else "canary-miscount",
                        f"after {ev} (#{i}) the canary waiting for every {ev['type']} emitted Canary3Out x{c3} (expected 1); faulty head parked on the referenced object's event: {bool(ref_due)}; events {types}\n{text}",
                    )
            if ref_due:
                reached = True
                ref_delivered += 1
                if "SawError" not in types:
                    raise Violation("error-not-reported", f"erroneous match {kind} was parked when the referenced object's event {ev} (#{i}) came in but no ColangError observed; events {types}\n{text}")
                alive = [u for u in ref_due if u in state.flow_states and smh.sm().is_listening_flow(state.flow_states[u])]
                if alive:
                    raise Violation("faulty-flow-not-failed", f"erroneous match {kind}: the flow instance is still running after the referenced object's event {ev} (#{i}) was matched against it; events {types}\n{text}")
            if "Reached" in types:
                reached = True
                if "SawError" not in types:
                    raise Violation("error-not-reported", f"fault {kind} reached on event #{i} {ev} but no ColangError was observed; events {types}\n{text}")
            if "ReachedSoft" in types:
                reached = soft_reached = True
            saw_error |= "SawError" in types
            if item[0] == "evc":
                canary_checks += 1
                c1, c2 = types.count("CanaryOut"), types.count("Canary2Out")
                if (c1, c2) != (1, 1):
                    raise Violation(
                        "canary-starved" if parked_fault or trigger_parked else "canary-miscount",
                        f"after EvC (#{i}) {ev} canaries emitted CanaryOut x{c1}, Canary2Out x{c2} (expected 1 and 1); faulty head parked on EvC: {parked_fault}; flow carrying fault {kind} parked on EvC: {trigger_parked}; events {types}\n{text}",
                    )
                if must_fail:
                    reached = True
                    if "SawError" not in types:
                        raise Violation("error-not-reported", f"erroneous match {kind} evaluated on EvC (#{i}) {ev} but no ColangError observed; events {types}\n{text}")
            bad = smh.invariants(state)
            if bad:
                raise Violation(bad[0][0], f"after event #{i} {ev}: {bad[0][1]}\n{text}")
    finally:
        asyncio.set_event_loop(None)
        loop.close()
        rmod.asyncio.sleep = real_sleep
    if reached or any(k not in ("finish", "return") for k in case["imm"]):
        nt = True
    labels = ["fault-" + kind, "reached" if reached else "not-reached"]
    labels += ["imm-" + k for k in case["imm"]]
    if kind in CMP_FAULTS:
        labels += ["cmp-op-" + cmp["op"], "cmp-ref-" + type(cmp["ref"]).__name__, "cmp-nest-" + cmp["nest"]]
        labels += ["cmp-parked-got-" + d for d in sorted(delivered)]
    if kind in REFARG_FAULTS:
        labels += ["refarg-obj-" + ref["obj"], "refarg-member-" + ref["member"], "refarg-bad-%d" % (ref["bad"] % len(BAD_ARGS))]
        labels.append("refarg-own-event-delivered-while-parked" if ref_delivered else "refarg-parked-only" if ref_parked_seen else "refarg-never-parked")
    if kind in SUB_FAULTS:
        if kind in RET_FAULTS:
            labels += ["ret-bad-%d" % (sub["bad"] % len(BAD_RETS))]
        if kind in DEF_FAULTS:
            labels += ["default-bad-%d" % (sub["bad"] % len(BAD_DEFAULTS)), "default-sig-%d" % (sub["sig"] % len(DEF_SIGS))]
        if kind in META_FAULTS:
            labels += ["meta-tag-" + META_TAGS[sub["tag"] % len(META_TAGS)], "meta-bad-%d" % (sub["bad"] % len(BAD_METAS))]
        if kind in META_ANC_FAULTS:
            d = _anc_depth(sub)
            links = ["start" if (sub["links"] >> i) & 1 else "await" for i in range(d)]
            labels += ["meta-ancestor-tag-" + _anc_tags(sub)[0], "meta-descendant-tag-" + _anc_tags(sub)[1], "meta-bad-%d" % (sub["bad"] % len(BAD_METAS))]
            labels += ["meta-ancestor-is-" + META_ANC_LEVELS[d - 1], "meta-ancestor-links-" + ("all-await" if "start" not in links else "all-start" if "await" not in links else "mixed")]
            labels += ["meta-descendant-tag-value-" + ("name" if sub["leafval"] % len(META_LEAF_VALUES) else "true"), "meta-ancestor-finishes-later" if sub["ancfin"] else "meta-ancestor-stays"]
            if reached:
                labels.append("meta-descendant-finished-under-faulty-ancestor")
            if ev_canaries:
                labels.append("meta-own-event-canary-checked-while-hierarchy-waits" if ev_canary_hits else "meta-own-event-canary-idle")
        if kind == "bad-internal-event":
            labels += ["internal-event-%d" % (sub["ie"] % len(BAD_EVENTS)), "internal-event-raised" if soft_reached and saw_error else "internal-event-tolerated" if soft_reached else "internal-event-not-sent"]
        if kind in CHILD_MARKED:
            labels.append("child-waits-before-fault" if sub["wait"] else "child-fails-without-waiting")
    if _on_evc(case):
        labels.append("fault-behind-canary-event")
        labels.append("fault-reached-by-canary-event" if evc_triggers and reached else "fault-behind-canary-event-not-reached")
    if saw_error:
        labels.append("colang-error-seen")
    if case["activate_helpers"]:
        labels.append("helpers-activated")
    if toward_used:
        labels.append("history-steered-towards-fault")
    view = {"program": text, "history": case["hist"][:10], "fault": case["fault"], "reached": reached}
    if co2.has_recursion({"flows": list(case["helpers"]) + [{"body": []}]}):
        labels.append("recursive-flow-calls")
    labels.append("steps<=%d" % (10 ** len(str(max(max_steps, 1)))))
    return ok(nt=nt, labels=labels, view=view, counters={"canary_checks": canary_checks})
