#!/bin/bash
# Runs every seeded change against the check of its property (quick tier) and prints one line per seed.
# Without --scratch DIR (first argument pair) it needs exclusive use of /repo (patches are applied there and reverted).
cd /verif
for d in seeded/*/; do
  n=$(basename $d)
  [ -f $d/patch.diff ] || continue
  if grep -q '"status": "neutralised"' $d/meta.json; then echo "$n skipped (neutralised by a later fix, see meta.json)"; continue; fi
  out=$(tools/run_seeded.sh $n "$@" 2>&1)
  ex=$(echo "$out" | grep -o "exit=[0-9]*" | tail -1)
  kinds=$(echo "$out" | grep -E "^  [a-zA-Z0-9_:<>=.-]+: " | sed -E 's/^  ([^ ]+): .*/\1/' | sort -u | tr '\n' ' ')
  echo "$n $ex kinds: $kinds"
done
