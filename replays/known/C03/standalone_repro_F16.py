"""Standalone (no vf harness): v1, one input rail of the library shape + a custom action in a dialog flow that raises in turn 1."""
import sys
sys.path.insert(0, "/repo")
import pytest  # noqa
from nemoguardrails import LLMRails, RailsConfig
from langchain_core.language_models.llms import LLM

class Fake(LLM):
    @property
    def _llm_type(self): return "fake"
    def _call(self, prompt, stop=None, run_manager=None, **kw): return "Hello from the LLM"
    async def _acall(self, prompt, stop=None, run_manager=None, **kw): return "Hello from the LLM"

CO = """
define subflow check input
  $allowed = execute check_input(text=$user_message)
  if not $allowed
    bot refuse to respond
    stop

define subflow enrich input
  $info = execute lookup(text=$user_message)
"""
YAML = """
models: []
rails:
  input:
    flows:
      - check input
      - enrich input
"""
calls = {"n": 0}
async def check_input(text=None):
    print("   check_input called ->", True)
    return True
async def lookup(text=None):
    calls["n"] += 1
    print("   lookup called", calls["n"])
    if calls["n"] == 1:
        raise RuntimeError("backend down")
    return "info"

rails = LLMRails(RailsConfig.from_content(CO, YAML), llm=Fake())
rails.register_action(check_input, "check_input")
rails.register_action(lookup, "lookup")
msgs = []
for t in range(3):
    msgs.append({"role": "user", "content": f"question {t}"})
    r = rails.generate(messages=msgs)
    print("turn", t, "->", r)
    msgs.append(r)
