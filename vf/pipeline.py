"""vf.pipeline - LLMRails harness for Colang 1.0 and 2.x configurations (DESIGN 3.5).

Shared by the pipeline-level checks (C01-C03, C15-C17).  Everything goes through the public API:
``RailsConfig.from_content`` -> ``LLMRails(config, llm=ScriptedLLM())`` -> ``register_action`` ->
``generate`` / ``generate_async`` (v2: with the returned ``state`` handed back on the next turn).

Configuration spec (``cfg``, pure JSON - part of every case)
-----------------------------------------------------------
    {"v": 1 | 2,                       Colang version
     "in":  [kind, ...],               input rails in configured order
     "out": [kind, ...],               output rails in configured order
     "ret": n,                         number of retrieval rails (v1 only)
     "dialog": bool | "llmc",          v1: user intents + flows + predefined/LLM bot messages (else general mode)
                                       v2: True = a generated dialog flow that branches on the case's route through a
                                       custom action, False = every turn asks the LLM (PassthroughLLMAction),
                                       "llmc" = the library's `llm continuation` (import llm) with intent flows: the LLM
                                       picks the user intent and, for unhandled intents, generates the bot action
     "passthrough": bool,              v1 only: `passthrough: True` (the LLM gets the raw request: the message list without
                                       dialog rails, `$user_message` with them)
     "exc": bool,                      enable_rails_exceptions
     "style": "config" | "hand"}       v2 only: rails listed in config.yml (parameterless flows reading the globals)
                                       or hand-written `flow input rails $input_text` passing the text on
     (optional) "ext": name            opt-in: a check module's registered extension post-processes the generated configuration
                                       and adds fake actions (see ``register_extension``); the extension defines its own keys
    kind: "check"   $allowed = execute a(text=..) / if not $allowed / refuse-or-exception / stop     (library shape)
          "rewrite" $user_message = execute a(text=$user_message)                                  (v1 only)
          "both"    block or replace the text                                                      (v1 only)
          "self"    the shipped `self check input` / `self check output` rail (verdict = scripted LLM yes/no)
Rail i of category c is called ``c{i}`` ("in0", "out1", "ret0") in traces; its flow is ``rail_flow_name``.

Case (pure JSON)
----------------
    {"config": cfg,
     "turns": [{"user": text, "route": r, "in": [verdict..], "out": [verdict..], "body": llm text tail,
                "redo": True = (Colang 1.0) this turn replaces the previous one: the history is re-sent without it (optional),
                "bot": supplied bot message (optional), "options": generation options (optional)}, ...],
     "api": "sync" | "async",
     "faults": [[action, k], ...], "llm_override": [[turn, k, text], ...]}      (hooks, see vf.fakes.Session)

API
---
``build_config(cfg) -> (colang_text, yaml_text)``
``Pipeline(cfg)``                      one LLMRails instance + its ScriptedLLM and registered fake actions
    ``.new_session(case, session_cls=Session)``   start a conversation (clears events_history_cache)
    ``.turn(session, t)`` / ``await .turn_async(session, t)`` -> TurnObs dict
``get_pipeline(cfg, fresh=False)``     per-worker cache keyed by the configuration (LRU)
``run_conversation(case, fresh=False, session_cls=Session) -> Observations``
    ``obs.turns[t]``: {"reply": message dict | None, "raised": "Type: msg" | None, "trace": [...],
    "llm": [...], "log": [{"type","name","stop","actions"}] | None}; ``obs.session`` for everything else.
``run_checked(case, check)``           runs ``check(case, obs)`` on a cached instance and, if it raises a
    Violation, confirms it on a fresh instance (a failure that does not reproduce there is a harness error,
    never a VIOLATION - instance reuse must not be able to fabricate findings; C15 owns that subject).
"""
import asyncio
import copy
import json
from collections import OrderedDict

import yaml

from . import fakes
from .fakes import MODELS, PREDEF, SELF_CHECK_PROMPTS, Session, block_message, refusal_text

EVENT_BUDGET = "Too many events."  # v1 runtime: `generate` raises Exception("Too many events.") after 100 new events in a turn
_CACHE_SIZE = 6
_cache = OrderedDict()
_loop = {"loop": None}


def loop():
    lp = _loop["loop"]
    if lp is None or lp.is_closed():
        lp = asyncio.new_event_loop()
        asyncio.set_event_loop(lp)
        _loop["loop"] = lp
    return lp


def reset_runtime():
    """Forget every cached instance and the event loop (after a watchdog hit or an escaping BaseException)."""
    _cache.clear()
    lp = _loop["loop"]
    _loop["loop"] = None
    if lp is not None and not lp.is_closed():
        try:
            lp.close()
        except Exception:
            pass


# ------------------------------------------------------------------------------------------------
# names

_CAT_WORD = {"in": "in", "out": "out", "ret": "ret"}


def rail_flow_name(cat, i, kind):
    if kind == "self":
        return "self check input" if cat == "in" else "self check output"
    return f"vf {_CAT_WORD[cat]} r{i}"


def rail_action_name(cat, i, v):
    return f"vf_{cat}_r{i}" if v == 1 else f"Vf{cat.capitalize()}R{i}Action"


def dialog_action_name(v):
    return "vf_dialog_action" if v == 1 else "VfDialogAction"


V2_ROUTES = ("predef", "llm", "pl", "lp", "ll", "act_llm")
V1_ROUTES = ("predef", "llm", "pl", "lp", "ll", "next_llm", "next_predef", "act_llm")


def routes_for(cfg):
    if not cfg.get("dialog"):
        return ("llm",)
    if cfg["v"] == 2 and cfg["dialog"] == "llmc":
        return ("predef", "llm")
    return V1_ROUTES if cfg["v"] == 1 else V2_ROUTES


# ------------------------------------------------------------------------------------------------
# Colang 1.0


def _v1_rail(cat, i, kind):
    if kind == "self":
        return ""
    var = "$user_message" if cat == "in" else "$bot_message"
    exc = "InputRailException" if cat == "in" else "OutputRailException"
    name = rail_flow_name(cat, i, kind)
    act = rail_action_name(cat, i, 1)
    refuse = f"vf refuse {cat} r{i}"
    bot = f'define bot {refuse}\n  "{refusal_text(cat, i, kind)}"\n\n'
    block = [
        "    if $config.enable_rails_exceptions",
        f'      create event {exc}(message="{block_message(cat, i, kind)}")',
        "    else",
        f"      bot {refuse}",
        "    stop",
    ]
    if kind == "check":
        body = [f"  $allowed = execute {act}(text={var})", "  if not $allowed"] + block
    elif kind == "rewrite":
        body = [f"  {var} = execute {act}(text={var})"]
        bot = ""
    elif kind == "both":
        body = [f"  $vf_checked = execute {act}(text={var})", "  if not $vf_checked"] + block + [f"  {var} = $vf_checked"]
    else:
        raise ValueError(kind)
    return f"define subflow {name}\n" + "\n".join(body) + "\n\n" + bot


V1_DIALOG = f"""
define user express greeting
  "hello there"
  "hi"

define user ask weather
  "how is the weather"

define user ask joke
  "tell me a joke"

define user ask story
  "tell me a story"

define user ask facts
  "tell me two facts"

define user ask status
  "what is the status"

define user ask answer
  "what is the answer"

define bot express greeting
  "{PREDEF['greet']}"

define bot offer help
  "{PREDEF['help']}"

define flow greeting
  user express greeting
  bot express greeting

define flow weather
  user ask weather
  bot inform weather

define flow joke
  user ask joke
  bot express greeting
  bot tell joke

define flow story
  user ask story
  bot tell story
  bot offer help

define flow facts
  user ask facts
  bot tell first fact
  bot tell second fact

define flow status
  user ask status
  execute vf_dialog_action
  bot inform status

define flow answer
  user ask answer
  $answer = execute vf_llm_text_action
  bot $answer

"""


def _v1_config(cfg):
    co = []
    if cfg.get("dialog"):
        co.append(V1_DIALOG)
    rails = {}
    for cat in ("in", "out"):
        names = []
        for i, kind in enumerate(cfg.get(cat, [])):
            co.append(_v1_rail(cat, i, kind))
            names.append(rail_flow_name(cat, i, kind))
        if names:
            rails["input" if cat == "in" else "output"] = {"flows": names}
    ret = []
    for i in range(int(cfg.get("ret", 0))):
        name = rail_flow_name("ret", i, "ret")
        co.append(f"define subflow {name}\n  $relevant_chunks = execute {rail_action_name('ret', i, 1)}(chunks=$relevant_chunks)\n\n")
        ret.append(name)
    if ret:
        rails["retrieval"] = {"flows": ret}
    y = {"models": MODELS, "enable_rails_exceptions": bool(cfg.get("exc")), "rails": rails, "prompts": SELF_CHECK_PROMPTS}
    if cfg.get("passthrough"):
        y["passthrough"] = True
    return "\n".join(co), yaml.safe_dump(y, sort_keys=False)


# ------------------------------------------------------------------------------------------------
# Colang 2.x


def _v2_rail(cat, i, kind, style):
    if kind == "self":
        return ""
    if kind != "check":
        raise ValueError("v2 rails are generated in the library's check shape only")
    glob = "user_message" if cat == "in" else "bot_message"
    exc = "InputRailException" if cat == "in" else "OutputRailException"
    name = rail_flow_name(cat, i, kind)
    act = rail_action_name(cat, i, 2)
    if style == "hand":
        head = [f"flow {name} $text"]
        var = "$text"
    else:
        head = [f"flow {name}", f"  global ${glob}"]
        var = f"${glob}"
    body = [
        f"  $allowed = await {act}(text={var})",
        "  if not $allowed",
        "    if $system.config.enable_rails_exceptions",
        f'      send {exc}(message="{block_message(cat, i, kind)}")',
        "    else",
        f'      bot say "{refusal_text(cat, i, kind)}"',
        "    abort",
    ]
    return "\n".join(head + body) + "\n\n"


def _v2_dialog(cfg):
    lines = ["flow vf turn", "  global $user_message", "  user said something"]
    if cfg.get("dialog"):
        lines += [
            "  $route = await VfRouteAction()",
            '  if $route == "predef"',
            f'    bot say "{PREDEF["greet"]}"',
            '  elif $route == "pl"',
            f'    bot say "{PREDEF["greet"]}"',
            "    vf llm reply",
            '  elif $route == "lp"',
            "    vf llm reply",
            f'    bot say "{PREDEF["help"]}"',
            '  elif $route == "ll"',
            "    vf llm reply",
            "    vf llm reply",
            '  elif $route == "act_llm"',
            "    await VfDialogAction()",
            "    vf llm reply",
            "  else",
            "    vf llm reply",
        ]
    else:
        lines += ["  vf llm reply"]
    lines += [
        "",
        "flow vf llm reply",
        "  global $user_message",
        "  $text = await PassthroughLLMAction(user_message=$user_message)",
        "  bot say $text",
        "",
    ]
    return "\n".join(lines) + "\n"


V2_LLMC = f"""
flow main
  activate llm continuation
  activate vf greeting

flow vf greeting
  user expressed greeting
  bot express greeting

flow user expressed greeting
  user said "hi" or user said "hello there"

flow bot express greeting
  bot say "{PREDEF['greet']}"

"""


def _v2_config(cfg):
    style = cfg.get("style", "config")
    has_self = "self" in cfg.get("in", []) or "self" in cfg.get("out", [])
    co = ["import core", "import guardrails"]
    if has_self:
        co.append("import nemoguardrails.library")  # not pulled in by the generated `input rails` file (probed)
    if cfg.get("dialog") == "llmc":
        co += ["import llm", V2_LLMC]
    else:
        co += ["", "flow main", "  activate vf turn", "", _v2_dialog(cfg)]
    rails = {}
    for cat in ("in", "out"):
        kinds = cfg.get(cat, [])
        names = []
        for i, kind in enumerate(kinds):
            co.append(_v2_rail(cat, i, kind, style))
            names.append(rail_flow_name(cat, i, kind))
        if not names:
            continue
        if style == "hand":
            word, par = ("input", "$input_text") if cat == "in" else ("output", "$output_text")
            co.append(f"flow {word} rails {par}")
            for n, kind in zip(names, kinds):
                co.append(f"  {n}" if kind == "self" else f"  {n} {par}")
            co.append("")
        else:
            rails["input" if cat == "in" else "output"] = {"flows": names}
    y = {"colang_version": "2.x", "models": MODELS, "enable_rails_exceptions": bool(cfg.get("exc")), "prompts": SELF_CHECK_PROMPTS}
    if rails:
        y["rails"] = rails
    return "\n".join(co) + "\n", yaml.safe_dump(y, sort_keys=False)


_EXTENSIONS = {}


def register_extension(name, build_config=None, actions=None):
    """Opt-in extension point for one check module (nothing changes for a spec without the key "ext").

    A configuration spec selects it with the optional key ``"ext": name``; then ``build_config(cfg, colang, yaml_text)
    -> (colang, yaml_text)`` post-processes the generated configuration and ``actions(cfg) -> [fake action, ...]``
    are registered next to the standard ones.  The registering module must be imported before the case runs
    (it is: the module that generates such cases is the one whose ``prop`` runs them)."""
    _EXTENSIONS[name] = {"build_config": build_config, "actions": actions}


def _extension(cfg):
    name = cfg.get("ext")
    if name is None:
        return None
    if name not in _EXTENSIONS:
        raise KeyError(f"vf.pipeline: configuration spec names the extension {name!r}, which no imported module registered")
    return _EXTENSIONS[name]


def build_config(cfg):
    """(colang_text, yaml_text) for a configuration spec."""
    co, y = _v1_config(cfg) if cfg["v"] == 1 else _v2_config(cfg)
    ext = _extension(cfg)
    if ext and ext["build_config"]:
        co, y = ext["build_config"](cfg, co, y)
    return co, y


# ------------------------------------------------------------------------------------------------


class Observations:
    def __init__(self, case, session, turns, pipeline):
        self.case = case
        self.session = session
        self.turns = turns
        self.pipeline = pipeline


def _norm_reply(res):
    """message dict out of whatever generate returned (dict | GenerationResponse)."""
    if isinstance(res, dict):
        return res, None
    response = getattr(res, "response", None)
    msg = response[0] if isinstance(response, list) and response else {"role": "assistant", "content": response}
    log = None
    glog = getattr(res, "log", None)
    if glog is not None and getattr(glog, "activated_rails", None) is not None:
        log = [
            {"type": r.type, "name": r.name, "stop": bool(r.stop), "actions": [a.action_name for a in r.executed_actions], "decisions": list(r.decisions)}
            for r in glog.activated_rails
        ]
    return msg, log


class Pipeline:
    """One LLMRails instance for a configuration spec, with the fakes wired in."""

    def __init__(self, cfg):
        from nemoguardrails import LLMRails, RailsConfig

        fakes.register_fake_embedding()
        self.cfg = cfg
        self.v = cfg["v"]
        self.colang, self.yaml = build_config(cfg)
        self.config = RailsConfig.from_content(self.colang, self.yaml)
        self.llm = fakes.ScriptedLLM()
        loop()  # make sure the instance is built with our loop as the current one
        self.rails = LLMRails(self.config, llm=self.llm)
        self.action_names = []
        for cat in ("in", "out"):
            for i, kind in enumerate(cfg.get(cat, [])):
                if kind != "self":
                    self._register(fakes.make_rail_action(cat, i, rail_action_name(cat, i, self.v)))
        for i in range(int(cfg.get("ret", 0))):
            self._register(fakes.make_retrieval_action(i, rail_action_name("ret", i, self.v)))
        self._register(fakes.make_dialog_action(dialog_action_name(self.v)))
        if self.v == 1:
            self._register(fakes.make_llm_text_action("vf_llm_text_action"))
        if self.v == 2:
            self._register(fakes.make_route_action("VfRouteAction"))
        ext = _extension(cfg)
        if ext and ext["actions"]:
            for fn in ext["actions"](cfg):
                self._register(fn)

    def _register(self, fn):
        self.rails.register_action(fn, fn.__name__)
        self.action_names.append(fn.__name__)

    def new_session(self, case, session_cls=Session):
        self.rails.events_history_cache.clear()
        s = session_cls(case, self.cfg)
        s.messages = []
        s.state = {} if self.v == 2 else None
        return s

    def _kwargs(self, session, t):
        turn = session.turns[t]
        user = {"role": "user", "content": turn["user"]}
        if turn.get("start_event") is not None:
            # opt-in turn key (C02): the turn is started by an EVENT message ({"type": ..., ...}) instead of a user message
            user = {"role": "event", "event": json.loads(json.dumps(turn["start_event"]))}
        kw = {}
        if self.v == 1:
            if not hasattr(session, "snap"):
                session.snap = {}
            if turn.get("redo") and t - 1 in session.snap:
                # the user edits / regenerates the last exchange: the history is re-sent WITHOUT the previous turn
                del session.messages[session.snap[t - 1]:]
            session.snap[t] = len(session.messages)
            # fresh message objects for every call, as a server builds them (passthrough mode writes into them)
            msgs = copy.deepcopy(session.messages) + [dict(user)]
            if turn.get("bot") is not None:
                msgs.append({"role": "assistant", "content": turn["bot"]})
            kw["messages"] = msgs
        else:
            kw["messages"] = [user]
            kw["state"] = session.state
        if turn.get("options") is not None:
            kw["options"] = json.loads(json.dumps(turn["options"]))
        return kw, user

    def _after(self, session, t, user, res, exc, n_trace, n_llm):
        obs = {"reply": None, "raised": None, "log": None, "trace": session.trace[n_trace:], "llm": session.llm_calls[n_llm:]}
        if exc is not None:
            obs["raised"] = f"{type(exc).__name__}: {exc}"
            session.messages.append(user)
            return obs
        msg, log = _norm_reply(res)
        obs["reply"], obs["log"] = msg, log
        if self.v == 1:
            session.messages.append(user)
            if session.turns[t].get("bot") is None:
                if not (self.cfg.get("passthrough") and msg.get("role") == "exception"):
                    session.messages.append(msg)  # (a rail exception is not a chat message the raw request could carry)
            else:
                session.messages.append({"role": "assistant", "content": session.turns[t]["bot"]})
        else:
            st = getattr(res, "state", None)
            if st is not None:
                session.state = st
        return obs

    def turn(self, session, t):
        """One turn through the synchronous `generate` (api "sync") or `generate_async` on our loop."""
        kw, user = self._kwargs(session, t)
        n_trace, n_llm = len(session.trace), len(session.llm_calls)
        lp = loop()
        tok = fakes.set_current(session, t)
        res = exc = None
        try:
            if session.case.get("api", "sync") == "async":
                res = lp.run_until_complete(self.rails.generate_async(**kw))
            else:
                res = self.rails.generate(**kw)
        except Exception as e:  # the properties decide whether an escaping exception is a violation
            exc = e
        finally:
            fakes.CURRENT.reset(tok)
        return self._after(session, t, user, res, exc, n_trace, n_llm)

    async def turn_async(self, session, t):
        """Coroutine variant for checks that schedule several conversations themselves (C15)."""
        kw, user = self._kwargs(session, t)
        n_trace, n_llm = len(session.trace), len(session.llm_calls)
        fakes.set_current(session, t)  # the surrounding task's context is private to it
        res = exc = None
        try:
            res = await self.rails.generate_async(**kw)
        except Exception as e:
            exc = e
        return self._after(session, t, user, res, exc, n_trace, n_llm)


def cfg_key(cfg):
    return json.dumps(cfg, sort_keys=True)


def get_pipeline(cfg, fresh=False):
    if fresh:
        return Pipeline(cfg)
    key = cfg_key(cfg)
    p = _cache.get(key)
    if p is None:
        p = Pipeline(cfg)
        _cache[key] = p
        while len(_cache) > _CACHE_SIZE:
            _cache.popitem(last=False)
    else:
        _cache.move_to_end(key)
    return p


def run_conversation(case, fresh=False, session_cls=Session):
    """Runs all turns of `case`; returns Observations.  Exceptions of `generate` are recorded per turn."""
    try:
        p = get_pipeline(case["config"], fresh=fresh)
        s = p.new_session(case, session_cls)
        turns = [p.turn(s, t) for t in range(len(case["turns"]))]
        return Observations(case, s, turns, p)
    except BaseException:
        reset_runtime()
        raise


def _dump(case, exc):
    """VF_DUMP=<dir>: keep the case of an unclassified exception (harness error) for debugging."""
    import os

    d = os.environ.get("VF_DUMP")
    if d:
        from .core import case_hash

        os.makedirs(d, exist_ok=True)
        with open(os.path.join(d, f"err-{case_hash(case)}.json"), "w") as f:
            json.dump({"error": repr(exc)[:500], "case": case}, f, indent=1)


def run_checked(case, check, session_cls=Session):
    """check(case, obs) -> result; a Violation found on a reused instance must reproduce on a fresh one."""
    from .core import Violation

    try:
        return check(case, run_conversation(case, fresh=False, session_cls=session_cls))
    except Exception as e:
        if not isinstance(e, Violation):
            _dump(case, e)
            raise
        first = e
        try:
            check(case, run_conversation(case, fresh=True, session_cls=session_cls))
        except Violation:
            raise
        raise RuntimeError(f"harness: violation seen only on a reused LLMRails instance, not on a fresh one: {first}")


def view(case, obs, max_len=160):
    """Small JSON sample for the evidence file."""
    out = {"config": case["config"], "turns": []}
    for t, (spec, o) in enumerate(zip(case["turns"], obs.turns)):
        rep = o["reply"]
        out["turns"].append(
            {
                "user": spec["user"][:max_len],
                "route": spec.get("route"),
                "in": spec.get("in"),
                "out": spec.get("out"),
                "rail_calls": [f"{e['rail']}:{e.get('verdict')}" for e in o["trace"]],
                "llm_tasks": [c["task"] for c in o["llm"]],
                "reply": (str(rep.get("content"))[:max_len] if isinstance(rep, dict) else None) if not o["raised"] else o["raised"][:max_len],
                "reply_role": rep.get("role") if isinstance(rep, dict) else None,
            }
        )
    return out


# ------------------------------------------------------------------------------------------------
# reference model of the rail chains (written from the property statements, independent of the code)
#
#   model_input(cfg, spec, t)      what the input rails of turn t must do
#   model_output(cfg, spec, t, k)  what the output rails must do with the LLM text of call k of turn t
#   chain_problem(calls, entries)  None, or a sentence saying how recorded invocations deviate from a chain
#   reply_text / reply_exceptions  accessors for the value returned by generate


def model_input(cfg, spec, t, selected=True):
    """{"calls": [{"rail","sees","not","verdict"}], "blocked": i | None, "final": marker, "orig": marker}"""
    orig = cur = fakes.mk_user(spec.get("umark", t))  # "umark": the turn repeats the exact text of an earlier turn
    calls = []
    if not selected:
        return {"calls": calls, "blocked": None, "final": cur, "orig": orig}
    for i, kind in enumerate(cfg.get("in", [])):
        v = fakes.eff(kind, (spec.get("in") or [])[i] if i < len(spec.get("in") or []) else "accept")
        calls.append({"rail": f"in{i}", "sees": cur, "not": orig if cur != orig else None, "verdict": v})
        if v == "reject":
            return {"calls": calls, "blocked": i, "final": cur, "orig": orig}
        if v == "rewrite":
            cur = fakes.mk_rw_in(i, t)
    return {"calls": calls, "blocked": None, "final": cur, "orig": orig}


def model_output(cfg, spec, t, k, selected=True):
    """Same for the output rails applied to the LLM text `LM{t}C{k}Z` (verdicts of the turn the rails run in).

    The statement of C02 does not say that a rejection ends the chain (C01 says so for input rails only), so
    "calls" lists the whole chain - a rail after a rejecting one, if it runs at all, sees the unchanged text -
    and "blocked" is the first rejecting rail; "need" = number of leading calls after which the verdict on the
    text is settled (all rails, or up to and including the first rejecting one)."""
    orig = cur = fakes.mk_llm(t, k)
    calls = []
    blocked = None
    if selected:
        for i, kind in enumerate(cfg.get("out", [])):
            v = fakes.eff(kind, (spec.get("out") or [])[i] if i < len(spec.get("out") or []) else "accept")
            calls.append({"rail": f"out{i}", "sees": cur, "not": orig if cur != orig else None, "verdict": v})
            if v == "reject" and blocked is None:
                blocked = i
            if v == "rewrite":
                cur = fakes.mk_rw_out(i, t, k)
    need = len(calls) if blocked is None else blocked + 1
    return {"calls": calls, "blocked": blocked, "final": cur, "orig": orig, "need": need}


def chain_problem(calls, entries, what, prefix_ok=False):
    got = [e["rail"] for e in entries]
    exp = [c["rail"] for c in calls]
    if got != exp and not (prefix_ok and got == exp[: len(got)]):
        return f"{what}: rail actions invoked {got}, reference model says {exp}"
    for c, e in zip(calls, entries):
        text = str(e["text"])
        if c["sees"] not in text:
            return f"{what}: {c['rail']} was given {text[:80]!r}, it must see the text carrying {c['sees']}"
        if c.get("not") and c["not"] in text:
            return f"{what}: {c['rail']} was given {text[:80]!r} which still carries the pre-rewrite marker {c['not']}"
        if e.get("ctx") is not None and c["sees"] not in str(e["ctx"]):
            return f"{what}: {c['rail']} ran while the context variable held {str(e['ctx'])[:80]!r}, expected the text carrying {c['sees']}"
    return None


def reply_text(obs_turn):
    rep = obs_turn["reply"]
    if not isinstance(rep, dict):
        return ""
    c = rep.get("content")
    return c if isinstance(c, str) else ""


def reply_exceptions(obs_turn):
    """Rail-exception events carried by the reply: v1 role `exception`, v2 the `events` list."""
    rep = obs_turn["reply"]
    out = []
    if isinstance(rep, dict):
        if rep.get("role") == "exception" and isinstance(rep.get("content"), dict):
            out.append(rep["content"])
        for ev in rep.get("events") or []:
            if isinstance(ev, dict) and str(ev.get("type", "")).endswith("Exception"):
                out.append(ev)
    return out


def generated_texts(obs_turn):
    """(turn, k) of every message text the LLM produced in this turn (bot-message / general / passthrough calls)."""
    out = []
    for c in obs_turn["llm"]:
        if c["task"] in fakes.MESSAGE_TASKS and c["answer"] is not None:
            out += fakes.lineage(c["answer"])
    return out


# ------------------------------------------------------------------------------------------------
# shared Hypothesis strategies (every random choice of a case is drawn here)

HOSTILE = "abcdehilorstuwy  \"'${}:%\n\\.,!?()[]<>|=*-_/"
TAME = "abcdehilorstuwy  .,!?'"
INTENT_EXAMPLES = ["hello there", "hi", "how is the weather", "tell me a joke", "tell me a story", "what is the status"]


def st_user_text(t):
    """User text of turn t: hostile characters and/or an intent example around the turn's marker."""
    from hypothesis import strategies as st

    noise = st.one_of(st.text(HOSTILE, max_size=10), st.sampled_from(INTENT_EXAMPLES), st.just(""), st.sampled_from(['{{ x }}', "$user_message", '"', "{$x}", "a: b", "x\ny", "{% if %}"]))
    return st.tuples(noise, noise).map(lambda ab: f"{ab[0]}{' ' if ab[0] and ab[0][-1].isalnum() else ''}{fakes.mk_user(t)}{' ' if ab[1] and ab[1][0].isalnum() else ''}{ab[1]}")


def st_verdict(kind, p_accept=5):
    from hypothesis import strategies as st

    if kind in ("check", "self"):
        return st.sampled_from(["accept"] * p_accept + ["reject"] * 2)
    if kind == "rewrite":
        return st.sampled_from(["accept"] * 3 + ["rewrite"] * 3)
    return st.sampled_from(["accept"] * 3 + ["reject"] * 2 + ["rewrite"] * 2)


def st_rail_kinds(v, lo, hi, cat):
    """Ordered rail pool: v1 check/rewrite/both/self, v2 check/self; at most one shipped self-check rail."""
    from hypothesis import strategies as st

    pool = ["check", "check", "rewrite", "both", "self"] if v == 1 else ["check", "check", "check", "self"]

    def one_self(kinds):
        seen, out = False, []
        for k in kinds:
            if k == "self":
                if seen:
                    k = "check"
                seen = True
            out.append(k)
        return out

    return st.lists(st.sampled_from(pool), min_size=lo, max_size=hi).map(one_self)


def st_body():
    from hypothesis import strategies as st

    return st.text(TAME, min_size=1, max_size=16).map(lambda s: s.strip() or "words")
