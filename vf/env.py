"""Process bootstrap shared by every check (DESIGN 2.2).

A check is a fresh /venv interpreter with the repository's *working tree* first on sys.path
(nemoguardrails is an editable install of /repo, so importing it *is* the rebuild), a fixed hash
seed, COLANGPATH set before the package is imported and pytest imported so that predefined bot
messages are picked deterministically.
"""
import os
import sys

VERIF_DIR = os.path.dirname(os.path.dirname(os.path.abspath(__file__)))
REPO = os.environ.get("VERIF_REPO", "/repo")
PY = "/venv/bin/python"
GUARD = "NEMO_GUARDRAILS_VERIF"


def reexec_if_needed():
    """Re-exec under /venv/bin/python with PYTHONHASHSEED=0 (fresh, deterministic interpreter)."""
    want = {
        "PYTHONHASHSEED": "0",
        "COLANGPATH": REPO,
        GUARD: "1",
        "PYTHONDONTWRITEBYTECODE": "1",
        "TOKENIZERS_PARALLELISM": "false",
    }
    need = os.path.realpath(sys.executable) != os.path.realpath(PY) and os.path.exists(PY)
    for k, v in want.items():
        if os.environ.get(k) != v:
            need = True
    if need and os.environ.get("VF_REEXEC") != "1":
        env = dict(os.environ)
        env.update(want)
        env["VF_REEXEC"] = "1"
        py = PY if os.path.exists(PY) else sys.executable
        os.execve(py, [py] + sys.argv, env)


def bootstrap():
    """Make `import nemoguardrails` resolve to the working tree and silence logging."""
    os.environ.setdefault("COLANGPATH", REPO)
    os.environ.setdefault(GUARD, "1")
    if VERIF_DIR not in sys.path:
        sys.path.insert(0, VERIF_DIR)
    if REPO in sys.path:
        sys.path.remove(REPO)
    sys.path.insert(0, REPO)
    import logging

    logging.disable(logging.CRITICAL)
    import warnings

    warnings.filterwarnings("ignore")
    try:
        import pytest  # noqa: F401  ("pytest" in sys.modules => deterministic bot messages)
    except Exception:
        pass


def seed():
    try:
        return int(os.environ.get("VERIF_SEED", "1"))
    except ValueError:
        return 1
