"""C18 - streaming output does not depend on how the LLM text is chunked.

Domain   : text (pattern-aware alphabet, incl. literal backslash + letter pairs and patterns written in another letter
           case) x {prefix, suffix, stop, piped?}
           x ALL 2^(n-1) chunkings (short texts) or sampled chunkings (long texts), optional leading empty token.
Oracle   : (i) metamorphic - every chunking delivers the same concatenation and the same `completion`;
           (ii) reference string function ref(text) = strip prefix if present, cut at first stop,
                else strip suffix if present;  (iii) completion == delivered.
Driven through the LangChain callback interface exactly as llm_call does: on_llm_new_token(token,
chunk=GenerationChunk) ... on_llm_end(...), then the closing push_chunk(None) of generate_async.
"""
import asyncio
import uuid

from hypothesis import strategies as st

from vf.core import Violation, ok

PID = "C18"
LEVEL = "exploration"
EXHAUSTIVE = False  # chunkings of short texts are exhaustive, the texts themselves are sampled
CASE_TIMEOUT = 60
RULE = (
    "texts over the alphabet {a,b,space,\\n,\",:,u,s,e,r} built as [prefix?] body [suffix?] [stop tail?] or "
    "unconstrained, x configs prefix in {None,'  \"','Bot message: \"'} suffix in {None,'\"'} stop in {[],['\"\\n'],"
    "['\\nuser ','\\nUser '],['User:']} - and, in one case of three, prefix/suffix/stop patterns that are themselves generated over {a,b,\\n} (1-4 "
    "characters, up to 3 stop sequences in any list order) - direct or piped to an outer handler; escape dimension (one case in "
    "three of either kind, labels backslash / backslash+letter / backslash-in-pattern): bodies are built from atoms that add a lone "
    "literal backslash, the letters n and t and the two-character pairs backslash+{n,t,r,\",u,backslash} to the alphabet, and "
    "generated patterns and their texts are drawn over {backslash, one drawn escape letter, real newline or a}, so that a token "
    "boundary falls between the backslash and the letter in some chunkings and not in others; letter-case dimension (labels case-variant, "
    "case-variant-of-prefix/-suffix/-stop, case-variant+stop-as-configured): one fixed-configuration case in four puts a configured "
    "pattern that has cased letters (stop sequence, 'Bot message: \"' prefix) into the text in ANOTHER letter case (all lower, all upper, "
    "swapped, or a drawn subset of letters swapped) - in front of the message, after it, followed by more text, by the suffix and, one in "
    "three, by the stop sequence as configured - with bodies over the alphabet closed under case change; two generated-pattern cases in "
    "nine draw patterns and texts over a case-closed alphabet (aA\\n, aAb, aAbB, abAB\\n) and put each pattern into the text as "
    "configured or in another case; patterns are matched as configured, so the reference treats a case variant as ordinary text; "
    "the enumerated core runs 10 tiny "
    "texts plus every backslash pair (bare, between letters, inside the quoted-message shape) plus every cased fixed pattern in "
    "lower/upper/swapped case (stops: bare, between letters, after a quoted message; prefix: bare, in front of a message) under all 48 "
    "fixed configurations (enumerated texts beyond 11 characters other than the bare prefix: one token, one token per character, every "
    "single cut and every cut-out window of <= 3 characters); "
    "for texts of <= 11 characters every one of the 2^(n-1) "
    "chunkings is run, longer texts get 48 sampled chunkings; evaluations counts (text,config) cases, the extra key "
    "chunkings_run counts handler executions. Non-trivial = a pattern (prefix/suffix/stop, whole or a proper piece of "
    "it) occurs inside the body or prefix end and suffix are < 3 characters apart or the text holds a pattern in another letter case; "
    "distinct by (text, config)."
)
ASSUMPTIONS = [
    "tokens are non-empty except an optional leading empty token (an empty token is the handler's end-of-stream signal)",
    "every token arrives as on_llm_new_token(token, chunk=GenerationChunk(text=token)) followed by on_llm_end, as langchain does",
    "reference equality (ii) is not asserted where 'suffix first' and 'stop first' readings differ (counted as ambiguous)",
    "prefix, suffix and stop sequences are matched exactly as configured (the statement speaks of THE configured patterns): the same "
    "letters in another case are ordinary text, delivered unchanged and never a place to cut",
    "the LLM text is a plain character sequence: a backslash followed by a letter is two literal characters for the handler "
    "(translating escaped new lines is done later on the final utterance, not on the stream), so the reference copies them unchanged",
]

PREFIXES = [None, '  "', 'Bot message: "']
SUFFIXES = [None, '"']
STOPS = [[], ['"\n'], ["\nuser ", "\nUser "], ["User:"]]  # the last two are the lists the repo itself configures
ALPHA = 'ab "\n:user'
# Letter-case dimension: the alphabet closed under case change, and the fixed stop lists that contain cased letters.
ALPHA_CASED = ALPHA + "".join(sorted({c.swapcase() for c in ALPHA if c.swapcase() != c}))
CASED_STOPS = [s for s in STOPS if any(c.swapcase() != c for p in s for c in p)]

_counters = {"chunkings_run": 0}


def budget(tier):
    return 3000 if tier == "quick" else 40000


WALL = {"quick": 150, "thorough": 1500}


GEN_ALPHA = "ab\n"
GEN_ALPHAS_CASED = ["aA\n", "aAb", "aAbB", "abAB\n"]  # generated patterns/texts of the letter-case dimension

# Escape dimension: a literal BACKSLASH followed by a character that some layer could read as an escape sequence (escaped
# new line, Windows path C:\new, LaTeX \table, JSON \" and \uXXXX). The handler must pass these two characters on
# literally, wherever the token boundary falls (in particular between the backslash and the letter).
BACKSLASH = "\\"
ESC_LETTERS = 'ntr"u' + BACKSLASH
ESC_ATOMS = [BACKSLASH + c for c in ESC_LETTERS]  # the two-character sequences \n \t \r \" \u \\ (backslash + letter)
ESC_BODY_ATOMS = list(ALPHA) + [BACKSLASH, "n", "t"] + ESC_ATOMS * 2


def _body(esc, alpha, max_size):
    """Body text: plain characters, or (escape dimension) atoms that include a lone backslash and backslash+letter pairs."""
    if not esc:
        return st.text(st.sampled_from(alpha), max_size=max_size)
    return st.lists(st.sampled_from(ESC_BODY_ATOMS), max_size=max_size).map(lambda xs: "".join(xs)[:max_size])


def _has_case(p):
    return bool(p) and any(c.swapcase() != c for c in p)


@st.composite
def _case_variant(draw, p):
    """The pattern `p` (which contains cased letters) in ANOTHER letter case: all lower, all upper, every letter swapped,
    or a drawn non-empty subset of its letters swapped. Never equal to `p` itself."""
    mode = draw(st.integers(0, 3))
    v = [p.lower(), p.upper(), p.swapcase(), None][mode]
    if v is None or v == p:
        idx = [i for i, c in enumerate(p) if c.swapcase() != c]
        flip = set(draw(st.lists(st.sampled_from(idx), min_size=1, max_size=len(idx), unique=True)))
        v = "".join(c.swapcase() if i in flip else c for i, c in enumerate(p))
    return v


def _variant_spans(text, p):
    """Start offsets where `text` holds `p` in another letter case (equal when case is ignored, not equal as written)."""
    if not _has_case(p):
        return []
    n, low = len(p), p.lower()
    return [i for i in range(len(text) - n + 1) if text[i : i + n] != p and text[i : i + n].lower() == low]


@st.composite
def _case(draw):
    if draw(st.integers(0, 2)) == 0:
        return draw(_generated_patterns_case())
    if draw(st.integers(0, 3)) == 0:
        return draw(_case_variant_case())
    prefix = draw(st.sampled_from(PREFIXES))
    suffix = draw(st.sampled_from(SUFFIXES))
    stop = draw(st.sampled_from(STOPS))
    pipe = draw(st.booleans())
    lead_empty = draw(st.booleans())
    long_text = draw(st.integers(0, 9)) == 0
    maxlen = 60 if long_text else 11
    structured = draw(st.booleans())
    esc = draw(st.integers(0, 2)) == 0  # one case in three draws its bodies from the escape atoms
    body = lambda size: _body(esc, ALPHA, size)  # noqa: E731
    if structured:
        parts = []
        if prefix and draw(st.integers(0, 5)) > 0:
            parts.append(prefix)
        elif prefix and draw(st.booleans()):
            parts.append(prefix[: draw(st.integers(1, len(prefix)))])  # a proper piece of the prefix
        room = max(0, maxlen - sum(map(len, parts)) - 3)
        parts.append(draw(body(min(room, 8 if not long_text else 50))))
        if suffix and draw(st.booleans()):
            parts.append(suffix)
        if stop and draw(st.booleans()):
            s = draw(st.sampled_from(stop))
            parts.append(s if draw(st.integers(0, 3)) > 0 else s[: draw(st.integers(1, len(s)))])
            parts.append(draw(body(3)))
        text = "".join(parts)
    else:
        text = draw(body(maxlen))
    if len(text) <= 11:
        chunkings = "all"
    else:
        n = len(text)
        chunkings = draw(
            st.lists(st.lists(st.integers(1, n - 1), max_size=min(n - 1, 12), unique=True).map(sorted), min_size=8, max_size=48)
        )
        chunkings.append([])
        chunkings.append(list(range(1, n)))
    return {"text": text, "prefix": prefix, "suffix": suffix, "stop": stop, "pipe": pipe, "lead_empty": lead_empty, "chunkings": chunkings}


def _sampled_chunkings(draw, text):
    n = len(text)
    if n <= 11:
        return "all"
    chunkings = draw(st.lists(st.lists(st.integers(1, n - 1), max_size=min(n - 1, 12), unique=True).map(sorted), min_size=8, max_size=48))
    chunkings.append([])
    chunkings.append(list(range(1, n)))
    return chunkings


@st.composite
def _case_variant_case(draw):
    """Letter-case dimension under the fixed configurations: the text holds a configured pattern (stop sequence, prefix)
    in ANOTHER letter case - where the pattern itself would stand (after the message, in front of it) or inside the body,
    alone or followed by the pattern as configured. Patterns are matched as configured, so the variant is ordinary text.
    Bodies are drawn over the alphabet closed under case change."""
    stop = draw(st.sampled_from(CASED_STOPS + [[]]))
    prefix = draw(st.sampled_from(PREFIXES if stop else [p for p in PREFIXES if _has_case(p)]))
    suffix = draw(st.sampled_from(SUFFIXES))
    body = lambda size: st.text(st.sampled_from(ALPHA_CASED), max_size=size)  # noqa: E731
    parts = []
    variant_of = []
    if prefix and _has_case(prefix) and (not stop or draw(st.booleans())):
        parts.append(draw(_case_variant(prefix)))  # the prefix in another case is not the prefix: nothing is removed
        variant_of.append("prefix")
    elif prefix and draw(st.integers(0, 3)) > 0:
        parts.append(prefix)
    parts.append(draw(body(4)))
    if suffix and draw(st.booleans()):
        parts.append(suffix)
    if stop and (not variant_of or draw(st.booleans())):
        parts.append(draw(_case_variant(draw(st.sampled_from(stop)))))
        variant_of.append("stop")
        parts.append(draw(body(3)))
        if draw(st.integers(0, 2)) == 0:  # the stop sequence as configured AFTER its case variant: the cut belongs there
            parts.append(draw(st.sampled_from(stop)))
            parts.append(draw(body(2)))
    if suffix and draw(st.booleans()):
        parts.append(suffix)
    text = "".join(parts)
    return {
        "text": text, "prefix": prefix, "suffix": suffix, "stop": stop, "pipe": draw(st.booleans()),
        "lead_empty": draw(st.booleans()), "chunkings": _sampled_chunkings(draw, text), "case_variant": variant_of,
    }


@st.composite
def _generated_patterns_case(draw):
    """Patterns themselves are generated over a 3-letter alphabet (repeated first characters, stops that are prefixes of
    each other, several stops in any list order), texts over the same alphabet so that full and partial occurrences abound.
    One case in three uses an escape alphabet instead: {backslash, one drawn escape letter, real newline or 'a'}, so that
    patterns and texts contain backslash+letter pairs (and the real newline next to its escaped spelling)."""
    alpha = GEN_ALPHA
    cased = False
    if draw(st.integers(0, 2)) == 0:
        letter = draw(st.sampled_from(ESC_LETTERS))
        third = draw(st.sampled_from("\na"))
        alpha = BACKSLASH + (letter if letter != BACKSLASH else "b") + third
    elif draw(st.integers(0, 2)) == 0:
        # letter-case dimension: an alphabet closed under case change; wherever a pattern is put into the text it may be
        # put there in another letter case (ordinary text, since patterns are matched as configured)
        alpha = draw(st.sampled_from(GEN_ALPHAS_CASED))
        cased = True
    pat = lambda lo, hi: st.text(alpha, min_size=lo, max_size=hi)  # noqa: E731
    occ = lambda p: _case_variant(p) if cased and _has_case(p) and draw(st.booleans()) else st.just(p)  # noqa: E731
    prefix = draw(st.one_of(st.none(), pat(1, 3)))
    suffix = draw(st.one_of(st.none(), pat(1, 2)) if cased else st.one_of(st.none(), st.none(), pat(1, 2)))
    stop = draw(st.lists(pat(1, 4), max_size=3, unique=True))
    parts = []
    if prefix and draw(st.integers(0, 3)) > 0:
        parts.append(draw(occ(prefix)))
    parts.append(draw(st.text(alpha, max_size=6)))
    for sseq in draw(st.permutations(stop)):
        if draw(st.booleans()):
            parts.append(draw(occ(sseq)))
            parts.append(draw(st.text(alpha, max_size=2)))
    if suffix and draw(st.booleans()):
        parts.append(draw(occ(suffix)))
    text = "".join(parts)[:11]
    return {"text": text, "prefix": prefix, "suffix": suffix, "stop": stop, "pipe": draw(st.booleans()), "lead_empty": draw(st.booleans()), "chunkings": "all", "gen_patterns": True}


def strategy(tier):
    return _case()


def enumerate_cases(tier):
    # a fixed core of tiny texts under every configuration (deterministic part of the search)
    texts = ['  "hi"', '  "a"\nb', 'Bot message: "', 'a"', '"', "", 'ab"\nab', "a\nuser b", '  ""', '  "a" b"']
    # escape family: every backslash+letter pair bare, between letters, and inside the quoted message shape
    for atom in ESC_ATOMS:
        texts += [atom, "a" + atom + "b", '  "' + atom + '"\nb']
    # letter-case family: every fixed pattern with cased letters in lower / upper / swapped case - bare, between letters and
    # after a quoted message (stops), bare and in front of a message (prefix)
    long_texts = []
    for pattern in sorted({s for stp in CASED_STOPS for s in stp}):
        for v in sorted({pattern.lower(), pattern.upper(), pattern.swapcase()} - {pattern}):
            texts += [v, "a" + v + "b"]
            long_texts += ['  "a"' + v + 'b"']
    for pattern in [p for p in PREFIXES if _has_case(p)]:
        for v in sorted({pattern.lower(), pattern.upper(), pattern.swapcase()} - {pattern}):
            long_texts += [v, v + 'a"']
    for t in texts + long_texts:
        n = len(t)
        # texts beyond the exhaustive bound: one token, one token per character, every single cut, every cut-out window of <= 3
        chunkings = "all" if n <= 11 or t in texts else (
            [[], list(range(1, n))] + [[i] for i in range(1, n)] + [[i, j] for i in range(1, n) for j in range(i + 1, min(n, i + 4))]
        )
        for p in PREFIXES:
            for s in SUFFIXES:
                for stp in STOPS:
                    for pipe in (False, True):
                        yield {"text": t, "prefix": p, "suffix": s, "stop": stp, "pipe": pipe, "lead_empty": False, "chunkings": chunkings}


def _cuts(t, stop):
    """All defensible results of 'cut at the first stop sequence': by earliest start and by earliest end of an occurrence
    (overlapping stop sequences that complete at the same character make 'first' ambiguous)."""
    occ = [(t.find(s), t.find(s) + len(s)) for s in stop if s and t.find(s) >= 0]
    if not occ:
        return {t}
    first_start = min(o[0] for o in occ)
    first_end = min(o[1] for o in occ)
    return {t[:first_start]} | {t[: o[0]] for o in occ if o[1] == first_end}


def ref(text, prefix, suffix, stop):
    """Reference: returns (expected, ambiguous). Reading 1 = remove the prefix, cut at the first stop sequence, remove the
    suffix from what is left; reading 2 = remove prefix and suffix from the whole text, then cut. The statement does not say
    which; where the readings (or the notion of 'first' for overlapping stop sequences) differ the case is ambiguous and only
    chunking-independence and completion==delivered are asserted."""
    t = text[len(prefix):] if prefix and text.startswith(prefix) else text
    results = set()
    for r1 in _cuts(t, stop):
        results.add(r1[: -len(suffix)] if suffix and r1.endswith(suffix) else r1)
    t2 = t[: -len(suffix)] if suffix and t.endswith(suffix) else t
    results |= _cuts(t2, stop)
    return sorted(results)[0], len(results) > 1


def _split(text, cuts):
    out, last = [], 0
    for c in cuts:
        out.append(text[last:c])
        last = c
    out.append(text[last:])
    return [x for x in out if x != ""] if text else []


async def _drive(tokens, prefix, suffix, stop, pipe, lead_empty):
    from langchain.schema.output import GenerationChunk, LLMResult

    from nemoguardrails.streaming import StreamingHandler

    h = StreamingHandler()
    h.set_pattern(prefix=prefix, suffix=suffix)
    h.stop = list(stop)
    outer = h
    if pipe:
        outer = StreamingHandler()
        h.set_pipe_to(outer)
    rid = uuid.UUID(int=1)
    if lead_empty:
        await h.on_llm_new_token("", chunk=GenerationChunk(text=""), run_id=rid)
    for tok in tokens:
        await h.on_llm_new_token(tok, chunk=GenerationChunk(text=tok), run_id=rid)
    await h.on_llm_end(LLMResult(generations=[[]]), run_id=rid)
    for _ in range(3):
        await asyncio.sleep(0)  # let piped push_chunk tasks run (FIFO)
    pending = [t for t in asyncio.all_tasks() if t is not asyncio.current_task()]
    if pending:
        await asyncio.gather(*pending)
    await outer.push_chunk(None)  # what generate_async sends when the turn is over
    delivered = []
    ended = False
    while not outer.queue.empty():
        item = outer.queue.get_nowait()
        if item is None or item == "":
            ended = True
            break
        delivered.append(item)
    return "".join(delivered), h.completion, ended


def _all_cuts(n):
    for mask in range(1 << max(0, n - 1)):
        yield [i + 1 for i in range(n - 1) if mask >> i & 1]


def _nontrivial(text, prefix, suffix, stop):
    body = text[len(prefix):] if prefix and text.startswith(prefix) else text
    pats = [p for p in [prefix, suffix] + list(stop) if p]
    inner = body[:-1] if suffix and body.endswith(suffix) else body
    for p in pats:
        for k in range(1, len(p) + 1):
            if p[:k] in inner:
                return True
    if prefix and suffix and text.startswith(prefix) and len(body) < 3 + len(suffix):
        return True
    if any(_variant_spans(text, p) for p in pats):
        return True
    return False


def prop(case):
    text, prefix, suffix, stop = case["text"], case["prefix"], case["suffix"], case["stop"]
    n = len(text)
    cuts_list = list(_all_cuts(n)) if case["chunkings"] == "all" else case["chunkings"]
    expected, ambiguous = ref(text, prefix, suffix, stop)
    seen = {}
    loop = asyncio.new_event_loop()
    try:
        for cuts in cuts_list:
            toks = _split(text, cuts)
            delivered, completion, ended = loop.run_until_complete(_drive(toks, prefix, suffix, stop, case["pipe"], case["lead_empty"]))
            _counters["chunkings_run"] += 1
            seen.setdefault((delivered, completion, ended), toks)
    finally:
        loop.close()
    cfg = f"prefix={prefix!r} suffix={suffix!r} stop={stop!r} pipe={case['pipe']}"
    deliv = {}
    for (d, c, e), toks in seen.items():
        deliv.setdefault(d, toks)
    if len(deliv) > 1:
        items = sorted(deliv.items(), key=lambda kv: len(kv[1]))
        raise Violation(
            "chunking-dependence",
            f"text={text!r} {cfg}: tokens {items[0][1]!r} deliver {items[0][0]!r} but tokens {items[-1][1]!r} deliver {items[-1][0]!r}",
        )
    for (d, c, e), toks in seen.items():
        if not e:
            raise Violation("stream-not-ended", f"text={text!r} {cfg} tokens={toks!r}: no end-of-stream item was delivered")
        if not ambiguous and d != expected:
            raise Violation("reference-mismatch", f"text={text!r} {cfg} tokens={toks!r}: delivered {d!r}, expected {expected!r}")
        if c != d:
            raise Violation("completion-mismatch", f"text={text!r} {cfg} tokens={toks!r}: delivered {d!r} but completion={c!r}")
    labels = [
        "prefix" if prefix else "no-prefix",
        "suffix" if suffix else "no-suffix",
        "stop" if stop else "no-stop",
        "piped" if case["pipe"] else "direct",
        "all-chunkings" if case["chunkings"] == "all" else "sampled-chunkings",
    ]
    if ambiguous:
        labels.append("ambiguous-suffix-vs-stop")
    if BACKSLASH in text:
        labels.append("backslash")
        if any(a in text for a in ESC_ATOMS):
            labels.append("backslash+letter")
        if any(BACKSLASH in p for p in [prefix, suffix] + list(stop) if p):
            labels.append("backslash-in-pattern")
    variants = [name for name, pats in (("prefix", [prefix]), ("suffix", [suffix]), ("stop", stop)) if any(_variant_spans(text, p) for p in pats if p)]
    for name in variants:
        labels.append("case-variant-of-" + name)
    if variants:
        labels.append("case-variant")
        if "stop" in variants and any(s and s in text for s in stop):
            labels.append("case-variant+stop-as-configured")
    if case.get("gen_patterns"):
        labels.append("generated-patterns")
        if len(stop) >= 2:
            labels.append("several-stops")
    nt = _nontrivial(text, prefix, suffix, stop)
    view = {"text": text, "prefix": prefix, "suffix": suffix, "stop": stop, "pipe": case["pipe"], "chunkings": len(cuts_list), "delivered": expected}
    return ok(nt=nt, labels=labels, view=view, key=None, counters={"chunkings_run": len(cuts_list)})
