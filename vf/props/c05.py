"""C05 - competing flows: exactly one most-specific action wins per interaction loop.

Domain : 2-6 flows, each `match Ev(<subset of the event's 3 parameters>)` (specificity = #unmentioned), optional
         `priority p`, then `start <action>`; action identities drawn so that equal actions occur; loop per flow
         (parent loop / @loop("L1") / @loop("NEW")); flows whose pattern does not fit; a wrapper variant where the
         match sits one level down (`await inner_i`); a chained variant where every flow has its own depth: direct, or
         behind 1-2 helper flows whose Finished event is matched by flow name / awaited (own helper or one helper shared
         by several competitors), each level with its own `priority`; tie-break outcomes drawn (statemachine.random replaced).
Oracle : per loop, winners = flows whose action equals the action of ONE top-scoring flow (score = 0.9^unmentioned
         x priority; exact ties -> any of them, validity predicate); each winning action started exactly once,
         all other fitting flows of the loop are stopped, winners and non-fitting flows still running.
         Chained variant: the match on the external event decides first (documented: the matching scores of the chains are compared
         from left to right, the winner is determined as soon as one score is higher) - a flow whose match on the event scores strictly
         lower than a competitor's never wins, whatever follows in the chains. Among the flows with the best first score a winner is
         asserted only where 'fewest unmentioned parameters along the whole chain' (product)
         and the element-wise comparison of the chains (missing elements = exact match) name the same top set for every
         value the score of a Finished-match can have; otherwise any of them may win (if that is everybody only 'exactly one action
         set proceeds' is checked and the case is counted as skipped).
Multi-argument actions: an action may carry 1-2 further keyword arguments (intensity / volume in {1, 2, 0.5}); its identity is its type and
         the VALUES of its arguments - the order in which the keyword arguments are written and the spelling of a number (1 / 1.0) vary
         per flow, so 'identical actions' are also generated written differently (every form: direct, wrapped, fork, round 2, chained);
         argument order is never part of the identity, for 1 vs 1.0 both readings are accepted (unspecified).
Instances: a seventh of the cases use an ACTIVATED flow `reactor` (loop NEW / L1 / loop of main) with 2-3 stages `match Ev(..)` + `start
         <action>` and the documented label `start_new_flow_instance:` behind one of its matches: older and newer instances of it are
         alive together, 2-4 events are fed; reference model over the history (who waits where, who fits, groups by loop - each instance
         of a NEW-loop flow has a loop of its own -, usual rule per group, restart of the newest instance when it fails or finishes).
Structured: a seventh of the cases let the event carry a STRUCTURED parameter - a dict / list / set valued parameter `s` (2-4 members, one of
         them possibly a container itself) or the start arguments of the action whose Finished event is fed, mentioned in
         `match UtteranceBotAction(<arguments>).Finished(<parameters>)`; every flow mentions some top-level parameters and some members of the
         structure (or not the structure at all). Score = 0.9^(unmentioned top-level parameters + unmentioned members on every nesting
         level) x priority: the flow that mentions more members beats the one that mentions fewer, equal counts are ties.
Groups   : a third of the direct / wrapped / chained cases let competitors WAIT WITH A GROUP of event matches instead of one plain match - an or-group
         (`match Ev(a=1) or Z()`, 2-3 alternatives, the fitting one at any position, the others other events or an Ev pattern with an altered
         value), an and-group (`match Ev(a=1) and Z()`, the other members are fed before Ev), a nested group (`(Ev(..) and Z()) or Z()`,
         `(Ev(..) or Z()) and Z()`, `Ev(..) or (Z() and Z())`, ...) or `when Ev(..) / or when Z()` - so that the head that reaches the action was
         forked and merged again. The score of such a flow is the score of the alternative that matched the event (its `Ev(..)` member: 0.9^unmentioned
         x priority); the usual rule applies: it loses against a more specific competitor of its loop and wins against a less specific one.
"""
import itertools
import json
from collections import Counter

from hypothesis import strategies as st

from vf import smh
from vf.core import Violation, ok

PID = "C05"
LEVEL = "exploration"
CASE_TIMEOUT = 30
RULE = (
    "n in 2..6 flows started by main; flow i: [@loop(L1|NEW)] [priority p in {1.0,0.5,0.1}] match Ev(subset of a=1,b=2,c=3 "
    "[one value wrong => does not fit]) then start UtteranceBotAction(script=A|B|C) or GestureBotAction(gesture=A|B); a quarter of the flows use a "
    "MULTI-ARGUMENT action: 1-2 further keyword arguments intensity / volume with a value from {1, 2, 0.5}, all arguments written in a drawn order "
    "(script=.., intensity=.. / intensity=.., script=.. / ...), int-valued numbers written 1 or 1.0 per flow; the identity of an action is its type plus "
    "the values of its arguments (1 vs 1.0: either reading, see assumptions), so equal actions occur written differently; forced shape (a quarter of the cases): flow 1 and some others start the action "
    "of flow 0 in another writing (other argument order and/or other number spelling), two times out of three in the loop of flow 0; "
    "direct or wrapped one level down (all flows of a case use the same depth); some flows start their action through a head fork (`when <Action>`), in a quarter of those cases a supervisor flow in its own loop stops one competitor with `send StopFlow` on the same event; in one direct case of three a second round follows: the co-winners "
    "share one action object, its Finished event is fed and they compete again on `match $a.Finished()` (only priorities differ) with second actions; event Ev(a=1,b=2,c=3); tie-break index list "
    "drawn. About a fifth (3 in 14) of the generated cases are CHAINED: every flow has its own depth - direct, or its match on Ev sits in a helper flow (own helper h<i>, or "
    "one of 0-2 helpers hs<k> started by main and shared by several competitors) and the flow reaches its action through 1-2 links, each either "
    "`start X` + `match X.Finished()` by flow name or `await X`, each level (helper, middle flow, competitor) with its own priority from {none,1.0,0.5,0.1}; "
    "forced shapes (2 of 9 each): the chain of flow 1 is a proper prefix of the chain of flow 0 (same loop/specificity/priority, fewer links), or flows differ "
    "from flow 0 only in the priority of one link, i.e. in a flow that matches an internal Finished event, or FIRST-MATCH: flow 0 (own or shared helper) matches the "
    "event MORE specifically than flow 1 and some others (same loop and priority, 1-2 mentioned parameters fewer) but its chain continues with at least one loose "
    "internal match (Finished-match by flow name and/or link priority 0.5 / 0.1) while the less specific competitors are direct, sit behind one tight `await` link "
    "or behind fewer links - left-to-right comparison and product of the scores then name different winners; (1 of 9) identical chains. An enumerated family (576 cases) "
    "sets every long form (6 link patterns x own/shared helper x no link priority / 0.5 on the last link) whose first match mentions (a,b,c) / (a,b) / (a) with "
    "priority 0.5 against a competitor that mentions one (for (a,b,c) also two) parameters fewer, direct or behind one await link, in both start orders, for both "
    "tie-break outcomes. A second enumerated family (900 cases) "
    "pairs every long form (6 link patterns x own/shared helper x 3 settings of the external match) with each of its proper prefixes and with a copy whose priority "
    "differs in one link, in both start orders, for both tie-break outcomes, with/without a third less specific direct competitor. "
    "A seventh of the generated cases are INSTANCES cases: main activates a flow `reactor` ([@loop(NEW x3 | L1)] or the loop of main, [priority 0.5|0.1]) with 2-3 "
    "stages `match Ev(subset, maybe one altered value)` + `start <action>` (a third: the same action in every stage, possibly written differently) that then "
    "waits forever or (a quarter) ends; the label `start_new_flow_instance:` sits behind the match of one stage, before or after the action of that stage "
    "(mostly the first stage; sometimes no label), so that an older instance (further down) and newer ones (at the first match) are alive at the same time; "
    "0-3 plain one-shot flows as above are started before/after the activation; 2-4 events Ev(a,b,c), each with at most one altered parameter value (a stage or "
    "flow written with the altered value fits only then); tie-break list rotated per event. Enumerated: 396 spelling cases (flow 1 writes the three-argument "
    "action of flow 0 in each of the 11 other ways x who is more specific / exact tie x no / less specific / more specific third flow with another action x direct "
    "(half of them through a head fork) / wrapped x both tie-breaks) and 216 instances cases (two stages, label behind the first match before/after the action, "
    "3x3 specificities of the two matches, different/identical actions, loop NEW / L1 / main, three events, both tie-breaks). "
    "A seventh of the generated cases are STRUCTURED cases: the triggering event carries a structured parameter - Ev(a=1,b=2,c=3,s=V) with V a dict / list / set of 2-4 "
    "distinct scalars (int, str, float, bool; a third of the dicts and lists with one member that is itself a dict / list / set of 2-3 members), or (carrier action, a "
    "third) main starts UtteranceBotAction(script=\"hello\"[, intensity=1.0[, volume=2.0[, voice=\"calm\"]]]) and the event is its UtteranceBotActionFinished(final_script, "
    "is_success), the flows matching `UtteranceBotAction(<start arguments>).Finished(<parameters>)`; flow i (n, loops, priorities, actions, wrong top-level value as above; direct, "
    "a quarter wrapped) mentions a drawn subset of the top-level parameters and of the structure either nothing (a fifth) or a pattern derived from V: a subset of the keys / a "
    "prefix of the list / a subset of the elements (down to the empty container), nested containers likewise; one pattern in seven has one altered leaf value (does not fit); "
    "forced shape (half of these cases): flow 1 and some others copy top-level mention, priority and loop of flow 0 and mention a part (maybe all) of what flow 0 mentions of the "
    "structure, start order drawn, so that only the number of mentioned MEMBERS separates them. Enumerated: 592 structured cases (dict / list / set of 2-3 scalars and 2-3 start "
    "arguments: every pair 'k members mentioned' against 'fewer members mentioned' down to the empty container; 6 pairs that differ only inside a nested container; all / one "
    "top-level parameter mentioned x both start orders x both tie-breaks x with / without a third flow that mentions all top-level parameters but not the structure). "
    "A third of the direct / wrapped / chained cases are GROUP cases: flow 0 or flow 1 (each further flow one time in three) WAITS WITH A GROUP of event matches in place of its plain "
    "`match Ev(..)` (wrapped: in the inner flow; chained: in the flow or its own helper, never in a shared helper) - an or-group `match Ev(..) or Z()` (half of the groups; 2-3 alternatives, the "
    "`Ev(..)` member at a drawn position, every other alternative another event Z<i>Q<k> that only this flow waits for or, one time in four, an `Ev(p=<altered value>)` that never fits), "
    "an and-group `match Ev(..) and Z() [and Z()]` (its other members are fed before Ev), a nested group (outer and inner operator drawn from or / and, the `Ev(..)` member inside the "
    "inner group or next to it, members in drawn order), or `when Ev(..) / or when Z()` with an assignment in every branch and the action behind the construct - so that the head that "
    "reaches the action was forked and merged again; forced shape of every group case: the other one of flows 0 / 1 shares loop and priority, starts another action and mentions 1-2 "
    "parameters MORE (two times out of three) or FEWER than the group flow, itself a plain match (three times out of four) or a group. An enumerated family placed first (432 cases) sets each "
    "of 12 group forms (or-group with the fitting alternative first / last / in the middle / next to a non-fitting Ev alternative, and-group in both orders, four nestings, when / or when in both "
    "orders) for a flow that mentions (a) against a plain competitor that mentions (a,b), for a flow that mentions (a,b) against a plain competitor that mentions (a), and for (a) against an "
    "or-group competitor that mentions (a,b); direct / wrapped / group in an own helper behind an `await` link; both start orders, both tie-break outcomes. "
    "Non-trivial = some loop has >=3 fitting flows with >=2 distinct scores, or an exact tie between different "
    "actions, or >=2 loops with fitting flows; chained: a loop with >=2 different actions where the winner is determined (or narrowed to the flows with the best match on the event) and somebody loses or an exact tie "
    "between different actions exists; instances cases: at some event two instances of the reactor fit (older and newer), or an instance and another "
    "candidate meet in one loop; structured cases: the usual rule, or two flows with different actions that differ only in the members of the structure they mention and of "
    "which exactly one may win; group cases: also a loop in which a fitting group flow meets a fitting flow with another action and a strictly different score on the event; distinct by case."
)
ASSUMPTIONS = [
    "scores within 1e-9 are treated as tied and any tied flow may win (validity predicate)",
    "in the wrapped variant the priority statement sits in the inner flow that performs the match, so the first element of the score chain is 0.9^u x p",
    "only action starts compete; the event carries exactly the three parameters a, b, c (structured cases: plus the structured parameter s; carrier action: the parameters "
    "final_script and is_success of the Finished event - its action_uid is mentioned by nobody and scales every score alike)",
    "structured cases: docs/colang_2/language_reference/more-on-flows.rst multiplies the score by 0.9 for every parameter of the event the match does not mention; "
    "event-generation-and-matching.rst matches container parameters member by member, containers inside recursively, the expected container being allowed to be smaller: the "
    "reference model counts every member of the received structure that the expected one leaves out, on every nesting level, as one unmentioned parameter (0.9 each), so 'fewest "
    "unmentioned parameters' ranks a flow that mentions more members above one that mentions fewer and equal totals (e.g. one top-level parameter against one member) are exact ties "
    "(any of them may win); the same holds for the start arguments of the finished action named in `<Action>(<arguments>).Finished()`",
    "structured cases: what a structure costs that a flow does not mention AT ALL (or a nested container that is left out as a whole) is not documented beyond '0.9 per missing "
    "parameter': it is counted as ONE parameter (reading A), as all its members (reading B) and - start arguments of an action, which are no parameter of the Finished event - as "
    "nothing (reading C); a flow that is top-scoring under any of these readings may win (label structured-unmentioned-structure-readings-disagree)",
    "structured cases: expected lists are prefixes of the received list (position-wise and in-order reading of the list rule coincide); numbers are written as in the event (no 1 vs 1.0)",
    "group cases: a flow that waits with `match A or B`, `match A and B`, a nested group or `when A / or when B` (docs/colang_2/language_reference/event-generation-and-matching.rst "
    "'Event Grouping', flow-control.rst 'Event Branching (when/or when/else)') reacts to Ev through the member that matched Ev; its match is exactly as specific as that member "
    "(0.9^unmentioned parameters of the `Ev(..)` member x priority of the flow) - the statement ranks flows by 'their match', it makes no exception for grouped matches; the other "
    "alternatives (events that never arrive, Ev patterns with an altered value) do not match and contribute nothing",
    "group cases: every group has exactly ONE member that can fit Ev (two alternatives of different specificity that both fit the same event are not generated: which of them counts is "
    "not documented); the other members of an and-group are events only this flow waits for, fed BEFORE Ev (no action is started on them - checked), so that the match on Ev completes "
    "the group and the flow reaches its action in the same processing step as its competitors; a group flow whose `Ev(..)` member has an altered value does not fit and must stay untouched",
    "an action is identical to another iff type and argument values are equal; the order in which keyword arguments are written is not part of an action",
    "whether intensity=1 and intensity=1.0 are the same argument value is NOT specified (Colang expressions say 1 == 1.0, event matching treats them as different, "
    "C04 lists the pair as unspecified): such pairs are generated, the by-value reading is tried first and, if the outcome contradicts it, the by-value-and-type "
    "reading is accepted for the whole case, which is then counted as skipped; an outcome that fits neither reading is a violation",
    "instances cases rely on docs/colang_2/language_reference/more-on-flows.rst: `start_new_flow_instance:` starts a new instance and the current one continues; "
    "an instance that already started a new instance does not start another one; an activated flow restarts when it finishes or fails (the newest instance "
    "only - the older ones already started their successor); the new instance does not react to the event during which it was created; @loop(\"NEW\") creates "
    "a new loop for each flow call, i.e. for every instance; a named loop or the inherited loop is shared by all instances, which then compete like any "
    "other flows of that loop (score 0.9^unmentioned x the flow's priority)",
    "instances cases: reactor instances are identified by the order in which their flow states first appear; where exact ties leave a choice the observed "
    "statuses select the branch the reference model continues with",
    "chained cases: the score chain of a flow is [0.9^u x p of the match on Ev] followed by one element per link = (score of the match on the helper's "
    "Finished event) x (priority of the flow that performs this match); the score of a Finished-match is NOT taken from the implementation: a match by flow "
    "name is an unknown N in (0,1) (the FlowFinished event has parameters besides flow_id that stay unmentioned), the match behind `await` an unknown A in (0,1], "
    "the same N / A for all helper flows (they are parameterless)",
    "chained cases: docs/colang_2/language_reference/more-on-flows.rst ('Flow Conflict Resolution Prioritization') says that the matching scores of the "
    "chains are compared from left to right and the winner is determined as soon as one score is higher than the other; the first score of every chain is the "
    "match on the external event (0.9^unmentioned x priority, no unknown factor), so a flow whose first score is strictly lower than a competitor's first score "
    "(by more than 1e-9) cannot win, whatever follows in either chain - asserted also where the product of all scores would name the other flow "
    "(labels chain-first-match-decides, chain-first-match-decides-against-product-of-scores); only this first position is asserted from the sentence: at later "
    "positions chains of different length would need the undocumented padding",
    "chained cases: among the flows with the best first score a winner is asserted only if 'most specific along the whole chain' (product of all elements) and the "
    "element-by-element comparison from the external event on (missing elements count as exact match 1.0; this is what the interpreter implements) yield the same "
    "top set for every admissible N, A; otherwise any of them may win (label chain-winner-among-best-first-match-ambiguous) and, if these are all fitting flows of "
    "the loop, the case is counted as skipped after checking only that exactly one action set proceeds, losers are stopped and non-fitting flows untouched",
]
WALL = {"quick": 150, "thorough": 1500}
PARAMS = {"a": 1, "b": 2, "c": 3}
ACTIONS = [("UtteranceBotAction", "script", "A"), ("UtteranceBotAction", "script", "B"), ("UtteranceBotAction", "script", "C"), ("GestureBotAction", "gesture", "A"), ("GestureBotAction", "gesture", "B")]


# further keyword arguments an action can carry (multi-argument actions); int-valued numbers can be written `1` or `1.0`
EXTRA_NAMES = ["intensity", "volume"]
EXTRA_VALUES = [1, 2, 0.5]


def budget(tier):
    return 7000 if tier == "quick" else 93000


def _written_args(f):
    """The keyword arguments of the action of f as they are WRITTEN: [(name, literal)] in the order of the program text."""
    typ, key, val = ACTIONS[f["action"]]
    args = [(key, f'"{val}"')]
    for n, v in f.get("extra") or []:
        args.append((n, repr(float(v)) if (f.get("floats") or v != int(v)) else repr(int(v))))
    perms = list(itertools.permutations(range(len(args))))
    return [args[k] for k in perms[(f.get("perm") or 0) % len(perms)]]


def _action_text(f):
    return ACTIONS[f["action"]][0] + "(" + ", ".join(f"{n}={v}" for n, v in _written_args(f)) + ")"


# Reading of 'identical action' for numbers: False = by value (1 and 1.0 are the same argument value), True = by value and numeric type.
# The order of the keyword arguments is never part of an action. Neither the statement nor the documentation says which reading holds
# (event matching in the same runtime does distinguish 1 from 1.0), so `prop` accepts either - consistently for the whole case.
_ID = {"typed": False}


def _aid(f, typed=None):
    """Identity of the action of f: type, and the value of every argument (never the order in which they are written)."""
    typed = _ID["typed"] if typed is None else typed
    return (
        f["action"],
        tuple(sorted((n, float(v)) + ((bool(f.get("floats")) or v != int(v),) if typed else ()) for n, v in (f.get("extra") or []))),
    )


def _spelling_sensitive(case):
    """Two actions of the case have equal argument values but differ in the numeric type of one (intensity=1 vs intensity=1.0)."""
    fs = list(case["flows"]) + list((case.get("reactor") or {}).get("stages") or [])
    return any(_aid(x, False) == _aid(y, False) and _aid(x, True) != _aid(y, True) for x, y in itertools.combinations(fs, 2))


def _aid_key(aid):
    typ, _, val = ACTIONS[aid[0]]
    return (typ, val, aid[1])


def _start_key(e):
    """The same identity read from an outgoing Start...BotAction event."""
    typ = e["type"][5:]
    extra = tuple(
        sorted(
            ((n, float(e[n])) + ((isinstance(e[n], float),) if _ID["typed"] else ())) if isinstance(e[n], (int, float)) and not isinstance(e[n], bool) else (n, repr(e[n]))
            for n in EXTRA_NAMES
            if n in e
        )
    )
    return (typ, e.get("script" if typ == "UtteranceBotAction" else "gesture"), extra)


def _is_start(e):
    return e["type"].startswith("Start") and e["type"].endswith("BotAction")


def _key_text(k):
    def num(x):
        if not isinstance(x[1], float):
            return f"{x[0]}={x[1]}"
        return f"{x[0]}={x[1]:g}" if len(x) == 2 else f"{x[0]}={x[1] if x[2] else int(x[1])!r}"

    return f"{k[0]}:{k[1]}" + ("{" + ",".join(num(x) for x in k[2]) + "}" if k[2] else "")


def _adesc(f):
    if f.get("extra"):
        return ACTIONS[f["action"]][0][:3] + "(" + ", ".join(f"{n}={v}" for n, v in _written_args(f)) + ")"
    return f"{ACTIONS[f['action']][0][:3]}:{ACTIONS[f['action']][2]}"


@st.composite
def _flow(draw):
    mentioned = draw(st.lists(st.sampled_from(["a", "b", "c"]), unique=True, max_size=3).map(sorted))
    wrong = None
    if mentioned and draw(st.integers(0, 5)) == 0:
        wrong = draw(st.sampled_from(mentioned))
    f = {
        "mentioned": mentioned,
        "wrong": wrong,
        "priority": draw(st.sampled_from([None, None, 1.0, 0.5, 0.1])),
        "action": draw(st.integers(0, len(ACTIONS) - 1)),
        "loop": draw(st.sampled_from([None, None, None, "L1", "L1", "NEW"])),
    }
    if draw(st.integers(0, 3)) == 0:
        f.update(draw(_spelling(1)))
    return f


@st.composite
def _spelling(draw, min_extra):
    """Multi-argument action: 0-2 further keyword arguments, the order in which all arguments are written, the spelling of numbers."""
    names = draw(st.lists(st.sampled_from(EXTRA_NAMES), unique=True, min_size=min_extra, max_size=2))
    return {"extra": [[n, draw(st.sampled_from(EXTRA_VALUES))] for n in names], "perm": draw(st.integers(0, 5)), "floats": draw(st.booleans())}


def _respell(draw, flows):
    """Forced shape: some flows start the action of flow 0 (same type, same argument VALUES) written differently - keyword
    arguments in another order and/or int-valued numbers spelled as float (1 vs 1.0); mostly in the loop of flow 0."""
    if not flows[0].get("extra"):
        flows[0] = dict(flows[0], **draw(_spelling(1)))
    f0 = flows[0]
    nperm = [1, 2, 6][len(f0["extra"])]
    for j in range(1, len(flows)):
        if j == 1 or draw(st.booleans()):
            flows[j] = dict(
                flows[j],
                action=f0["action"],
                extra=_cp(f0["extra"][:: draw(st.sampled_from([1, -1]))]),
                perm=(f0["perm"] % nperm + draw(st.integers(0, nperm - 1))) % nperm,
                floats=draw(st.booleans()),
            )
            if draw(st.integers(0, 2)) != 0:
                flows[j]["loop"] = f0["loop"]


# ------------------------------------------------------------------------------------------------
# competitors that wait with a GROUP of event matches: the head that reaches the action was forked and merged again
#
# group = {"op": "or" | "and" | "when", "items": [item, ...]}; item = "EV" (the flow's own match on Ev: exactly one in the tree),
# {"z": k} (another event Z<i>Q<k> that only this flow waits for), {"wrong": p} (Ev with an altered value of parameter p: never fits;
# only as an alternative of an or-group / `or when`) or a nested {"op": "or" | "and", ...}. `when` = `when <item> / or when <item> ...`.


def _group_text(node, ev, i, top=False):
    if node == "EV":
        return ev
    if "z" in node:
        return f"Z{i}Q{node['z']}()"
    if "wrong" in node:
        return f"Ev({node['wrong']}={PARAMS[node['wrong']] + 10})"
    inner = f" {node['op']} ".join(_group_text(x, ev, i) for x in node["items"])
    return inner if top else "(" + inner + ")"


def _wait_lines(f, i):
    """The statement(s) with which flow i waits for the event: a plain `match Ev(..)`, a match group, or `when .. / or when ..`."""
    ev = f"Ev({_ev_args(f)})"
    g = f.get("group")
    if not g:
        return [f"  match {ev}"]
    if g["op"] == "when":
        lines = []
        for k, item in enumerate(g["items"]):
            lines += [f"  {'when' if k == 0 else 'or when'} {_group_text(item, ev, i)}", f"    $g{i} = {k}"]
        return lines
    return ["  match " + _group_text(g, ev, i, top=True)]


def _group_satisfy(node, i):
    """Events that complete a sub-pattern without the EV leaf (None: cannot be completed)."""
    if node == "EV" or "wrong" in node:
        return None
    if "z" in node:
        return [f"Z{i}Q{node['z']}"]
    parts = [_group_satisfy(x, i) for x in node["items"]]
    if node["op"] == "and":
        return None if any(p is None for p in parts) else [e for p in parts for e in p]
    return next((p for p in parts if p is not None), None)


def _group_prefeed(node, i):
    """The events that have to arrive BEFORE Ev so that the match on Ev completes the whole pattern: the other members of every
    and-group on the way from the root to the EV leaf (alternatives of or-groups are never fed). None: no EV leaf below node."""
    if node == "EV":
        return []
    if not isinstance(node, dict) or "items" not in node:
        return None
    for k, item in enumerate(node["items"]):
        r = _group_prefeed(item, i)
        if r is None:
            continue
        if node["op"] == "and":
            for j, sib in enumerate(node["items"]):
                if j != k:
                    need = _group_satisfy(sib, i)
                    if need is None:
                        raise RuntimeError(f"harness: and-group member {sib} cannot be completed beforehand")
                    r = r + need
        return r
    return None


def _group_kinds(g):
    """Labels: the operators of the group, whether it is nested."""
    if g["op"] == "when":
        return {"group-when-or-when"}
    ops, nested = set(), False
    todo = [g]
    while todo:
        n = todo.pop()
        ops.add(n["op"])
        for x in n["items"]:
            if isinstance(x, dict) and "items" in x:
                nested = True
                todo.append(x)
    return {f"group-{op}" for op in ops} | ({"group-nested"} if nested else set())


def _grp(case, i):
    """The group flow i waits with (None: plain match; a flow behind a SHARED helper does not match the event itself)."""
    form = (case.get("forms") or [None] * (i + 1))[i]
    if form and form["kind"] == "shared":
        return None
    return case["flows"][i].get("group")


@st.composite
def _group(draw):
    form = draw(st.sampled_from(["or", "or", "or", "and", "nested", "nested", "when"]))
    counter = [0]

    def z():
        counter[0] += 1
        return {"z": counter[0] - 1}

    def leaf(op):
        return {"wrong": draw(st.sampled_from(["a", "b", "c"]))} if op != "and" and draw(st.integers(0, 3)) == 0 else z()

    def flat(op, with_ev):
        if with_ev:
            items = [leaf(op) for _ in range(draw(st.sampled_from([1, 1, 2])))]
            items.insert(draw(st.integers(0, len(items))), "EV")
        else:
            items = [z(), leaf(op)][:: draw(st.sampled_from([1, -1]))]  # can be completed beforehand (member of an and-group)
        return {"op": op, "items": items}

    if form != "nested":
        return flat(form, True)
    outer = draw(st.sampled_from(["or", "and"]))
    inner_op = draw(st.sampled_from(["or", "and"]))
    ev_inside = draw(st.booleans())
    items = [flat(inner_op, ev_inside)] + [leaf(outer) for _ in range(draw(st.sampled_from([0, 1, 1]) if not ev_inside else st.just(1)))]
    if not ev_inside:
        items.append("EV")
    return {"op": outer, "items": list(draw(st.permutations(items)))}


def _group_shape(draw, flows, forms=None):
    """Forced shape: flow g (0 or 1) waits with a group; the other one of the two is a plain-match (or, one time in four, another group)
    competitor in the same loop with the same priority and another action that mentions 1-2 parameters MORE (two times out of three: the
    group flow must lose) or FEWER (the group flow must win). Each further flow waits with a group one time in three."""
    g = draw(st.integers(0, 1))
    o = 1 - g
    fg = flows[g] = dict(flows[g], wrong=None, group=draw(_group()))
    more = draw(st.integers(0, 2)) != 0
    m = list(fg["mentioned"])
    if more and len(m) == 3:
        m.remove(draw(st.sampled_from(m)))
    if not more and not m:
        m = [draw(st.sampled_from(["a", "b", "c"]))]
    fg["mentioned"] = sorted(m)
    if more:
        rest = list(draw(st.permutations([k for k in "abc" if k not in m])))
        mo = sorted(m + rest[: draw(st.sampled_from([1, 1, 2]))])
    else:
        mo = sorted(list(draw(st.permutations(m)))[draw(st.sampled_from([1, 1, 2])):])
    fo = flows[o] = dict(flows[o], mentioned=mo, wrong=None, priority=fg["priority"], loop=fg["loop"])
    fo.pop("group", None)
    if draw(st.integers(0, 3)) == 0:
        fo["group"] = draw(_group())
    if _aid(fo, False) == _aid(fg, False):
        fo["action"] = (fg["action"] + 1 + draw(st.integers(0, len(ACTIONS) - 2))) % len(ACTIONS)
    for j in range(2, len(flows)):
        if draw(st.integers(0, 2)) == 0:
            flows[j] = dict(flows[j], group=draw(_group()))
    if forms is not None:
        for j in (g, o):
            if forms[j]["kind"] == "shared":
                forms[j] = {"kind": "own", "links": forms[j]["links"]}


def _enumerate_groups():
    """Every way of waiting with a group (or-group with the fitting alternative first / last / in the middle / next to an Ev alternative
    that does not fit, and-group, the four nestings, `when .. / or when ..`) for a flow that mentions ONE parameter of the event against
    a plain-match competitor that mentions two (the group flow must lose), for a flow that mentions TWO against a plain competitor that
    mentions one (the group flow must win) and against another or-group flow that mentions two; direct / wrapped / behind an own helper
    and an `await` link; both start orders, both tie-break outcomes."""
    Z = lambda k: {"z": k}  # noqa: E731
    forms = [
        {"op": "or", "items": ["EV", Z(0)]},
        {"op": "or", "items": [Z(0), "EV"]},
        {"op": "or", "items": [Z(0), "EV", Z(1)]},
        {"op": "or", "items": ["EV", {"wrong": "a"}]},
        {"op": "and", "items": ["EV", Z(0)]},
        {"op": "and", "items": [Z(0), "EV"]},
        {"op": "or", "items": [{"op": "and", "items": ["EV", Z(0)]}, Z(1)]},
        {"op": "and", "items": [{"op": "or", "items": ["EV", Z(0)]}, Z(1)]},
        {"op": "or", "items": ["EV", {"op": "and", "items": [Z(0), Z(1)]}]},
        {"op": "or", "items": [Z(2), {"op": "and", "items": [Z(0), "EV"]}]},
        {"op": "when", "items": ["EV", Z(0)]},
        {"op": "when", "items": [Z(0), "EV"]},
    ]
    rel = [(["a"], ["a", "b"], None), (["a", "b"], ["a"], None), (["a"], ["a", "b"], forms[0])]
    for grp in forms:
        for mg, mo, og in rel:
            for variant in ("direct", "wrapped", "chained"):
                for order in (0, 1):
                    for choice in (0, 1):
                        fl = [
                            {"mentioned": mg, "wrong": None, "priority": None, "action": 0, "loop": None, "group": grp},
                            {"mentioned": mo, "wrong": None, "priority": None, "action": 1, "loop": None},
                        ]
                        if og:
                            fl[1]["group"] = og
                        case = {"flows": _cp(fl[:: 1 - 2 * order]), "wrapped": variant == "wrapped", "stage2": None, "choices": [choice]}
                        if variant == "chained":
                            fo = [{"kind": "own", "links": [{"how": "await", "priority": None}]}, {"kind": "direct"}]
                            case.update(forms=fo[:: 1 - 2 * order], helpers=[])
                        yield case


LINK_PRIOS = [None, None, 1.0, 0.5, 0.1]


def _cp(x):
    return json.loads(json.dumps(x))


@st.composite
def _links(draw, shared):
    n = draw(st.sampled_from([1, 1, 1, 2]))
    links = [{"how": draw(st.sampled_from(["name", "name", "await"])), "priority": draw(st.sampled_from(LINK_PRIOS))} for _ in range(n)]
    if shared:
        links[0]["how"] = "name"  # a shared helper is started by main; its Finished event can only be matched by flow name
    return links


def _first_match_shape(draw, flows, forms, helpers):
    """Forced shape: flow 0 matches the external event MORE specifically than its competitors (through an own or shared helper) but its
    chain continues with at least one loose internal match (a Finished-match by flow name and/or a link priority < 1); flow 1 and some
    others sit in the loop of flow 0 and match the event with 1-2 parameters fewer (same priority) - directly, behind one tight `await`
    link, or behind fewer links than flow 0. Compared from left to right flow 0 wins; by the product of all scores it need not."""
    if forms[0]["kind"] == "direct":
        forms[0] = {"kind": "own", "links": draw(_links(False))}
    b0 = helpers[forms[0]["helper"]] if forms[0]["kind"] == "shared" else flows[0]
    if b0["wrong"] or not b0["mentioned"]:
        b0["wrong"] = None
        b0["mentioned"] = draw(st.lists(st.sampled_from(["a", "b", "c"]), unique=True, min_size=1, max_size=3).map(sorted))
    links0 = forms[0]["links"]
    if not any(link["how"] == "name" or link["priority"] in (0.5, 0.1) for link in links0):
        if draw(st.booleans()):
            links0[-1]["how"] = "name"
        else:
            links0[draw(st.integers(0, len(links0) - 1))]["priority"] = draw(st.sampled_from([0.5, 0.1]))
    for j in range(1, len(flows)):
        if j == 1 or draw(st.booleans()):
            ndrop = min(draw(st.sampled_from([1, 1, 1, 2])), len(b0["mentioned"]))
            dropped = draw(st.permutations(b0["mentioned"]))[:ndrop]
            flows[j] = dict(flows[j], mentioned=[k for k in b0["mentioned"] if k not in dropped], wrong=None, priority=b0["priority"], loop=flows[0]["loop"])
            how = draw(st.sampled_from(["direct", "direct", "await", "shorter"]))
            if how == "shorter" and len(links0) >= 2:
                forms[j] = {"kind": "own", "links": _cp(links0[:1])}
            elif how == "await":
                forms[j] = {"kind": "own", "links": [{"how": "await", "priority": None}]}
            else:
                forms[j] = {"kind": "direct"}


@st.composite
def _chain_case(draw, flows, grouped=False):
    """Every flow has its own depth: `direct` (matches Ev itself), `own` (a helper flow h<i> matches Ev; the flow reaches its
    action through 1-2 links, each a `start X` + `match X.Finished()` by flow name or an `await X`, each level with its own
    priority) or `shared` (same, but the innermost helper hs<k> is started by main and shared by several competitors)."""
    flows = _cp(flows)
    helpers = [
        {"mentioned": h["mentioned"], "wrong": h["wrong"], "priority": h["priority"]} for h in draw(st.lists(_flow(), max_size=2))
    ]
    forms = []
    for _ in flows:
        kind = draw(st.sampled_from(["direct", "direct", "own", "own", "shared"] if helpers else ["direct", "own"]))
        if kind == "direct":
            forms.append({"kind": "direct"})
        elif kind == "own":
            forms.append({"kind": "own", "links": draw(_links(False))})
        else:
            forms.append({"kind": "shared", "helper": draw(st.integers(0, len(helpers) - 1)), "links": draw(_links(True))})
    shape = draw(st.sampled_from(["free", "free", "tie", "prefix", "prefix", "link-priority", "link-priority", "first-match", "first-match"]))
    if shape == "first-match":
        _first_match_shape(draw, flows, forms, helpers)
    elif shape != "free":
        if shape != "tie" and forms[0]["kind"] == "direct":
            forms[0] = {"kind": "own", "links": draw(_links(False))}
        f0 = flows[0]
        same = {"mentioned": f0["mentioned"], "wrong": f0["wrong"], "priority": f0["priority"], "loop": f0["loop"]}
        if shape == "tie":
            # identical chains (exact tie) unless the actions are equal
            flows[1] = dict(flows[1], **same)
            forms[1] = _cp(forms[0])
        elif shape == "prefix":
            # the chain of flow 1 is a proper prefix of the chain of flow 0 (same first elements, flow 0 has more links)
            keep = draw(st.integers(0, len(forms[0]["links"]) - 1))
            flows[1] = dict(flows[1], **same)
            if keep == 0:
                forms[1] = {"kind": "direct"}
                if forms[0]["kind"] == "shared":
                    h = helpers[forms[0]["helper"]]
                    flows[1] = dict(flows[1], mentioned=h["mentioned"], wrong=h["wrong"], priority=h["priority"])
            else:
                forms[1] = dict(_cp(forms[0]), links=_cp(forms[0]["links"][:keep]))
        else:
            # competitors that differ only in the priority declared in a flow that matches an INTERNAL (Finished) event
            for i in range(1, len(flows)):
                if i == 1 or draw(st.booleans()):
                    flows[i] = dict(flows[i], **same)
                    forms[i] = _cp(forms[0])
                    j = draw(st.integers(0, len(forms[i]["links"]) - 1))
                    forms[i]["links"][j]["priority"] = draw(st.sampled_from([None, 0.5, 0.1]))
    if grouped:
        _group_shape(draw, flows, forms)
    return {
        "flows": flows,
        "wrapped": False,
        "stage2": None,
        "forms": forms,
        "helpers": helpers,
        "choices": draw(st.lists(st.integers(0, 5), min_size=1, max_size=4)),
    }


@st.composite
def _case(draw):
    flows = draw(st.lists(_flow(), min_size=2, max_size=6))
    if draw(st.booleans()):
        # force interesting shapes: copy the specificity of flow 0 to flow 1 (tie) with a different action
        flows[1] = dict(flows[1], mentioned=flows[0]["mentioned"], wrong=flows[0]["wrong"], priority=flows[0]["priority"], loop=flows[0]["loop"])
    if draw(st.integers(0, 3)) == 0:
        _respell(draw, flows)
    kind = draw(st.integers(0, 13))
    if kind >= 12:
        return draw(_structured_case(flows))
    if kind >= 10:
        return draw(_instances_case(flows))
    # a third of the direct / wrapped / chained cases: some competitors wait with a GROUP of event matches (forked and merged head)
    grouped = draw(st.integers(0, 2)) == 0
    if kind >= 7:
        return draw(_chain_case(flows, grouped))
    if grouped:
        _group_shape(draw, flows)
    wrapped = draw(st.integers(0, 3)) == 0
    stage2 = None
    if not wrapped and draw(st.integers(0, 2)) == 0:
        # second round: the co-winners of round 1 share ONE action object; when it finishes they compete again, now on a match
        # that is bound to the shared reference (`match $a.Finished()`), so only the declared priorities tell them apart
        for f in flows:
            f["loop"] = None
        stage2 = [draw(st.integers(0, len(ACTIONS) - 1)) for _ in flows]
    case = {"flows": flows, "wrapped": wrapped, "stage2": stage2, "choices": draw(st.lists(st.integers(0, 5), min_size=1, max_size=4))}
    if not wrapped and stage2 is None:
        # some flows reach their action through a head fork (`when <Action>`): the forked head must keep the score of the match
        case["via_when"] = [draw(st.integers(0, 2)) == 0 for _ in flows]
        # a supervisor (own loop) reacts to the same event by stopping one flow: a flow stopped in the same processing step
        # no longer takes part in the competition
        if draw(st.integers(0, 3)) == 0:
            case["stop"] = draw(st.integers(0, len(flows) - 1))
    return case


def strategy(tier):
    return _case()


def enumerate_cases(tier):
    """Small systematic family of chained cases: every long form (1-2 links, by name / await, own / shared helper) against
    (a) its own proper prefixes and (b) a copy that differs in the priority of one link; both start orders, both tie-break
    outcomes, three (mentioned, priority) settings of the match on the external event, with and without a third, less
    specific direct competitor."""
    yield from _enumerate_groups()
    hows = [["name"], ["await"], ["name", "name"], ["name", "await"], ["await", "name"], ["await", "await"]]
    bases = [(["a", "b", "c"], None), (["a"], 0.5), ([], None)]
    for mentioned, p in bases:
        for kind in ("own", "shared"):
            for how in hows:
                if kind == "shared" and how[0] != "name":
                    continue
                long_form = {"kind": kind, "links": [{"how": h, "priority": None} for h in how]}
                if kind == "shared":
                    long_form["helper"] = 0
                pairs = []
                for keep in range(len(how)):
                    pairs.append((long_form, {"kind": "direct"} if keep == 0 else dict(_cp(long_form), links=_cp(long_form["links"][:keep]))))
                for j in range(len(how)):
                    for hi, lo in ((None, 0.5), (0.5, 0.1)):
                        a, b = _cp(long_form), _cp(long_form)
                        a["links"][j]["priority"], b["links"][j]["priority"] = hi, lo
                        pairs.append((a, b))
                for fa, fb in pairs:
                    for order in (0, 1):
                        for third in (False, True):
                            if third and not mentioned:
                                continue
                            forms = [fa, fb][:: 1 - 2 * order] + ([{"kind": "direct"}] if third else [])
                            flows = [{"mentioned": mentioned, "wrong": None, "priority": p, "action": i, "loop": None} for i in range(2)]
                            if third:
                                flows.append({"mentioned": [], "wrong": None, "priority": None, "action": 2, "loop": None})
                            for choice in (0, 1):
                                yield {
                                    "flows": flows,
                                    "wrapped": False,
                                    "stage2": None,
                                    "forms": _cp(forms),
                                    "helpers": [{"mentioned": mentioned, "wrong": None, "priority": p}] if kind == "shared" else [],
                                    "choices": [choice],
                                }
    yield from _enumerate_first_match()
    yield from _enumerate_spellings()
    yield from _enumerate_instances()
    yield from _enumerate_structured()


def _enumerate_first_match():
    """A more specific first match followed by loose internal matches against a less specific but shorter / tighter chain: every long
    form (6 link patterns, own / shared helper; no link priority or 0.5 on the last link) whose match on the event mentions (a,b,c) /
    (a,b) / (a) with priority 0.5, against a competitor that mentions one parameter fewer (for (a,b,c) also two fewer) - direct, or behind
    one `await` link; both start orders, both tie-break outcomes."""
    hows = [["name"], ["await"], ["name", "name"], ["name", "await"], ["await", "name"], ["await", "await"]]
    bases = [(["a", "b", "c"], None, [["a", "b"], ["a"]]), (["a", "b"], None, [["a"]]), (["a"], 0.5, [[]])]
    for mentioned, p, lesser in bases:
        for kind in ("own", "shared"):
            for how in hows:
                if kind == "shared" and how[0] != "name":
                    continue
                for last in (None, 0.5):
                    long_form = {"kind": kind, "links": [{"how": h, "priority": None} for h in how]}
                    long_form["links"][-1]["priority"] = last
                    if kind == "shared":
                        long_form["helper"] = 0
                    for less in lesser:
                        for other in ({"kind": "direct"}, {"kind": "own", "links": [{"how": "await", "priority": None}]}):
                            for order in (0, 1):
                                fl = [
                                    {"mentioned": mentioned, "wrong": None, "priority": p, "action": 0, "loop": None},
                                    {"mentioned": less, "wrong": None, "priority": p, "action": 1, "loop": None},
                                ]
                                fo = [long_form, other]
                                for choice in (0, 1):
                                    yield {
                                        "flows": _cp(fl[:: 1 - 2 * order]),
                                        "wrapped": False,
                                        "stage2": None,
                                        "forms": _cp(fo[:: 1 - 2 * order]),
                                        "helpers": [{"mentioned": mentioned, "wrong": None, "priority": p}] if kind == "shared" else [],
                                        "choices": [choice],
                                    }


def _enumerate_spellings():
    """Two flows of one loop start UtteranceBotAction(script="A", intensity=1, volume=2) - flow 0 as written here, flow 1 in each of
    the 11 other writings (6 argument orders x numbers as 1 / 1.0) - in the three specificity relations (flow 0 more specific, flow 1
    more specific, exact tie), alone / with a less specific / with a more specific competitor that starts another action; direct and
    wrapped; both tie-break outcomes."""
    rel = [(["a", "b"], ["a"]), (["a"], ["a", "b"]), (["a"], ["a"])]
    for perm in range(6):
        for floats in (False, True):
            if perm == 0 and not floats:
                continue
            for m0, m1 in rel:
                for third in (None, [], ["a", "b", "c"]):
                    for wrapped in (False, True):
                        for choice in (0, 1):
                            base = {"wrong": None, "priority": None, "action": 0, "loop": None, "extra": [["intensity", 1], ["volume", 2]]}
                            flows = [dict(base, mentioned=m0, perm=0, floats=False), dict(base, mentioned=m1, perm=perm, floats=floats)]
                            if third is not None:
                                flows.append({"mentioned": third, "wrong": None, "priority": None, "action": 1, "loop": None})
                            case = {"flows": _cp(flows), "wrapped": wrapped, "stage2": None, "choices": [choice]}
                            if not wrapped:
                                case["via_when"] = [False, perm % 2 == 1, False][: len(flows)]
                            yield case


def _enumerate_instances():
    """Activated reactor with two stages and the label behind the first match: every pair of specificities of the two matches
    (none / one / all parameters mentioned), different / identical actions, label before / after the first action, reactor in
    loop NEW / L1 / loop of main, three full events, both tie-break outcomes."""
    ms = [[], ["a"], ["a", "b", "c"]]
    for loop in ("NEW", "L1", None):
        for m0 in ms:
            for m1 in ms:
                for a1 in (1, 0):
                    for pos in ("before", "after"):
                        for choice in (0, 1):
                            yield {
                                "kind": "instances",
                                "reactor": {
                                    "loop": loop,
                                    "priority": None,
                                    "stages": [{"mentioned": m0, "wrong": None, "action": 0}, {"mentioned": m1, "wrong": None, "action": a1}],
                                    "label": [0, pos],
                                    "ends": False,
                                    "first": True,
                                },
                                "flows": [],
                                "events": [None, None, None],
                                "choices": [choice],
                            }


def _spelling_labels(groups, flows):
    """groups: lists of flows that react to the same event in the same loop."""
    labels = []
    if any(f.get("extra") for f in flows):
        labels.append("multi-argument-action")
    for members in groups:
        for x, y in itertools.combinations(members, 2):
            if _aid(x, False) != _aid(y, False) or not x.get("extra"):
                continue
            wx, wy = _written_args(x), _written_args(y)
            if [n for n, _ in wx] != [n for n, _ in wy]:
                labels.append("equal-actions-kwargs-in-different-order")
            if sorted(wx) != sorted(wy):
                labels.append("equal-actions-number-spelled-differently(1-vs-1.0)")
    return sorted(set(labels))


# ------------------------------------------------------------------------------------------------
# instances of one ACTIVATED flow as competitors (documented label `start_new_flow_instance:`), several events


@st.composite
def _instances_case(draw, flows):
    """An activated flow `reactor` (loop NEW / L1 / loop of main) walks through 2-3 stages `match Ev(..)` + `start <action>`; the label
    `start_new_flow_instance:` sits behind one of its matches (before or after the action of that stage), so older instances (further
    down) and newer instances (at the first match) are alive together and react to the same event. 0-3 plain one-shot flows c<i>
    as in the direct form compete in their own loops. 2-4 events Ev, each with at most one altered parameter value."""
    stages = []
    for _ in range(draw(st.sampled_from([2, 2, 3]))):
        f = draw(_flow())
        stages.append({k: v for k, v in f.items() if k not in ("priority", "loop")})
    if draw(st.integers(0, 2)) == 0:
        # all stages start the same action (instances in the same loop co-win; in different loops each starts it)
        for k in range(1, len(stages)):
            stages[k] = dict({k2: v for k2, v in stages[k].items() if k2 not in ("extra", "perm", "floats")}, action=stages[0]["action"])
            if stages[0].get("extra"):
                sp = draw(_spelling(0))
                stages[k].update(extra=_cp(stages[0]["extra"]), perm=sp["perm"], floats=sp["floats"])
    label = draw(st.sampled_from([None] + [[k, pos] for k in range(len(stages)) for pos in ("before", "after")] + [[0, "before"], [0, "after"]] * 2))
    reactor = {
        "loop": draw(st.sampled_from(["NEW", "NEW", "NEW", "L1", None])),
        "priority": draw(st.sampled_from([None, None, None, 0.5, 0.1])),
        "stages": stages,
        "label": label,
        "ends": draw(st.integers(0, 3)) == 0,
        "first": draw(st.booleans()),
    }
    events = [draw(st.sampled_from([None, None, None, None, None, "a", "b", "c"])) for _ in range(draw(st.integers(2, 4)))]
    return {
        "kind": "instances",
        "reactor": reactor,
        "flows": _cp(flows[: draw(st.sampled_from([0, 0, 1, 2, 3]))]),
        "events": events,
        "choices": draw(st.lists(st.integers(0, 5), min_size=1, max_size=4)),
    }


def _ev_args(f):
    return ", ".join(f"{k}={PARAMS[k] + (10 if k == f['wrong'] else 0)}" for k in f["mentioned"])


def _instances_program(case):
    r = case["reactor"]
    lines = ([f'@loop("{r["loop"]}")'] if r["loop"] else []) + ["flow reactor"]
    if r["priority"] is not None:
        lines.append(f"  priority {r['priority']}")
    for k, s in enumerate(r["stages"]):
        lines.append(f"  match Ev({_ev_args(s)})")
        if r["label"] == [k, "before"]:
            lines.append("  start_new_flow_instance:")
        lines.append(f"  start {_action_text(s)}")
        if r["label"] == [k, "after"]:
            lines.append("  start_new_flow_instance:")
    if not r["ends"]:
        lines.append("  match NeverR()")
    lines.append("")
    for i, f in enumerate(case["flows"]):
        lines += ([f'@loop("{f["loop"]}")'] if f["loop"] else []) + [f"flow c{i}"] + _match_ev(f) + [f"  start {_action_text(f)}", f"  match Never{i}()", ""]
    lines.append("flow main")
    starts = [f"  start c{i}" for i in range(len(case["flows"]))]
    lines += (["  activate reactor"] + starts) if r["first"] else (starts + ["  activate reactor"])
    lines += ["  match Never()", ""]
    return "\n".join(lines)


def _fits(f, event):
    return all(event[k] == PARAMS[k] + (10 if k == f["wrong"] else 0) for k in f["mentioned"])


def _prop_instances(case):
    """Reference model over the history: which instance of `reactor` (and which plain flow) waits where, who fits the event, groups
    by interaction loop (every instance of a @loop("NEW") flow has a loop of its own), per group the usual rule. Where the rule leaves
    a choice (exact ties) the observed statuses select the branch the model follows."""
    r, flows = case["reactor"], case["flows"]
    stages, nst = r["stages"], len(r["stages"])
    rprio = r["priority"] or 1.0
    smh.install()
    smh.CHOOSER.reset(case["choices"])
    state = smh.init(_instances_program(case))
    desc = (
        f"activated reactor[loop={r['loop'] or 'main'} priority={rprio:g}: "
        + " / ".join(
            f"match Ev({_ev_args(s)})" + (" <label>" if r["label"] == [k, "before"] else "") + f" start {_adesc(s)}" + (" <label>" if r["label"] == [k, "after"] else "")
            for k, s in enumerate(stages)
        )
        + (" / end]" if r["ends"] else " / wait]")
        + "".join(f"; c{i}[loop={f['loop'] or 'main'} match Ev({_ev_args(f)}) score={score(f):.4g} action={_adesc(f)}]" for i, f in enumerate(flows))
    )
    insts = [{"stage": 0, "spawned": False, "status": "started"}]  # model, in order of creation
    plain = ["waiting"] * len(flows)
    uids = []  # observed instances of reactor in order of first appearance
    labels = {"instances", f"reactor-loop-{r['loop'] or 'main'}", f"events{len(case['events'])}", f"plain-flows{len(flows)}"}
    labels.add("no-label" if r["label"] is None else f"label-{r['label'][1]}-action")
    if r["ends"]:
        labels.add("reactor-ends")
    nt = False
    used = False
    trace = []
    spell_groups = []
    for step, altered in enumerate(case["events"]):
        event = {k: v + (10 if k == altered else 0) for k, v in PARAMS.items()}
        # --- model: candidates per loop
        groups = {}
        for j, inst in enumerate(insts):
            if inst["status"] == "started" and inst["stage"] < nst and _fits(stages[inst["stage"]], event):
                s = stages[inst["stage"]]
                g = f"NEW(instance {j + 1})" if r["loop"] == "NEW" else (r["loop"] or "main")
                groups.setdefault(g, []).append((("r", j), 0.9 ** (3 - len(s["mentioned"])) * rprio, _aid(s), s))
        for i, f in enumerate(flows):
            if plain[i] == "waiting" and _fits(f, event):
                g = f"NEW(c{i})" if f["loop"] == "NEW" else (f["loop"] or "main")
                groups.setdefault(g, []).append((("c", i), 0.9 ** (3 - len(f["mentioned"])) * (f["priority"] or 1.0), _aid(f), f))
        per_group = []
        for g, cands in groups.items():
            top = max(c[1] for c in cands)
            options = []
            for c in cands:
                if abs(c[1] - top) <= 1e-9:
                    opt = (c[2], sorted(x[0] for x in cands if x[2] == c[2]))
                    if opt not in options:
                        options.append(opt)
            per_group.append((g, cands, options))
            spell_groups.append([c[3] for c in cands])
        reacting = [c[0] for _, cands, _ in per_group for c in cands]
        rinst = [w for w in reacting if w[0] == "r"]
        if len(rinst) >= 2:
            labels.add("older-and-newer-instance-fit-the-same-event")
            labels.add("instances-in-own-loops" if r["loop"] == "NEW" else "instances-in-one-loop")
            if len({c[2] for _, cands, _ in per_group for c in cands if c[0][0] == "r"}) >= 2:
                labels.add("instances-with-different-actions")
            nt = True
        elif rinst and any(len(cands) >= 2 for _, cands, _ in per_group):
            nt = True
        # --- real run
        smh.CHOOSER.reset(case["choices"][step % len(case["choices"]):] + case["choices"][: step % len(case["choices"])])
        out = smh.feed(state, smh.ev("Ev", **event))
        used = used or bool(smh.CHOOSER.used)
        starts = Counter(_start_key(e) for e in out if _is_start(e))
        cstat = {}
        rstat = {}
        for fs in state.flow_states.values():
            if fs.flow_id == "reactor":
                if fs.uid not in uids:
                    uids.append(fs.uid)
                rstat[fs.uid] = fs.status.value
            elif fs.flow_id.startswith("c") and fs.flow_id[1:].isdigit():
                cstat.setdefault(int(fs.flow_id[1:]), []).append(fs.status.value)
        obs_r = [rstat.get(u, "gone") for u in uids]
        obs_c = [cstat.get(i, ["missing"]) for i in range(len(flows))]
        # --- every branch the rule allows
        branches = []
        for combo in itertools.product(*[opts for _, _, opts in per_group]):
            m_insts, m_plain, exp, new = _cp(insts), list(plain), Counter(), 0
            for (g, cands, _), (a, winners) in zip(per_group, combo):
                exp[_aid_key(a)] += 1
                for who, _, _, _ in cands:
                    won = who in winners
                    if who[0] == "c":
                        m_plain[who[1]] = "done" if won else "stopped"
                        continue
                    inst = m_insts[who[1]]
                    if won:
                        if r["label"] is not None and r["label"][0] == inst["stage"] and not inst["spawned"]:
                            inst["spawned"], new = True, new + 1
                        inst["stage"] += 1
                        if inst["stage"] == nst and r["ends"]:
                            inst["status"] = "finished"
                    else:
                        if r["label"] == [inst["stage"], "before"] and not inst["spawned"]:
                            inst["spawned"], new = True, new + 1  # passed the label, then lost at the action
                        inst["status"] = "stopped"
                    if inst["status"] != "started" and not inst["spawned"]:
                        inst["spawned"], new = True, new + 1  # an activated flow restarts when it finishes or fails
            m_insts += [{"stage": 0, "spawned": False, "status": "started"} for _ in range(new)]
            branches.append((m_insts, m_plain, exp))
        shown = f"{desc} | event {step + 1} of {len(case['events'])}: Ev({', '.join(f'{k}={v}' for k, v in event.items())})" + (" after " + "; ".join(trace) if trace else "")
        want = lambda b: ([i["status"] for i in b[0]], [["stopped"] if p == "stopped" else ["started"] for p in b[1]])  # noqa: E731
        fitting = [b for b in branches if want(b) == (obs_r, obs_c)]
        who = lambda w: f"instance {w[1] + 1}" if w[0] == "r" else f"c{w[1]}"  # noqa: E731
        rule = "; ".join(
            f"loop {g}: " + ", ".join(f"{who(c[0])} (score {c[1]:.4g}, {_key_text(_aid_key(c[2]))})" for c in cands) for g, cands, _ in per_group
        ) or "nobody fits"
        if not fitting:
            allowed = [f"reactor instances {want(b)[0]} plain flows {[x[0] for x in want(b)[1]]}" for b in branches]
            raise Violation(
                "instance-wrong-winners",
                f"{shown}: reacting: {rule}. Observed reactor instances (oldest first) {obs_r}, plain flows {[x[-1] for x in obs_c]}, started { {_key_text(k): v for k, v in starts.items()} }; allowed: {allowed}",
            )
        if not any(b[2] == starts for b in fitting):
            raise Violation(
                "instance-wrong-actions",
                f"{shown}: reacting: {rule}. Started { {_key_text(k): v for k, v in starts.items()} }, expected { {_key_text(k): v for k, v in fitting[0][2].items()} } (each winning action once per loop)",
            )
        insts, plain, _ = [b for b in fitting if b[2] == starts][0]
        if any(i["status"] == "stopped" for i in insts):
            labels.add("instance-lost")
        trace.append(f"event {step + 1} started {sorted(_key_text(k) + ('x%d' % v if v > 1 else '') for k, v in starts.items())}")
    if used:
        labels.add("tie-break-used")
    labels |= set(_spelling_labels(spell_groups, list(stages) + list(flows)))
    view = {"flows": desc, "events": trace, "instances": [i["status"] + "@stage%d" % i["stage"] for i in insts]}
    return ok(nt=nt, labels=sorted(labels), view=view)


# ------------------------------------------------------------------------------------------------
# competitors that mention the same STRUCTURED parameter with a different number of members


S_SCALARS = [11, 12, "x", "y", 2.5, True]
S_INNER = [{"j1": 21, "j2": 22}, {"j1": 21, "j2": 22, "j3": "z"}, [31, 32], [31, 32, 33], {"__set__": [41, 42]}]
S_ACTION_ARGS = [["script", "hello"], ["intensity", 1.0], ["volume", 2.0], ["voice", "calm"]]
# top-level parameters of the triggering event: containers ride on Ev(a=1, b=2, c=3, s=<container>); the start arguments of an action
# are matched on UtteranceBotActionFinished(final_script="hello", is_success=True) of the action that main started
S_TOP = {"a": ("a", 1, 11), "b": ("b", 2, 12), "c": ("c", 3, 13)}
S_TOP_ACTION = {"a": ("final_script", "hello", "other"), "b": ("is_success", True, False)}
S_READINGS = {"dict": "AB", "list": "AB", "set": "AB", "action": "ABC"}


def _is_set(x):
    return isinstance(x, dict) and "__set__" in x


def _members(x):
    """The members of a container value (None for a scalar)."""
    if _is_set(x):
        return list(x["__set__"])
    if isinstance(x, dict):
        return list(x.values())
    if isinstance(x, list):
        return list(x)
    return None


def _leaves(x):
    m = _members(x)
    return 1 if m is None else sum(_leaves(i) for i in m)


def _same_scalar(p, v):
    return _members(p) is None and _members(v) is None and type(p) is type(v) and p == v


def _sfit(P, V, unit):
    """Documented matching of a container parameter (event-generation-and-matching.rst: the expected container is not larger than the
    received one, every expected member matches the corresponding received member - same key / same position / some element -,
    containers recursively). Returns None if P does not match V, else the number of members of V that P leaves unmentioned
    (`unit(member)` for each of them, on every nesting level)."""
    if _is_set(P):
        if not _is_set(V) or len(P["__set__"]) > len(V["__set__"]):
            return None
        rest = list(V["__set__"])
        for p in P["__set__"]:
            hit = [v for v in rest if _same_scalar(p, v)]
            if not hit:
                return None
            rest.remove(hit[0])
        return sum(unit(v) for v in rest)
    if isinstance(P, list):
        if not isinstance(V, list) or len(P) > len(V):
            return None
        n = 0
        for p, v in zip(P, V):  # generated expected lists are prefixes of the received list: items at the same position
            r = _sfit(p, v, unit)
            if r is None:
                return None
            n += r
        return n + sum(unit(v) for v in V[len(P):])
    if isinstance(P, dict):
        if not isinstance(V, dict) or _is_set(V) or len(P) > len(V):
            return None
        n = 0
        for k, p in P.items():
            if k not in V:
                return None
            r = _sfit(p, V[k], unit)
            if r is None:
                return None
            n += r
        return n + sum(unit(v) for k, v in V.items() if k not in P)
    return 0 if _same_scalar(P, V) else None


def _canon(x):
    """Keys of every dict in sorted order (a stored case comes back with sorted keys: program text and payload must not depend on it)."""
    if isinstance(x, dict):
        return {k: _canon(x[k]) for k in sorted(x)}
    if isinstance(x, list):
        return [_canon(i) for i in x]
    return x


def _s_top(case):
    return S_TOP_ACTION if case["carrier"] == "action" else S_TOP


def _s_unmentioned(case, f, reading):
    """Number of unmentioned parameters / members of the match of f (None = the match does not fit the event). Readings differ only in
    what a structure (or nested container) costs that is not mentioned AT ALL: A = one parameter (documented: 0.9 for every missing
    parameter), B = all its members, C (start arguments of an action only) = nothing, they are not a parameter of the Finished event."""
    if f["wrong"] is not None:
        return None
    unit = (lambda v: _leaves(v)) if reading == "B" else (lambda v: 1)
    n = len(_s_top(case)) - len(f["mentioned"])
    if f["spat"] is None:
        return n + (0 if reading == "C" else unit(case["value"]))
    r = _sfit(f["spat"], case["value"], unit)
    return None if r is None else n + r


def _s_score(case, f, reading="A"):
    n = _s_unmentioned(case, f, reading)
    return 0.0 if n is None else 0.9**n * (f["priority"] or 1.0)


def _s_match_text(case, f):
    top = _s_top(case)
    args = [f"{top[k][0]}={smh.lit(top[k][2] if k == f['wrong'] else top[k][1])}" for k in f["mentioned"]]
    if case["carrier"] == "action":
        inner = ", ".join(f"{k}={smh.lit(v)}" for k, v in (f["spat"] or {}).items())
        return f"UtteranceBotAction({inner}).Finished({', '.join(args)})"
    if f["spat"] is not None:
        args.append(f"s={smh.lit(f['spat'])}")
    return f"Ev({', '.join(args)})"


def _structured_program(case):
    lines = []
    for i, f in enumerate(case["flows"]):
        deco = [f'@loop("{f["loop"]}")'] if f["loop"] else []
        prio = [f"  priority {f['priority']}"] if f["priority"] is not None else []
        match = [f"  match {_s_match_text(case, f)}"]
        tail = [f"  start {_action_text(f)}", f"  match Never{i}()", ""]
        if case["wrapped"]:
            lines += [f"flow inner{i}"] + prio + match + [""] + deco + [f"flow c{i}", f"  await inner{i}"] + tail
        else:
            lines += deco + [f"flow c{i}"] + prio + match + tail
    lines.append("flow main")
    for i in range(len(case["flows"])):
        lines.append(f"  start c{i}")
    if case["carrier"] == "action":
        lines.append("  start UtteranceBotAction(" + ", ".join(f"{k}={smh.lit(v)}" for k, v in case["value"].items()) + ") as $m")
    lines += ["  match Never()", ""]
    return "\n".join(lines)


@st.composite
def _svalue(draw, carrier):
    n = draw(st.sampled_from([2, 2, 3, 3, 4]))
    if carrier == "action":
        return {k: v for k, v in S_ACTION_ARGS[:n]}
    items = list(draw(st.permutations(S_SCALARS)))[:n]
    if carrier == "set":
        return {"__set__": items}
    if draw(st.integers(0, 2)) == 0:
        # second nesting level: one member is a container itself
        items[draw(st.integers(0, n - 1))] = _cp(draw(st.sampled_from(S_INNER if carrier == "dict" else S_INNER[:4])))
    return items if carrier == "list" else {f"k{j + 1}": v for j, v in enumerate(items)}


def _subpattern(draw, V, min_members=0):
    """A pattern that matches V and mentions some of its members: a subset of the keys / a prefix of the list / a subset of the
    elements, containers recursively; `min_members` members of the outermost level are kept at least."""
    if _is_set(V):
        keep = [draw(st.integers(0, 2)) != 0 for _ in V["__set__"]]
        first = draw(st.integers(0, max(len(keep) - 1, 0)))
        for j in range(min(min_members, len(keep))):
            keep[(first + j) % len(keep)] = True
        return {"__set__": [v for v, k in zip(V["__set__"], keep) if k]}
    if isinstance(V, list):
        n = max(min(min_members, len(V)), len(V) - draw(st.sampled_from([0, 0, 0, 1, 1, 2, 4])))
        return [_subpattern(draw, v) for v in V[:n]]
    if isinstance(V, dict):
        keys = list(V)
        keep = [draw(st.integers(0, 2)) != 0 for _ in keys]
        first = draw(st.integers(0, max(len(keep) - 1, 0)))
        for j in range(min(min_members, len(keep))):
            keep[(first + j) % len(keep)] = True
        return {k: _subpattern(draw, V[k]) for k, kp in zip(keys, keep) if kp}
    return V


def _scalar_paths(P, path=()):
    if _is_set(P):
        return [path + ("__set__", j) for j in range(len(P["__set__"]))]
    if isinstance(P, list):
        return [q for j, v in enumerate(P) for q in _scalar_paths(v, path + (j,))]
    if isinstance(P, dict):
        return [q for k, v in P.items() for q in _scalar_paths(v, path + (k,))]
    return [path]


def _altered(P, path):
    """P with the scalar at `path` replaced by a value that occurs nowhere in a received structure."""
    P = _cp(P)
    node = P
    for k in path[:-1]:
        node = node[k]
    v = node[path[-1]]
    node[path[-1]] = "zz" if isinstance(v, str) else (not v) if isinstance(v, bool) else 99
    return P


@st.composite
def _structured_case(draw, flows):
    """The triggering event carries a structured parameter: a dict / list / set valued parameter `s` of Ev (members scalars, a third of
    the dicts and lists with one member that is a container itself), or - carrier `action` - the start arguments of an action that main
    started, mentioned in `match UtteranceBotAction(<arguments>).Finished(<parameters>)`. Every flow mentions a drawn part of the
    top-level parameters as usual and of the structure: not at all, or with a drawn subset of its members (one flow in seven with one
    altered value: does not fit). Forced shape (half of the cases): flow 1 and some others copy top-level mention, priority and loop
    of flow 0 and mention a part of what flow 0 mentions of the structure (start order drawn) - only the members of the structure
    tell them apart."""
    flows = _cp(flows)
    carrier = draw(st.sampled_from(["dict", "dict", "list", "set", "action", "action"]))
    value = draw(_svalue(carrier))
    top = S_TOP_ACTION if carrier == "action" else S_TOP

    def norm(p):
        return None if (carrier == "action" and p == {}) else p

    for f in flows:
        f["mentioned"] = [k for k in f["mentioned"] if k in top]
        if f["wrong"] not in f["mentioned"]:
            f["wrong"] = None
        f["spat"] = None
        if draw(st.integers(0, 4)) != 0:
            f["spat"] = _subpattern(draw, value)
            paths = _scalar_paths(f["spat"])
            if paths and draw(st.integers(0, 6)) == 0:
                f["spat"] = _altered(f["spat"], draw(st.sampled_from(paths)))
            f["spat"] = norm(f["spat"])
    if draw(st.booleans()):
        f0 = flows[0]
        f0["wrong"] = None
        f0["spat"] = _subpattern(draw, value, min_members=draw(st.sampled_from([1, 2, 2, 3, 4])))
        for j in range(1, len(flows)):
            if j == 1 or draw(st.booleans()):
                flows[j] = dict(flows[j], mentioned=list(f0["mentioned"]), wrong=None, priority=f0["priority"], loop=f0["loop"], spat=norm(_subpattern(draw, f0["spat"])))
        if draw(st.booleans()):
            flows[0], flows[1] = flows[1], flows[0]
    return {
        "kind": "structured",
        "carrier": carrier,
        "value": value,
        "flows": flows,
        "wrapped": draw(st.integers(0, 3)) == 0,
        "choices": draw(st.lists(st.integers(0, 5), min_size=1, max_size=4)),
    }


def _enumerate_structured():
    """Two flows of one loop with different actions mention the same structure - a dict / list / set valued event parameter with 2-3
    scalar members, the 2-3 start arguments of the finished action, or a dict / list with one nested container - and nothing else
    differs: every pair (k members mentioned, fewer members mentioned - down to the empty container) in both start orders, for both
    tie-break outcomes, alone / with a third flow that does not mention the structure at all but all top-level parameters."""
    values = []
    for n in (2, 3):
        sc = [11, "x", 2.5][:n]
        values += [("dict", {f"k{j + 1}": v for j, v in enumerate(sc)}), ("list", list(sc)), ("set", {"__set__": list(sc)}), ("action", {k: v for k, v in S_ACTION_ARGS[:n]})]
    pairs = []
    for carrier, value in values:
        n = len(_members(value))
        for hi in range(1, n + 1):
            for lo in range(0 if carrier != "action" else 1, hi):
                cut = lambda k: {"__set__": value["__set__"][:k]} if carrier == "set" else value[:k] if carrier == "list" else dict(list(value.items())[:k])  # noqa: E731
                pairs.append((carrier, value, cut(hi), cut(lo)))
    # second nesting level: the competitors differ only in what they mention of a container INSIDE the structure
    pairs += [
        ("dict", {"k1": 11, "k2": {"j1": 21, "j2": 22}}, {"k1": 11, "k2": {"j1": 21, "j2": 22}}, {"k1": 11, "k2": {"j1": 21}}),
        ("dict", {"k1": 11, "k2": {"j1": 21, "j2": 22}}, {"k2": {"j1": 21}}, {"k2": {}}),
        ("dict", {"k1": [31, 32, 33], "k2": "x"}, {"k1": [31, 32, 33], "k2": "x"}, {"k1": [31], "k2": "x"}),
        ("dict", {"k1": {"__set__": [41, 42]}, "k2": "x"}, {"k1": {"__set__": [41, 42]}}, {"k1": {"__set__": [42]}}),
        ("list", [{"j1": 21, "j2": 22}, 12], [{"j1": 21, "j2": 22}, 12], [{"j1": 21}, 12]),
        ("list", [11, [31, 32]], [11, [31, 32]], [11, [31]]),
    ]
    for carrier, value, hi, lo in pairs:
        top = ["a", "b"] if carrier == "action" else ["a", "b", "c"]
        for mentioned in (top, top[:1]):
            for order in (0, 1):
                for third in (False, True):
                    for choice in (0, 1):
                        fl = [
                            {"mentioned": mentioned, "wrong": None, "priority": None, "action": 0, "loop": None, "spat": hi},
                            {"mentioned": mentioned, "wrong": None, "priority": None, "action": 1, "loop": None, "spat": lo},
                        ][:: 1 - 2 * order]
                        if third:
                            fl.append({"mentioned": top, "wrong": None, "priority": None, "action": 2, "loop": None, "spat": None})
                        yield {"kind": "structured", "carrier": carrier, "value": _cp(value), "flows": _cp(fl), "wrapped": False, "choices": [choice]}


def _prop_structured(case):
    """Usual rule per loop; the score of a match is 0.9^(unmentioned top-level parameters + unmentioned members of the structure on every
    nesting level) x priority. Where the readings of 'a structure that is not mentioned at all' name different top sets any flow of
    their union may win."""
    case = dict(case, value=_canon(case["value"]), flows=[dict(f, spat=_canon(f["spat"])) for f in case["flows"]])
    flows, value, carrier = case["flows"], case["value"], case["carrier"]
    aid = [_aid(f) for f in flows]
    smh.install()
    smh.CHOOSER.reset(case["choices"])
    state = smh.init(_structured_program(case))
    if carrier == "action":
        begun = [e for e in state.outgoing_events if _is_start(e)]
        if len(begun) != 1:
            raise RuntimeError(f"harness: main started {len(begun)} actions")
        event = smh.ev("UtteranceBotActionFinished", action_uid=begun[0]["action_uid"], **{n: v for n, v, _ in S_TOP_ACTION.values()})
        shown = f"main started UtteranceBotAction({', '.join(f'{k}={smh.lit(v)}' for k, v in value.items())}); event UtteranceBotActionFinished(action_uid=<that action>, final_script=\"hello\", is_success=True)"
    else:
        event = smh.ev("Ev", **{n: v for n, v, _ in S_TOP.values()}, s=smh.to_py(value))
        shown = f"event Ev(a=1, b=2, c=3, s={smh.lit(value)})"
    smh.CHOOSER.reset(case["choices"])
    out = smh.feed(state, event)
    starts = Counter(_start_key(e) for e in out if _is_start(e))
    status = {}
    for fs in state.flow_states.values():
        if fs.flow_id.startswith("c") and fs.flow_id[1:].isdigit():
            status.setdefault(int(fs.flow_id[1:]), []).append(fs.status.value)
    readings = S_READINGS[carrier]
    sc = {r: [_s_score(case, f, r) for f in flows] for r in readings}
    desc = (
        shown
        + " | "
        + "; ".join(
            f"c{i}[loop={f['loop'] or 'main'} match {_s_match_text(case, f)} unmentioned={_s_unmentioned(case, f, 'A')} score={sc['A'][i]:.4g} action={_adesc(f)}]"
            for i, f in enumerate(flows)
        )
        + (" wrapped" if case["wrapped"] else "")
    )
    observed = {i: (status.get(i) or ["missing"])[-1] for i in range(len(flows))}
    for i in observed:
        if len(status.get(i, [])) != 1:
            raise Violation("instances", f"{desc}: flow c{i} has instances {status.get(i)}")
    groups = {}
    for i, f in enumerate(flows):
        key = f["loop"] if f["loop"] != "NEW" else f"NEW{i}"
        groups.setdefault(key or "main", []).append(i)
    labels = {"structured", f"structured-{carrier}", f"n{len(flows)}", f"loops{len(groups)}", "wrapped" if case["wrapped"] else "direct"}
    if any(_members(m) is not None for m in _members(value)):
        labels.add("structured-second-nesting-level")
    nt = False
    fitting_groups = 0
    exp = Counter()
    for g, members in groups.items():
        fit = [i for i in members if sc["A"][i] > 0]
        for i in members:
            if i not in fit and observed[i] != "started":
                raise Violation("nonfitting-touched", f"{desc}: c{i} did not fit the event but is {observed[i]}")
        if not fit:
            continue
        fitting_groups += 1
        tops = {}
        for r in readings:
            best = max(sc[r][i] for i in fit)
            tops[r] = [i for i in fit if abs(sc[r][i] - best) <= 1e-9]
        tied = sorted(set().union(*tops.values()))
        if any(t != tops["A"] for t in tops.values()) and len({aid[i] for i in tied}) >= 2:
            labels.add("structured-unmentioned-structure-readings-disagree")
        options = []
        for w in tied:
            winners = sorted(i for i in fit if aid[i] == aid[w])
            if (aid[w], winners) not in options:
                options.append((aid[w], winners))
        running = sorted(i for i in fit if observed[i] == "started")
        match = [o for o in options if o[1] == running]
        if not match:
            raise Violation(
                "wrong-winners",
                f"{desc}: loop {g}: flows still running {['c%d' % i for i in running]}, statuses {observed}; allowed winner sets {[['c%d' % i for i in o[1]] for o in options]}",
            )
        for i in fit:
            if i not in running and observed[i] != "stopped":
                raise Violation("loser-not-stopped", f"{desc}: loop {g}: losing flow c{i} is {observed[i]}")
        exp[_aid_key(match[0][0])] += 1
        # what the group exercises
        base = lambda i: (len(flows[i]["mentioned"]), flows[i]["priority"] or 1.0)  # noqa: E731
        for i, j in itertools.combinations(fit, 2):
            if aid[i] == aid[j] or flows[i]["spat"] is None or flows[j]["spat"] is None:
                continue
            if base(i) == base(j) and abs(sc["A"][i] - sc["A"][j]) > 1e-9 and (i in tied) != (j in tied):
                # same top-level mention and priority: only the number of mentioned members separates the two, and one of them may not win
                labels.add("members-of-the-structure-decide")
                nt = True
            elif base(i) != base(j) and abs(sc["A"][i] - sc["A"][j]) <= 1e-9 and flows[i]["spat"] != flows[j]["spat"]:
                labels.add("tie-of-top-level-and-nested-unmentioned")
        if any(flows[i]["spat"] is None for i in fit) and any(flows[i]["spat"] is not None for i in fit):
            labels.add("structure-unmentioned-by-some")
        if (len(fit) >= 3 and len({round(sc["A"][i], 9) for i in fit}) >= 2) or len(options) >= 2:
            nt = True
    if exp != starts:
        raise Violation(
            "wrong-actions",
            f"{desc}: started actions { {_key_text(k): v for k, v in starts.items()} }, expected { {_key_text(k): v for k, v in exp.items()} } (each winning action exactly once per loop)",
        )
    if fitting_groups >= 2:
        nt = True
    if any(f["priority"] not in (None, 1.0) for f in flows):
        labels.add("priority")
    if any(f["wrong"] for f in flows):
        labels.add("has-nonfitting")
    if any(f["wrong"] is None and sc["A"][i] == 0 for i, f in enumerate(flows)):
        labels.add("member-of-the-structure-does-not-fit")
    if smh.CHOOSER.used:
        labels.add("tie-break-used")
    if any(len(m) != len({aid[i] for i in m}) for m in groups.values()):
        labels.add("equal-actions")
    labels |= set(_spelling_labels([[flows[i] for i in m if sc["A"][i] > 0] for m in groups.values()], flows))
    view = {"flows": desc, "started": {_key_text(k): v for k, v in starts.items()}, "status": {f"c{i}": s for i, s in observed.items()}}
    return ok(nt=nt, labels=sorted(labels), view=view)


def _base(case, i):
    """The flow statement that matches the external event: the flow itself, or the shared helper it hangs on."""
    form = (case.get("forms") or [None] * (i + 1))[i]
    if form and form["kind"] == "shared":
        return case["helpers"][form["helper"]]
    return case["flows"][i]


def _match_ev(f, i=None):
    """Priority statement + the statement that waits for Ev (i given: flow i may wait with a group of event matches)."""
    wait = _wait_lines(f, i) if i is not None else [f"  match Ev({_ev_args(f)})"]
    return ([f"  priority {f['priority']}"] if f["priority"] is not None else []) + wait


def _chain_program(case):
    lines = []
    for k, h in enumerate(case["helpers"]):
        lines += [f"flow hs{k}"] + _match_ev(h) + [""]
    for i, (f, form) in enumerate(zip(case["flows"], case["forms"])):
        deco = [f'@loop("{f["loop"]}")'] if f["loop"] else []
        tail = [f"  start {_action_text(f)}", f"  match Never{i}()", ""]
        if form["kind"] == "direct":
            lines += deco + [f"flow c{i}"] + _match_ev(f, i) + tail
            continue
        if form["kind"] == "own":
            lines += [f"flow h{i}"] + _match_ev(f, i) + [""]
            below, started = f"h{i}", False
        else:
            below, started = f"hs{form['helper']}", True
        for j, link in enumerate(form["links"]):
            last = j == len(form["links"]) - 1
            name = f"c{i}" if last else f"m{i}"
            body = [f"  priority {link['priority']}"] if link["priority"] is not None else []
            if link["how"] == "await":
                body += [f"  await {below}"]
            else:
                body += ([] if started else [f"  start {below}"]) + [f"  match {below}.Finished()"]
            lines += (deco if last else []) + [f"flow {name}"] + body + (tail if last else [""])
            below, started = name, False
    lines.append("flow main")
    for k in range(len(case["helpers"])):
        lines.append(f"  start hs{k}")
    for i in range(len(case["flows"])):
        lines.append(f"  start c{i}")
    lines += ["  match Never()", ""]
    return "\n".join(lines)


def _chain(case, i):
    """Score chain of flow i as list of (known factor, #unknown name-match factors, #unknown await-match factors)."""
    b = _base(case, i)
    els = [(score(b), 0, 0)]
    for link in case["forms"][i].get("links", []):
        els.append((link["priority"] or 1.0, 1 if link["how"] == "name" else 0, 1 if link["how"] == "await" else 0))
    return els


def _cmp(x, y):
    """Compare k*N^n*A^a for unknown N in (0,1) (a Finished-match by flow name leaves parameters unmentioned) and unknown
    A in (0,1] (the match behind `await`): '>', '<', '=' or '?' (depends on the unknown values)."""
    (k, n, a), (k2, n2, a2) = x, y
    if (n, a) == (n2, a2):
        return "=" if abs(k - k2) <= 1e-9 else (">" if k > k2 else "<")
    if n <= n2 and a <= a2:
        if k > k2 + 1e-9 or (abs(k - k2) <= 1e-9 and n < n2):
            return ">"
        return "?"
    if n >= n2 and a >= a2:
        if k2 > k + 1e-9 or (abs(k - k2) <= 1e-9 and n2 < n):
            return "<"
        return "?"
    return "?"


def _cmp_product(c1, c2):
    """Reading 1: unmentioned parameters (and priorities) accumulated along the whole chain."""
    tot = lambda c: (_prod([e[0] for e in c]), sum(e[1] for e in c), sum(e[2] for e in c))  # noqa: E731
    return _cmp(tot(c1), tot(c2))


def _cmp_elementwise(c1, c2):
    """Reading 2: element by element from the external event on; a missing element counts as an exact match (1.0)."""
    for j in range(max(len(c1), len(c2))):
        r = _cmp(c1[j] if j < len(c1) else (1.0, 0, 0), c2[j] if j < len(c2) else (1.0, 0, 0))
        if r != "=":
            return r
    return "="


def _prod(xs):
    p = 1.0
    for x in xs:
        p *= x
    return p


def _top(cmp, chains, fit):
    for i in fit:
        rel = {j: cmp(chains[i], chains[j]) for j in fit}
        if all(r in "=>" for r in rel.values()):
            return sorted(j for j in fit if rel[j] == "=")
    return None


def _chain_desc(case, i):
    b = _base(case, i)
    form = case["forms"][i]
    s = ("hs%d:" % form["helper"] if form["kind"] == "shared" else "") + f"{score(b):.4g}"
    for link in form.get("links", []):
        s += f" > {link['how']}*{link['priority'] or 1.0}"
    return s


def program(case):
    if case.get("forms"):
        return _chain_program(case)
    lines = []
    for i, f in enumerate(case["flows"]):
        wait = _wait_lines(f, i)
        act = _action_text(f)
        deco = [f'@loop("{f["loop"]}")'] if f["loop"] else []
        prio = [f"  priority {f['priority']}"] if f["priority"] is not None else []
        if case["wrapped"]:
            lines += [f"flow inner{i}"] + prio + wait + [""]
            lines += deco + [f"flow c{i}", f"  await inner{i}", f"  start {act}", f"  match Never{i}()", ""]
        else:
            second = []
            if case.get("stage2"):
                t2, k2, v2 = ACTIONS[case["stage2"][i]]
                second = ["  match $a.Finished()", f'  start {t2}({k2}="{v2}2")']
            if (case.get("via_when") or [False] * len(case["flows"]))[i]:
                lines += deco + [f"flow c{i}"] + prio + wait + [f"  when {act}", "    send WhenDone()", f"  match Never{i}()", ""]
            else:
                lines += deco + [f"flow c{i}"] + prio + wait + [f"  start {act} as $a"] + second + [f"  match Never{i}()", ""]
    if case.get("stop") is not None:
        lines += ['@loop("supervision")', "flow supervisor", "  match Ev()", f'  send StopFlow(flow_id="c{case["stop"]}")', "  match NeverSup()", ""]
    lines.append("flow main")
    for i in range(len(case["flows"])):
        lines.append(f"  start c{i}")
    if case.get("stop") is not None:
        lines.append("  start supervisor")
    lines += ["  match Never()", ""]
    return "\n".join(lines)


def score(f):
    if f["wrong"]:
        return 0.0
    s = 1.0
    s *= 0.9 ** (3 - len(f["mentioned"]))
    if f["priority"]:
        s *= f["priority"]
    return s


def prop(case):
    _ID["typed"] = False
    try:
        return _prop(case)
    except Violation as v:
        if not _spelling_sensitive(case):
            raise
        # the outcome may depend on whether intensity=1 and intensity=1.0 are the same argument value: unspecified, accept the
        # other reading too (applied to the whole case), counted as skipped
        _ID["typed"] = True
        try:
            res = _prop(case)
        except Violation:
            raise v from None
        finally:
            _ID["typed"] = False
        return dict(res, nt=False, skip="1 and 1.0 as argument values of otherwise identical actions were treated as different values (unspecified)")


def _prop(case):
    if case.get("kind") == "instances":
        return _prop_instances(case)
    if case.get("kind") == "structured":
        return _prop_structured(case)
    flows = case["flows"]
    aid = [_aid(f) for f in flows]
    text = program(case)
    smh.install()
    smh.CHOOSER.reset(case["choices"])
    state = smh.init(text)
    grp = [_grp(case, i) for i in range(len(flows))]
    prefed = []
    for i, g in enumerate(grp):
        # and-groups: the other members arrive first (events nobody else waits for), so that the match on Ev completes the group
        for name in (_group_prefeed(g, i) or []) if g else []:
            prefed.append(name)
            if any(_is_start(e) for e in smh.feed(state, smh.ev(name))):
                raise RuntimeError(f"harness: an action was started on the preparatory event {name}")
    smh.CHOOSER.reset(case["choices"])
    out = smh.feed(state, smh.ev("Ev", **PARAMS))
    starts = Counter()
    for e in out:
        if _is_start(e):
            starts[_start_key(e)] += 1
    status = {}
    for fs in state.flow_states.values():
        if fs.flow_id.startswith("c") and fs.flow_id[1:].isdigit():
            status.setdefault(int(fs.flow_id[1:]), []).append(fs.status.value)
    # loop groups
    groups = {}
    for i, f in enumerate(flows):
        key = f["loop"] if f["loop"] != "NEW" else f"NEW{i}"
        groups.setdefault(key or "main", []).append(i)
    chained = bool(case.get("forms"))
    sc = [score(_base(case, i)) for i in range(len(flows))]  # score of the match on the external event
    # a flow that waits with a group: the alternative that matched the event is its `Ev(..)` member, whose score is the score above
    waits = lambda i: (" waits with `" + " / ".join(x.strip() for x in _wait_lines(flows[i], i) if not x.startswith("    ")) + "`") if grp[i] else ""  # noqa: E731
    group_labels = set()
    chains = [_chain(case, i) for i in range(len(flows))] if chained else None
    if chained:
        desc = "; ".join(
            f"c{i}[loop={f['loop'] or 'main'} chain={_chain_desc(case, i)} action={_adesc(f)}{waits(i)}]" for i, f in enumerate(flows)
        ) + " chained (name/await = score of the match on the helper's Finished event, times the priority of the matching flow)"
    else:
        desc = "; ".join(
            f"c{i}[loop={f['loop'] or 'main'} score={score(f):.4g} action={_adesc(f)}{waits(i)}]" for i, f in enumerate(flows)
        ) + (" wrapped" if case["wrapped"] else "")
    if prefed:
        desc += f" | fed before Ev: {', '.join(prefed)}"
    ambiguous = False
    chain_labels = set()
    observed = {i: (status.get(i) or ["missing"])[-1] for i in range(len(flows))}
    for i in observed:
        if len(status.get(i, [])) != 1:
            raise Violation("instances", f"{desc}: flow c{i} has instances {status.get(i)}")
    expected_starts_options = []  # per group: list of (action, winners)
    nt = False
    fitting_groups = 0
    stopped_by_supervisor = case.get("stop")
    if stopped_by_supervisor is not None:
        desc += f" | supervisor stops c{stopped_by_supervisor} on the same event"
        if observed[stopped_by_supervisor] != "stopped":
            raise Violation("stopflow-ignored", f"{desc}: c{stopped_by_supervisor} is {observed[stopped_by_supervisor]}")
    for g, members in groups.items():
        fit = [i for i in members if sc[i] > 0 and i != stopped_by_supervisor]
        for i in members:
            if i not in fit and i != stopped_by_supervisor and observed[i] != "started":
                raise Violation("nonfitting-touched", f"{desc}: c{i} did not fit the event but is {observed[i]}")
        if not fit:
            continue
        fitting_groups += 1
        if chained:
            # documented (more-on-flows.rst, 'Flow Conflict Resolution Prioritization'): the matching scores of the chains are compared
            # from left to right and the winner is determined as soon as one score is higher than the other. The FIRST score of every
            # chain is the match on the external event (0.9^unmentioned x priority, no unknown factor): a flow whose first score is
            # strictly lower than the first score of a competitor cannot win, whatever follows in either chain.
            top_first = max(chains[i][0][0] for i in fit)
            lead = [i for i in fit if chains[i][0][0] >= top_first - 1e-9]
            top_product = _top(_cmp_product, chains, lead)
            top_elementwise = _top(_cmp_elementwise, chains, lead)
            if top_product is not None and top_product == top_elementwise:
                tied = top_product
            else:
                # among the flows with the best first score the statement / documentation do not say who is most specific: any
                # of them may win; if that is everybody only 'exactly one action set proceeds' is checked
                tied = list(lead)
                if len(lead) == len(fit):
                    ambiguous = True
                else:
                    chain_labels.add("chain-winner-among-best-first-match-ambiguous")
            if len(lead) < len(fit) and {aid[i] for i in fit if i not in lead} - {aid[i] for i in lead}:
                chain_labels.add("chain-first-match-decides")
                whole = _top(_cmp_product, chains, fit)
                if whole is None or whole != _top(_cmp_elementwise, chains, fit):
                    # by the product of all scores of the chain a flow with a less specific first match would win (or might, depending
                    # on the score of a Finished-match): left-to-right and product disagree, the documented order decides
                    chain_labels.add("chain-first-match-decides-against-product-of-scores")
            if len({len(chains[i]) for i in fit}) >= 2:
                chain_labels.add("chain-mixed-depth")
            if any(len(chains[i]) < len(chains[j]) and _cmp_elementwise(chains[i], chains[j][: len(chains[i])]) == "=" and aid[i] != aid[j] for i in fit for j in fit):
                chain_labels.add("chain-prefix-of-longer-competitor")
            if any(
                i < j and len(chains[i]) == len(chains[j]) and _cmp(chains[i][0], chains[j][0]) == "=" and _cmp_elementwise(chains[i], chains[j]) in "<>" and aid[i] != aid[j]
                for i in fit
                for j in fit
            ):
                chain_labels.add("differ-only-on-internal-match")
        else:
            top = max(score(flows[i]) for i in fit)
            tied = [i for i in fit if abs(score(flows[i]) - top) <= 1e-9]
        options = []
        for w in tied:
            a = aid[w]
            winners = sorted(i for i in fit if aid[i] == a)
            if (a, winners) not in options:
                options.append((a, winners))
        # which option does the observation correspond to?
        running = sorted(i for i in fit if observed[i] == "started")
        match = [o for o in options if o[1] == running]
        if not match:
            raise Violation(
                "wrong-winners",
                f"{desc}: loop {g}: flows still running {['c%d' % i for i in running]}, statuses {observed}; allowed winner sets {[['c%d' % i for i in o[1]] for o in options]}",
            )
        for i in fit:
            if i not in running and observed[i] != "stopped":
                raise Violation("loser-not-stopped", f"{desc}: loop {g}: losing flow c{i} is {observed[i]}")
        expected_starts_options.append(match[0][0])
        for i in fit:
            if not grp[i]:
                continue
            for j in fit:
                if j == i or aid[i] == aid[j] or abs(sc[i] - sc[j]) <= 1e-9:
                    continue
                # a forked-and-merged head competes with a flow whose match on the event is strictly more / less specific
                other = "group" if grp[j] else "plain-match"
                group_labels.add(f"group-flow-against-more-specific-{other}-competitor" if sc[j] > sc[i] else f"group-flow-against-less-specific-{other}-competitor")
                group_labels.add("group-flow-wins" if i in running else "group-flow-loses")
                if not ambiguous:
                    nt = True
        if chained:
            if not ambiguous and len({aid[i] for i in fit}) >= 2 and (len(tied) < len(fit) or len(options) >= 2):
                nt = True
        elif (len(fit) >= 3 and len({round(score(flows[i]), 9) for i in fit}) >= 2) or len(options) >= 2:
            nt = True
    exp = Counter()
    for a in expected_starts_options:
        exp[_aid_key(a)] += 1
    if exp != starts:
        raise Violation(
            "wrong-actions",
            f"{desc}: started actions { {_key_text(k): v for k, v in starts.items()} }, expected { {_key_text(k): v for k, v in exp.items()} } (each winning action exactly once per loop)",
        )
    if fitting_groups >= 2 and not ambiguous:
        nt = True
    stage2_done = False
    if case.get("stage2") and fitting_groups == 1:
        # round 2: finish the (single, shared) action of round 1
        (g, members), = [(g, m) for g, m in groups.items() if any(score(flows[i]) > 0 for i in m)]
        winners1 = sorted(i for i in members if observed[i] == "started" and score(flows[i]) > 0)
        start_ev = [e for e in out if _is_start(e)]
        if len(start_ev) == 1 and winners1:
            e0 = start_ev[0]
            smh.CHOOSER.reset(case["choices"][::-1])
            out2 = smh.feed(state, smh.ev(e0["type"][5:] + "Finished", action_uid=e0["action_uid"], is_success=True))
            prio = lambda i: flows[i]["priority"] if flows[i]["priority"] else 1.0  # noqa: E731
            top = max(prio(i) for i in winners1)
            tied = [i for i in winners1 if abs(prio(i) - top) <= 1e-9]
            options = []
            for w in tied:
                a2 = case["stage2"][w]
                ws = sorted(i for i in winners1 if case["stage2"][i] == a2)
                if (a2, ws) not in options:
                    options.append((a2, ws))
            status2 = {}
            for fs in state.flow_states.values():
                if fs.flow_id.startswith("c") and fs.flow_id[1:].isdigit():
                    status2[int(fs.flow_id[1:])] = fs.status.value
            running2 = sorted(i for i in winners1 if status2.get(i) == "started")
            match2 = [o for o in options if o[1] == running2]
            d2 = desc + " | round 2 on the shared action's Finished event: " + "; ".join(f"c{i}[priority={prio(i)} action2={ACTIONS[case['stage2'][i]][0][:3]}:{ACTIONS[case['stage2'][i]][2]}2]" for i in winners1)
            if not match2:
                raise Violation("wrong-winners-round2", f"{d2}: still running {['c%d' % i for i in running2]}, allowed winner sets {[['c%d' % i for i in o[1]] for o in options]}")
            starts2 = Counter()
            for e in out2:
                if e["type"].startswith("Start") and e["type"].endswith("BotAction"):
                    typ = e["type"][5:]
                    starts2[(typ, e.get("script" if typ == "UtteranceBotAction" else "gesture"))] += 1
            t2, _, v2 = ACTIONS[match2[0][0]]
            if starts2 != Counter({(t2, v2 + "2"): 1}):
                raise Violation("wrong-actions-round2", f"{d2}: started {dict(starts2)}, expected exactly one {t2}:{v2}2")
            stage2_done = True
            if len(winners1) >= 2:
                nt = True
    when_done = False
    via_when = case.get("via_when") or []
    if any(via_when) and not case.get("stage2") and not case["wrapped"] and not chained:
        # flows that reached their action through `when <Action>` proceed for good: when the action they started or share finishes,
        # their `when` case completes (they must not fail on the Finished event of a shared action)
        started_now = [e for e in out if _is_start(e)]
        keys_now = {_start_key(e) for e in started_now}
        waiting = [i for i in range(len(flows)) if i < len(via_when) and via_when[i] and observed.get(i) == "started" and sc[i] > 0 and i != stopped_by_supervisor and _aid_key(aid[i]) in keys_now]
        if waiting:
            # every started action finishes (one loop may have started the same action as another loop: all of them)
            seen3 = set()
            for e0 in started_now:
                seen3 |= {e["type"] for e in smh.feed(state, smh.ev(e0["type"][5:] + "Finished", action_uid=e0["action_uid"], is_success=True))}
            status3 = {}
            for fs in state.flow_states.values():
                if fs.flow_id.startswith("c") and fs.flow_id[1:].isdigit():
                    status3.setdefault(int(fs.flow_id[1:]), []).append(fs.status.value)
            for i in waiting:
                # (all of them send the identical event WhenDone next, so they all proceed again)
                if "WhenDone" not in seen3 or (status3.get(i) or ["missing"])[-1] != "started":
                    raise Violation(
                        "co-winner-does-not-proceed-after-action-finished",
                        f"{desc}: c{i} started/shared {_key_text(_aid_key(aid[i]))} through `when <Action>` and was still running; after the Finished events of all started actions it is {(status3.get(i) or ['missing'])[-1]} (events {sorted(seen3)})",
                    )
            when_done = True
    labels = [f"n{len(flows)}", f"loops{len(groups)}", "chained" if chained else "wrapped" if case["wrapped"] else "direct"]
    if when_done:
        labels.append("when-action-finished-afterwards")
    if chained:
        labels += sorted(chain_labels)
        links = [link for form in case["forms"] for link in form.get("links", [])]
        labels += [lab for lab, on in [
            ("shared-helper", sum(1 for form in case["forms"] if form["kind"] == "shared") >= 2),
            ("chain-depth3", any(len(form.get("links", [])) == 2 for form in case["forms"])),
            ("link-by-name", any(link["how"] == "name" for link in links)),
            ("link-await", any(link["how"] == "await" for link in links)),
            ("priority-on-internal-match", any(link["priority"] not in (None, 1.0) for link in links)),
            ("chain-winner-ambiguous", ambiguous),
        ] if on]
    if any(grp):
        labels.append("waits-with-group")
        labels += sorted(set().union(*[_group_kinds(g) for g in grp if g]) | group_labels)
        if prefed:
            labels.append("group-and-members-fed-before")
        if any(g and sc[i] == 0 for i, g in enumerate(grp)):
            labels.append("group-flow-does-not-fit")
    if any(_base(case, i)["priority"] not in (None, 1.0) for i in range(len(flows))):
        labels.append("priority")
    if any(_base(case, i)["wrong"] for i in range(len(flows))):
        labels.append("has-nonfitting")
    if smh.CHOOSER.used:
        labels.append("tie-break-used")
    if stage2_done:
        labels.append("round2-on-shared-reference")
    if any(case.get("via_when") or []):
        labels.append("action-behind-head-fork")
    if case.get("stop") is not None:
        labels.append("competitor-stopped-in-same-step")
    if any(len(m) != len({aid[i] for i in m}) for m in groups.values()):
        labels.append("equal-actions")
    labels += _spelling_labels([[flows[i] for i in m if sc[i] > 0 and i != stopped_by_supervisor] for m in groups.values()], flows)
    view = {"flows": desc, "started": {_key_text(k): v for k, v in starts.items()}, "status": {f"c{i}": s for i, s in observed.items()}}
    if ambiguous:
        return ok(nt=False, labels=labels, view=view, skip="chained: the two readings of 'most specific' disagree or depend on the score of a Finished-match")
    return ok(nt=nt, labels=labels, view=view)
