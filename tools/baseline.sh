#!/bin/bash
# Runs the pinned suite with the guard OFF and reports differences from BASELINE.json stable_pass.
cd /repo && env -u NEMO_GUARDRAILS_VERIF /venv/bin/python -m pytest -ra -q -p no:cacheprovider --timeout=900 --continue-on-collection-errors --junitxml=/tmp/vf-baseline.xml >/tmp/vf-baseline.log 2>&1
/venv/bin/python - <<'PY'
import json, xml.etree.ElementTree as ET
base=set(json.load(open('/root/.vp/BASELINE.json'))['stable_pass'])
passed=set()
for tc in ET.parse('/tmp/vf-baseline.xml').getroot().iter('testcase'):
    if not any(c.tag in ('failure','error','skipped') for c in tc):
        passed.add(tc.get('classname')+'::'+tc.get('name'))
missing=sorted(base-passed)
print('baseline stable:',len(base),'passed now:',len(base&passed),'missing:',missing)
PY
rm -f /tmp/vf-baseline.xml
