"""Virtual time for the checks (DESIGN 3.2).

`VirtualLoop` is a real `asyncio.SelectorEventLoop` whose clock is a float owned by the loop: `time()`
returns the virtual time and the selector's `select(timeout)` is wrapped so that, when no file
descriptor is ready, `timeout` is *added to the virtual time* instead of being slept.  Timers
(`asyncio.sleep`, `call_later`, `wait_for`) therefore fire in exactly the order and at exactly the
virtual instants the code under test asked for, a schedule runs in microseconds and is
deterministic.

Two guards turn "never finishes" into exceptions instead of a wall-clock hang:

* `Deadlock`  - the loop is idle (nothing ready, no timer) while the main future is not done: only
                I/O could wake it up and the harness does not do I/O;
* `StepLimit` - more than `max_steps` loop iterations (a task spinning without advancing time).

Both derive from `VirtualTimeError` (an `Exception`; they are raised out of `run_until_complete`).

    loop = VirtualLoop(max_steps=200_000)
    try:
        result = loop.run_until_complete(main())
    finally:
        loop.shutdown()          # cancels what is left, closes the loop (run_cancelled=False after a watchdog)

`FakeDateTime`/`make_fake_datetime(clock)` give the Colang 2 interpreter (`statemachine.datetime`,
`flows.datetime`) a `datetime` class whose `now()` is `BASE + clock()` seconds.
"""
import asyncio
import contextlib
import datetime as _dt
import signal
import threading


class VirtualTimeError(Exception):
    pass


class Deadlock(VirtualTimeError):
    """Nothing is ready, no timer is scheduled, and the awaited future is not done."""


class StepLimit(VirtualTimeError):
    """The loop ran more than `max_steps` iterations (tasks spin without making progress)."""


class Aborted(BaseException):
    """Raised out of the loop after a relayed SIGALRM whose original handler did not raise."""


class VirtualLoop(asyncio.SelectorEventLoop):
    def __init__(self, start=0.0, max_steps=1_000_000, io_grace=0.0):
        super().__init__()
        self._vtime = float(start)
        self._vsteps = 0
        self._vmax_steps = max_steps
        self._vio_grace = io_grace
        self._vabort = None
        self._real_select = self._selector.select
        self._selector.select = self._virtual_select

    # ------------------------------------------------------------------ clock
    def time(self):
        return self._vtime

    @property
    def steps(self):
        return self._vsteps

    def advance(self, seconds):
        """Move the virtual clock forward by hand (timers due are run by the next iteration)."""
        if seconds > 0:
            self._vtime += seconds

    @contextlib.contextmanager
    def alarm_relay(self, interval=0.05):
        """Makes a SIGALRM watchdog effective against tasks that spin *without yielding*.

        asyncio stores a BaseException raised inside a task step in that task and keeps running, so a one-shot
        alarm only kills the first spinning task and the next one spins forever.  While this context is active
        the alarm is re-armed every `interval` seconds (each firing breaks the task that is spinning, through the
        watchdog's own handler) until the loop itself gets control again and re-raises out of run_until_complete.
        """
        old = signal.getsignal(signal.SIGALRM)
        if not callable(old) or threading.current_thread() is not threading.main_thread():
            yield
            return

        def relay(signum, frame):
            self._vabort = (old, signum)
            if self.is_running():
                signal.setitimer(signal.ITIMER_REAL, interval)
            old(signum, frame)

        signal.signal(signal.SIGALRM, relay)
        try:
            yield
        finally:
            if self._vabort:
                signal.setitimer(signal.ITIMER_REAL, 0)
            signal.signal(signal.SIGALRM, old)

    def _virtual_select(self, timeout=None):
        if self._vabort:
            old, signum = self._vabort
            signal.setitimer(signal.ITIMER_REAL, 0)
            old(signum, None)
            raise Aborted()
        self._vsteps += 1
        if self._vmax_steps and self._vsteps > self._vmax_steps:
            raise StepLimit(f"more than {self._vmax_steps} event-loop iterations at virtual time {self._vtime!r}")
        events = self._real_select(0)
        if events:
            return events
        if timeout is None:
            if self._vio_grace:
                events = self._real_select(self._vio_grace)
                if events:
                    return events
            raise Deadlock(f"event loop idle at virtual time {self._vtime!r}: nothing ready and no timer scheduled")
        if timeout > 0:
            target = self._vtime + timeout
            if self._scheduled:
                # t + (when - t) can fall one ulp short of `when`; land exactly on the timer
                when = self._scheduled[0]._when
                if abs(when - target) < 1e-9:
                    target = max(target, when)
            self._vtime = target
        return []

    # ------------------------------------------------------------------ helpers
    def pending_tasks(self):
        return [t for t in asyncio.all_tasks(self) if not t.done()]

    def shutdown(self, run_cancelled=True):
        """Cancel whatever is left, give cancelled tasks a chance to unwind, close the loop.

        Pass run_cancelled=False after a watchdog (BaseException) interrupted the run: a task that spins
        without ever yielding cannot receive its cancellation and would hang the clean-up.
        """
        if self.is_closed():
            return
        try:
            tasks = self.pending_tasks()
            for t in tasks:
                t.cancel()
            if tasks and run_cancelled:
                self._vsteps, self._vmax_steps = 0, 10_000
                try:
                    self.run_until_complete(asyncio.gather(*tasks, return_exceptions=True))
                except BaseException:
                    pass
        finally:
            try:
                self._selector.select = self._real_select
            except Exception:
                pass
            self.close()


def run(coro, max_steps=1_000_000, start=0.0):
    """Runs `coro` on a fresh VirtualLoop; returns (result, virtual end time, loop iterations)."""
    loop = VirtualLoop(start=start, max_steps=max_steps)
    clean = False
    try:
        result = loop.run_until_complete(coro)
        clean = True
        return result, loop.time(), loop.steps
    except Exception:
        clean = True
        raise
    finally:
        loop.shutdown(run_cancelled=clean)


# ---------------------------------------------------------------------------------------------
# fake datetime for the Colang 2 interpreter (DESIGN 2.2)

BASE = _dt.datetime(2024, 1, 1, 12, 0, 0)


class VirtualClock:
    """A float the harness advances explicitly."""

    def __init__(self, start=0.0):
        self.t = float(start)

    def __call__(self):
        return self.t

    def advance(self, seconds):
        self.t += seconds


def make_fake_datetime(clock, base=BASE):
    """Returns a `datetime` subclass whose now()/utcnow() is `base + clock()` seconds.

    Install with `statemachine.datetime = flows.datetime = make_fake_datetime(clock)`.
    """

    class FakeDateTime(_dt.datetime):
        @classmethod
        def now(cls, tz=None):
            d = base + _dt.timedelta(seconds=clock())
            r = cls(d.year, d.month, d.day, d.hour, d.minute, d.second, d.microsecond)
            return r.replace(tzinfo=tz) if tz is not None else r

        @classmethod
        def utcnow(cls):
            return cls.now()

    return FakeDateTime
