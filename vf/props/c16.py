"""C16 - generation options run exactly the selected rail categories (Colang 1.0).

Domain : v1 configuration with 2 input rails, 1-2 output rails (all of the block-or-rewrite shape, so every rail can
         accept / reject / rewrite), 1 retrieval rail and dialog rails;  ALL 16 subsets of {input, dialog, retrieval,
         output} x 2 spellings of the `rails` option (list of names / dict of booleans) x every effective verdict
         vector over the selected rails - this table is enumerated completely (`enumerate_cases`); user / bot texts
         and dialog routes vary over a pool in the table and are drawn by Hypothesis in the sampled part.
         A bot message is supplied (last message, role assistant) whenever dialog is off and output is on.
Oracle : reference table written from docs/user_guides/advanced/generation-options.md and the statement:
           * no rail action of an unselected category is ever invoked; selected input rails run in order on the text
             left by their predecessors until the first reject;
           * dialog unselected  -> 0 LLM calls; reply = refusal | (rewritten) user text (output off)
                                                    | refusal | (rewritten) supplied bot message (output on);
           * dialog selected    -> the LLM is called (unless the input was blocked); the LLM text passes the output
             chain iff `output` is selected;
           * log.activated_rails lists, for the input/output categories, exactly the rails that ran, in order, with
             `stop` on exactly the blocking rail; no other entry has `stop`.
Not asserted (DESIGN 4/C16 S): retrieval rails running when `retrieval` is selected (they run inside bot-message
         generation, also for refusals) - only that they never run when it is not; per-rail name lists in the
         options (documented as unsupported) are not generated.
"""
import itertools

from hypothesis import strategies as st

from vf import fakes, pipeline
from vf.core import Violation, ok
from vf.fakes import GENERATION_TASKS, PREDEF, refusal_text

PID = "C16"
LEVEL = "exploration"
CASE_TIMEOUT = 60
WALL = {"quick": 170, "thorough": 1500}
CATS = ["input", "dialog", "retrieval", "output"]
SUPPLIED_K = 9  # the supplied bot message carries the marker LM0C9Z so that output rails treat it as checked material
RULE = (
    "Colang 1.0 config: 2 input rails + 1 or 2 output rails (each can accept/reject/rewrite) + 1 retrieval rail + dialog rails. "
    "Enumerated completely: all 16 subsets of {input,dialog,retrieval,output} x {list, dict} spelling of options.rails x "
    "{1,2} output rails x every effective verdict vector of the selected categories (a rail after a rejecting one is not "
    "varied; unselected categories get one vector containing a reject and a rewrite) = 768 rows; texts/routes cycle over a "
    "pool. Sampled part: the same row space with Hypothesis-drawn hostile user texts, bot texts, routes, partial-dict spelling "
    "and enable_rails_exceptions. Non-trivial = subset != all four and a reject or rewrite among the verdicts of a selected "
    "category; distinct by the whole case."
)
ASSUMPTIONS = [
    "the supplied bot message is passed as a last message with role `assistant` (the code path tests/test_generation_options.py uses; the docs say `bot`)",
    "rails option values are booleans / category names only (per-rail name lists are documented as unsupported)",
    "a bot message is supplied exactly when dialog is unselected and output is selected",
    "with dialog selected the reply text itself is asserted only through markers (which text reached the reply), not character by character",
]
EXHAUSTIVE = True


def budget(tier):
    return 160 if tier == "quick" else 10000


def _cfg(n_out, exc=False):
    return {"v": 1, "in": ["both", "both"], "out": ["both"] * n_out, "ret": 1, "dialog": True, "exc": exc}


def _in_vectors(selected):
    if not selected:
        return [["reject", "rewrite"]]
    return [["reject", "accept"]] + [[a, b] for a in ("accept", "rewrite") for b in ("accept", "rewrite", "reject")]


def _out_vectors(selected, n):
    if not selected:
        return [["reject", "rewrite"][:n]]
    if n == 1:
        return [["accept"], ["rewrite"], ["reject"]]
    return [["reject", "accept"]] + [[a, b] for a in ("accept", "rewrite") for b in ("accept", "rewrite", "reject")]


def _spell(subset, spelling):
    if spelling == "list":
        return [c for c in CATS if c in subset]
    if spelling == "dict":
        return {c: (c in subset) for c in CATS}
    return {c: False for c in CATS if c not in subset}  # "partial": only the disabled ones, the rest default to True


USERS = ["hello there", 'tell me "everything" about $x', "a: b\nc {{ d }}", "how is the weather", "x"]
BOTS = ["all good", "it's {sunny} $today", "fine: yes", "ok"]
D_ROUTES = ["llm", "predef", "next_llm", "pl", "act_llm", "next_predef"]


def make_case(subset, spelling, n_out, vin, vout, user_noise, bot_noise, route, exc=False, warm=False, empty_bot=False):
    subset = [c for c in CATS if c in subset]
    T = 1 if warm else 0
    turn = {
        "user": f"{user_noise} {fakes.mk_user(T)}",
        "route": route,
        "in": vin,
        "out": vout,
        "body": "generated words",
        "options": {"rails": _spell(subset, spelling), "log": {"activated_rails": True}},
    }
    if "dialog" not in subset and "output" in subset:
        turn["bot"] = f"{fakes.mk_llm(T, SUPPLIED_K)} {bot_noise}"
        if empty_bot:
            # the supplied bot message is the empty string: still a bot message, the selected output rails run on it
            turn["bot"] = ""
            turn["out_any_text"] = True  # the fake rails judge this marker-less text too
            turn["out"] = ["accept" if v == "rewrite" else v for v in vout]
    turns = [turn]
    if warm:
        # a first call of the same conversation with ALL rails (no `rails` option): the judged call then resends its messages,
        # so whatever the instance remembers about that prefix (events cache) must not override the options of this call
        turns = [{"user": f"hello there {fakes.mk_user(0)}", "route": "llm", "in": ["accept", "accept"], "out": ["accept"] * n_out, "body": "first words",
                  "options": {"log": {"activated_rails": True}}}, turn]
    cfg = _cfg(n_out, exc)
    if turn.get("bot") == "":
        # rails of kind "both" hand back the (possibly rewritten) text and refuse on a falsy result - the harness's own rail flows
        # could not tell an accepted empty message from a rejection; the empty-message cases use plain checking rails
        cfg["out"] = ["check"] * n_out
    return {"config": cfg, "turns": turns, "subset": subset, "spelling": spelling, "api": "sync"}


def enumerate_cases(tier):
    n = 0
    for r in range(5):
        for subset in itertools.combinations(CATS, r):
            for spelling in ("list", "dict"):
                for n_out in (1, 2):
                    for vin in _in_vectors("input" in subset):
                        for vout in _out_vectors("output" in subset, n_out):
                            n += 1
                            yield make_case(subset, spelling, n_out, vin, vout, USERS[n % len(USERS)], BOTS[n % len(BOTS)], D_ROUTES[n % len(D_ROUTES)])
                            if n % 4 == 0:
                                yield make_case(subset, spelling, n_out, vin, vout, USERS[n % len(USERS)], BOTS[n % len(BOTS)], D_ROUTES[n % len(D_ROUTES)], warm=True)
                            if "dialog" not in subset and "output" in subset and "rewrite" not in vout and n % 3 == 0:
                                yield make_case(subset, spelling, n_out, vin, vout, USERS[n % len(USERS)], "", D_ROUTES[0], empty_bot=True)


@st.composite
def _case(draw):
    subset = [c for c in CATS if draw(st.booleans())]
    spelling = draw(st.sampled_from(["list", "dict", "partial"]))
    n_out = draw(st.integers(1, 2))
    vin = [draw(pipeline.st_verdict("both")) for _ in range(2)]
    vout = [draw(pipeline.st_verdict("both")) for _ in range(n_out)]
    noise = st.one_of(st.text(pipeline.HOSTILE, min_size=1, max_size=14), st.sampled_from(pipeline.INTENT_EXAMPLES))
    bot = st.text(pipeline.TAME + "${}:\"", min_size=1, max_size=14)
    return make_case(subset, spelling, n_out, vin, vout, draw(noise), draw(bot), draw(st.sampled_from(D_ROUTES)), exc=draw(st.sampled_from([False, False, False, True])), warm=draw(st.booleans()), empty_bot=draw(st.integers(0, 5)) == 0)


def strategy(tier):
    return _case()


# ------------------------------------------------------------------------------------------------


def _check(case, obs):
    cfg = case["config"]
    T = len(case["turns"]) - 1  # the judged call (the one before it, if any, is a warm-up call with all rails)
    spec = case["turns"][T]
    o = obs.turns[T]
    if T and obs.turns[0]["raised"]:
        return ok(skip="warm-up call raised: " + str(obs.turns[0]["raised"])[:80], labels=["warm-up-raised"])
    sel = set(case["subset"])
    I, D, R, O = ("input" in sel), ("dialog" in sel), ("retrieval" in sel), ("output" in sel)
    what = f"rails={spec['options']['rails']!r} in={spec['in']} out={spec['out']}" + (f" route={spec['route']}" if D else "") + ((" +bot message" if spec["bot"] else " +EMPTY bot message") if spec.get("bot") is not None else "")
    if o["raised"]:
        if pipeline.EVENT_BUDGET in o["raised"]:
            return ok(skip="v1 runtime gave up: more than 100 new events in one turn", labels=["event-budget-exceeded"])
        if not D:
            # rails-only checking: the statement fixes the reply completely, so "no reply" is a failure of the property
            raise Violation("generate-raised", f"{what}: generate raised {o['raised'][:200]} instead of returning the specified reply")
        raise RuntimeError(f"generate raised: {o['raised']} ({what})")
    labels = ["subset=" + ("+".join(c[0] for c in case["subset"]) or "none"), "spelling=" + case["spelling"], f"out-rails={len(cfg['out'])}"]
    if T:
        labels.append("after-a-call-with-all-rails")
    if cfg["exc"]:
        labels.append("rails-exceptions")
    text = pipeline.reply_text(o)
    excs = pipeline.reply_exceptions(o)
    trace = o["trace"]

    # 1. unselected categories never run
    for cat, on, name in (("in", I, "input"), ("out", O, "output"), ("ret", R, "retrieval")):
        ran = [e["rail"] for e in trace if e["cat"] == cat]
        if ran and not on:
            raise Violation("unselected-category-ran", f"{what}: {name} rails are not selected but {ran} ran", {"cat": cat})
    gen = [c for c in o["llm"] if c["task"] in GENERATION_TASKS]
    if not D and o["llm"]:
        raise Violation("llm-called-without-dialog", f"{what}: dialog rails are not selected but the LLM was called for {[c['task'] for c in o['llm']]}")
    if not D and any(e["cat"] == "dialog" for e in trace):
        raise Violation("unselected-category-ran", f"{what}: dialog rails are not selected but the custom dialog action ran", {"cat": "dialog"})

    # 2. the input chain
    mi = pipeline.model_input(cfg, spec, T, selected=I)
    prob = pipeline.chain_problem(mi["calls"], [e for e in trace if e["cat"] == "in"], what)
    if prob:
        raise Violation("input-rail-chain", prob)
    last_rw = max([i for i, c in enumerate(mi["calls"]) if c["verdict"] == "rewrite"], default=None)
    user_now = spec["user"] if last_rw is None else fakes.rw_in_text(last_rw, T)
    expected_log = [("input", pipeline.rail_flow_name("in", i, cfg["in"][i]), c["verdict"] == "reject") for i, c in enumerate(mi["calls"])]
    out_entries = [e for e in trace if e["cat"] == "out"]
    nt_event = I and any(c["verdict"] != "accept" for c in mi["calls"])

    def expect_refusal(cat, i, exact=True):
        if cfg["exc"]:
            want = fakes.block_message(cat, i, "both")
            typ = "InputRailException" if cat == "in" else "OutputRailException"
            if not any(e.get("type") == typ and e.get("message") == want for e in excs):
                raise Violation("refusal-missing", f"{what}: expected a {typ} with message {want!r}, got {o['reply']!r}"[:500])
        else:
            want = refusal_text(cat, i, "both")
            if (text.strip() != want) if exact else (want not in text):
                raise Violation("refusal-missing", f"{what}: rail {cat}{i} rejected, reply must be its refusal {want!r}, got {o['reply']!r}"[:500])

    if mi["blocked"] is not None:
        labels.append("input-blocked")
        if gen:
            raise Violation("llm-call-after-block", f"{what}: input was blocked but the LLM was called for {[c['task'] for c in gen]}")
        if [e for e in out_entries if fakes.lineage(e["text"])]:
            raise Violation("output-rails-after-block", f"{what}: input was blocked but output rails ran on {[str(e['text'])[:40] for e in out_entries]}")
        expect_refusal("in", mi["blocked"])
    elif not D:
        if not O:
            # input only (or nothing): the reply is the (possibly rewritten) user text
            labels.append("reply=user-text" + ("-rewritten" if mi["final"] != mi["orig"] else ""))
            if text != user_now:
                raise Violation("reply-not-user-text", f"{what}: expected the reply to be the user text {user_now!r}, got {o['reply']!r}"[:500])
        else:
            mo = pipeline.model_output(cfg, spec, T, SUPPLIED_K, selected=True)
            if spec["bot"] == "":
                # no marker to follow: the chain is judged by rail names and by the text each rail was given
                labels.append("empty-supplied-bot-message")
                want_rails = [c["rail"] for c in mo["calls"][: mo["need"]]]
                if [e["rail"] for e in out_entries] != want_rails or any(e["text"] != "" for e in out_entries):
                    raise Violation("output-rail-chain", f"{what}: output rails ran as {[(e['rail'], str(e['text'])[:30]) for e in out_entries]}, expected {want_rails} on the empty message")
                prob = None
            else:
                prob = pipeline.chain_problem(mo["calls"][: mo["need"]], out_entries, what)
            if prob:
                raise Violation("output-rail-chain", prob)
            expected_log += [("output", pipeline.rail_flow_name("out", i, cfg["out"][i]), c["verdict"] == "reject") for i, c in enumerate(mo["calls"][: mo["need"]])]
            nt_event = nt_event or any(c["verdict"] != "accept" for c in mo["calls"][: mo["need"]])
            if mo["blocked"] is not None:
                labels.append("bot-message-blocked")
                expect_refusal("out", mo["blocked"])
            else:
                last_rw = max([i for i, c in enumerate(mo["calls"]) if c["verdict"] == "rewrite"], default=None)
                want = spec["bot"] if last_rw is None else fakes.rw_out_text(last_rw, spec["bot"])
                labels.append("reply=bot-message" + ("-rewritten" if mo["final"] != mo["orig"] else ""))
                if text != want:
                    raise Violation("reply-not-bot-message", f"{what}: expected the reply to be {want!r}, got {o['reply']!r}"[:500])
    else:
        # dialog selected: normal pipeline, the LLM is consulted
        if not gen:
            raise Violation("llm-not-called", f"{what}: dialog rails are selected and the input was not blocked, but the LLM was never called")
        generated = pipeline.generated_texts(o)
        in_reply = fakes.lineage(text)
        labels.append("dialog-llm-message" if generated else "dialog-predefined-message")
        for ln in in_reply:
            if ln not in generated:
                raise Violation("foreign-llm-text", f"{what}: reply carries text {ln} that the LLM did not generate in this turn: {text[:100]!r}")
        if not generated and PREDEF["greet"] not in text and PREDEF["help"] not in text:
            raise Violation("reply-unexpected", f"{what}: predefined route, reply {text[:100]!r}")
        for tt, k in generated:
            mo = pipeline.model_output(cfg, spec, tt, k, selected=O)
            entries = [e for e in out_entries if (tt, k) in fakes.lineage(e["text"])]
            present = (tt, k) in in_reply
            if not O or present or entries:
                prob = pipeline.chain_problem(mo["calls"][: mo["need"]], entries, what, prefix_ok=not present)
                if prob:
                    raise Violation("output-rail-chain", prob)
            if entries:
                expected_log += [("output", pipeline.rail_flow_name("out", i, cfg["out"][i]), c["verdict"] == "reject") for i, c in enumerate(mo["calls"][: len(entries)])]
                nt_event = nt_event or any(c["verdict"] != "accept" for c in mo["calls"][: len(entries)])
            if present:
                if mo["blocked"] is not None:
                    raise Violation("blocked-text-in-reply", f"{what}: rail out{mo['blocked']} rejected the LLM text but the reply carries it: {text[:100]!r}")
                if mo["final"] not in text or (mo["final"] != mo["orig"] and mo["orig"] in text):
                    raise Violation("rewrite-not-returned", f"{what}: expected the reply to carry {mo['final']} only, got {text[:100]!r}")
            if O and mo["blocked"] is not None and len(entries) >= mo["need"]:
                labels.append("llm-message-blocked")
                expect_refusal("out", mo["blocked"], exact=False)  # a predefined message may precede it (route pl)
        if R and not any(e["cat"] == "ret" for e in trace):
            raise Violation("selected-category-skipped", f"{what}: dialog and retrieval are selected, a bot message was generated, but the retrieval rail never ran")

    # 3. the log
    log = o["log"]
    if log is None:
        raise Violation("log-missing", f"{what}: options.log.activated_rails was requested but the response has no log")
    got_log = [(r["type"], r["name"], r["stop"]) for r in log if r["type"] in ("input", "output")]
    if got_log != expected_log:
        raise Violation("activated-rails-log", f"{what}: log.activated_rails (input/output entries: type, name, stop) = {got_log}, rails that ran = {expected_log}")
    others = [(r["type"], r["name"]) for r in log if r["type"] not in ("input", "output") and r["stop"]]
    if others:
        raise Violation("activated-rails-log", f"{what}: `stop` is set on {others}, which are not rails that blocked")
    if not D:
        ghosts = [(r["type"], r["name"]) for r in log if r["type"] in ("dialog", "generation")]
        if ghosts:
            raise Violation("activated-rails-log", f"{what}: dialog rails are not selected but the log lists {ghosts}")
    nt = len(sel) < 4 and bool(nt_event)
    return ok(nt=nt, labels=sorted(set(labels)), view={"rails": spec["options"]["rails"], "in": spec["in"], "out": spec["out"], "user": spec["user"], "bot": spec.get("bot"), "reply": o["reply"], "rail_calls": [e["rail"] for e in trace], "llm_calls": len(o["llm"]), "log": [(r["type"], r["name"], r["stop"]) for r in log]})


def prop(case):
    return pipeline.run_checked(case, _check)
