#!/bin/bash
# usage: waitfor.sh <anchored-pattern> -- command...
pat=$1; shift; shift
while pgrep -f "$pat" > /dev/null; do sleep 10; done
exec "$@"
