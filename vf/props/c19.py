"""C19 - embedding search returns each query's own embedding under caching and batching.

Domain : the real `BasicEmbeddingsIndex` with a deterministic fake embedding model (registered through
         the public provider registry) on a virtual-time asyncio loop (vf/vclock.py).  A case is pure data:
         batching on/off, max_batch_size, max_batch_hold, cache configuration (off / in_memory or filesystem
         store x md5 or hash keys), the items indexed with add_item/add_items/build, a list of concurrent
         requests (arrival offset, operation, texts - duplicates and empty strings included) and the latency
         of the i-th model call.  Two fifths of the cases have one or two FURTHER indexes in the same process
         (same loop, same engine) with another embedding model - other vectors, for two of the models another
         dimension, for the same texts - and mostly the very same cache configuration; their items are added
         before / between / after those of the first index and their requests interleave with its requests.
         About a third of the cases contain client cancellations: the task of one to three of the requests is
         cancelled a drawn virtual time after the request arrived (hold window / model embedding / after completion).
         Every model spec carries the NUMERIC FORM of its vectors: dyadic (single-precision representable) or doubles
         that are not (k/10, k/3, (b-128)/127.5, around 1e-8, around 1e8, mixed) - a lossy store or batch path shows.
Oracle : every fake model is a pure function `vec(text, model)` (sha256 -> 16 floats for the first index's model;
         sha512 of model name and text -> 8/16/24 floats for the others; the form maps 16 digest bits to a float);
         per index: `vec(text, its model)`, compared with ==.
         Every request must complete
         (no deadlock, no spinning, no exception - the model never raises), vectors handed back by
         `_batch_get_embeddings` / `_get_embeddings` must equal `vec(text)` per text in input order, the
         stored item embeddings must equal `vec(item.text)`, and the public `search(text)` must rank an item
         with the identical text first.  After the last request nothing may be left pending on the loop.
         A request whose task the harness cancelled is exempt from all of this; every other request is not.
"""
import asyncio
import hashlib
import os
import shutil
import tempfile

from hypothesis import strategies as st

from vf import vclock
from vf.core import Violation, ok

PID = "C19"
LEVEL = "exploration"
CASE_TIMEOUT = 5  # cases take milliseconds; a coroutine spinning without yielding can only be stopped by the watchdog
HANG_IS_VIOLATION = True  # "every concurrent request completes"
MAX_STEPS = 200_000  # event-loop iterations per case; the largest seen on the unchanged tree is < 3000
RULE = (
    "case = {use_batching, max_batch_size 1..12, max_batch_hold in {0,0.01,0.5}, cache in {off, in_memory|filesystem x "
    "md5|hash}, items (1-3 chunks for add_item/add_items, then build), 1-40 requests in 1-8 arrival groups (offsets from a "
    "grid with coincidences or arbitrary floats; ops: public search(text), _batch_get_embeddings(text), "
    "_get_embeddings(list with duplicates/empty strings/empty list; in a fifth of the cases one list of 17-129 texts)), latency of the i-th model call in {0..1s}}; texts from a "
    "12-element pool (incl. '', unicode) plus generated ones. Run on a virtual-time loop; the fake model records every batch "
    "(texts, virtual start/end). A small grid of bursts (n simultaneous requests around max_batch_size x latency orders) is "
    "enumerated. In 2/5 of the generated cases 1-2 further indexes exist in the same process (key 'others'): embedding model drawn "
    "from three other fake models of the same engine (different vectors for the same text; dimensions 8/16/24 against 16) or, "
    "rarely, the same model; own batching parameters; cache configuration mostly identical to the first index's (in_memory "
    "store_config is {} for every index; filesystem: own directory per index, shared only between indexes of the same model); "
    "items from the same text pool, chunks of all indexes added in a drawn order (first index first / other first / "
    "interleaved; build after an index's last chunk); every request carries the index it goes to, so requests of the other "
    "indexes arrive before, between and after those of the first one and the same text is embedded through several models. "
    "The oracle is per index (vector == that index's model(text), stored item embeddings, search rank, completion). A grid of "
    "two-index cases (4 cache configurations x 3 other models x 3 set-up orders x batching) is enumerated. Module-level "
    "containers of the embeddings modules are reset to their post-import content before every case. "
    "CLIENT CANCELLATIONS are further events of the schedule (key 'cancels', about a third of the generated cases, 1-3 "
    "victims drawn from all the requests of the case - any index, any operation, any position in its burst): the asyncio "
    "task of request i is cancelled (task.cancel(), what asyncio.wait_for does on a client timeout) `after` virtual seconds "
    "after the request arrived, `after` = fraction {0,1/4,1/2,3/4,1} of the index's hold time + fraction {0..1} of one of the "
    "case's model latencies, or an arbitrary float in 0..0.6: before its batch is submitted (hold window / waiting for room in "
    "a full queue), while the model embeds its batch (for list / non-batched requests the model call itself is cancelled), "
    "or after it completed (no-op), with other requests of the same index waiting that arrived before and/or after the "
    "victim (labels cancel:<phase>:other-requests-waiting:arrived-before/after). Nothing is asserted about a request whose "
    "task was really cancelled; every other request must complete with its own vectors as always, and a CancelledError "
    "surfacing in a request nobody cancelled counts as 'did not complete'. A grid (batch size below/above a burst of "
    "3-4 simultaneous requests x victim position x cancel in the hold window / during the model call / after completion x "
    "op x cache) is enumerated. "
    "NUMERIC FORM of the model's vectors is a dimension of every model spec (case key 'values' for the first index, "
    "others[i].values; absent = dyadic; the engine model name is '<base>~<form>'): dyadic (odd/2^17 - exactly representable in "
    "single precision, 1/4 of the generated cases) or python doubles that single precision cannot hold: tenths k/10, thirds "
    "k/3, (byte-128)/127.5, the dyadic value x 1e-8, x 1e8, and tenths/thirds/bytes/dyadic mixed in one vector (1/8 each); a "
    "further index draws its own form (mostly the first index's; same base model + same form = same model, which may share the "
    "filesystem cache directory of the first index -> a second index on a warm directory). All vectors are compared with == "
    "against the model function (no tolerance). Labels values:<form>, inexact-f32-values+cache:<store|off>, "
    "+cold-cache/+warm-cache:<store> (request text not yet / already cached by add_items), +batched-request, "
    "+second-index-on-warm-cache-dir. A grid (6 inexact forms x 5 cache configurations x batching; list/embed/search requests "
    "on cold and warm texts, twice, through two indexes of the same model sharing the cache directory) is enumerated first. "
    "Non-trivial = at least two model calls in flight at the same time, or a request arrived while the batching "
    "queue was full, or (cache on) a duplicate text inside one model batch / one list request, or a request really "
    "cancelled while another request of the same index was waiting; distinct by case hash."
)
ASSUMPTIONS = [
    "the embedding model never raises and returns lists of finite python floats (doubles, as the API-backed engines deliver "
    "them; not only single-precision representable ones) (DESIGN S: a failing model is out of scope)",
    "'exactly the vector the embedding model gives' is taken literally: == on every component, whatever store/key generator/"
    "batching is configured; vectors around 1e8 / 1e-8 are scaled copies of the dyadic ones so that search() ranking (angular, "
    "single precision inside Annoy) stays as discriminating as before",
    "items are added sequentially before the concurrent phase (concurrent add_items is not part of the statement)",
    "search() is only compared for query texts that are indexed (top result must carry the identical text); Annoy is exact at <= 15 items",
    "schedules are asyncio interleavings at the suspension points of the code (model call, hold timer, events); no OS threads",
    "a client that gives up is an asyncio task cancellation of that one request (search / _batch_get_embeddings / "
    "_get_embeddings task) while it is suspended; the statement's 'every concurrent request completes / gets its own "
    "vector' is asserted for all requests that were NOT cancelled, nothing for the cancelled one (it may raise "
    "CancelledError, complete, or leave a result behind); items are never added under cancellation",
    "each case uses fresh indexes and a fresh filesystem cache directory (no cross-case cache state); module-level containers "
    "(dict/list/set) of nemoguardrails.embeddings.{cache,basic,providers} are put back to their content after import before "
    "each case, so that a case replayed alone sees what it saw in the run",
    "several indexes in one process: each must get its own model's vectors whatever the others do; a persistent (filesystem) "
    "cache directory is never shared by indexes with DIFFERENT models (keys are derived from the text only - pointing two "
    "models at one directory is a configuration the statement does not cover); the in_memory store is configured identically "
    "({}) for every index and must still not leak vectors between indexes",
]
ENGINE = "verif_fake_c19"
DIM = 16
POOL = ["", "a", "b", "ab", "ba", "a b", "A", " a", "hello there", "héllo", "你好", "a" * 40]
HOLDS = [0, 0.01, 0.5]
CACHES = [
    None,
    {"store": "in_memory", "key": "md5"},
    {"store": "in_memory", "key": "hash"},
    {"store": "filesystem", "key": "md5"},
    {"store": "filesystem", "key": "hash"},
]
LATENCIES = [0, 0, 0.001, 0.005, 0.01, 0.02, 0.1, 0.5, 1.0]
OFFSETS = [0, 0, 0, 0.001, 0.005, 0.01, 0.0101, 0.011, 0.02, 0.05, 0.1, 0.5, 0.501, 0.51, 1.0]
WALL = {"quick": 150, "thorough": 1500}


def budget(tier):
    return 12000 if tier == "quick" else 200000


# ---------------------------------------------------------------------------------------------
# the reference: what the model gives for a text


# the fake embedding models of the engine: name -> dimension.  "fake" is the model of the first index; the others
# give DIFFERENT vectors for the same text (the model name is part of the hashed input), two of them with another
# dimension as well
MODELS = {"fake": DIM, "fake-b": 8, "fake-c": 16, "fake-d": 24}


# the NUMERIC FORM of the components a model returns (part of the model's name: "<base>~<form>"; no suffix = dyadic).
# "dyadic" (odd/2^17: exactly representable in single precision - a float32 round trip of the vector is invisible)
# is what every model returned before; the other forms are python doubles that are NOT representable in single
# precision, as the vectors of the API-backed engines (JSON numbers) are: tenths k/10, thirds k/3, (byte-128)/127.5,
# values around 1e-8 and around 1e8 (the dyadic value times 1e-8 / 1e8: the whole vector is scaled, so that its
# direction - what search() ranks by - stays as well spread as the dyadic one), and tenths / thirds / bytes / dyadic
# mixed inside one vector (components of one magnitude: a vector mixing 1e8 with 1e-8 components would be dominated
# by two or three components and search() could not tell texts apart - not what the statement is about).
FORMS = ["dyadic", "tenths", "thirds", "byte127.5", "tiny1e-8", "huge1e8", "mixed"]
_MIX = ["tenths", "thirds", "byte127.5", "dyadic"]


def _component(w, form, i):
    """w: 16 bits of the digest -> one float of the given numeric form"""
    if form == "mixed":
        form = _MIX[i % len(_MIX)]
    x = (w - 32767.5) / 65536.0
    if form == "dyadic":
        return x
    if form == "tenths":
        return (w % 41 - 20) / 10
    if form == "thirds":
        return (w % 61 - 30) / 3
    if form == "byte127.5":
        return ((w >> 8) - 128) / 127.5
    if form == "tiny1e-8":
        return x * 1e-8
    if form == "huge1e8":
        return x * 1e8
    raise KeyError(form)


def model_name(base, form=None):
    return base if not form or form == "dyadic" else f"{base}~{form}"


def _dim(model):
    return MODELS[model.partition("~")[0]]


def vec(text, model="fake"):
    base, _, form = model.partition("~")
    if base == "fake":
        d = hashlib.sha256(text.encode("utf-8", "surrogatepass")).digest()
    else:
        d = hashlib.sha512(base.encode() + b"\0" + text.encode("utf-8", "surrogatepass")).digest()
    return [_component(d[2 * i] << 8 | d[2 * i + 1], form or "dyadic", i) for i in range(MODELS[base])]


def _f32(v):
    import array

    return array.array("f", v).tolist()


# ---------------------------------------------------------------------------------------------
# fake model (the instance is a singleton inside the repo's model cache; per-case state lives in _CTX)


class _Ctx:
    def __init__(self, latencies):
        self.latencies = latencies
        self.calls = []  # {"texts", "t0", "t1", "s0", "s1"}
        self.seq = 0
        self.active = 0
        self.max_active = 0

    def begin(self, documents):
        rec = {"texts": list(documents), "t0": asyncio.get_running_loop().time(), "t1": None, "s0": self.seq, "s1": None}
        self.seq += 1
        self.active += 1
        self.max_active = max(self.max_active, self.active)
        lat = self.latencies[len(self.calls) % len(self.latencies)]
        self.calls.append(rec)
        return rec, lat

    def end(self, rec):
        rec["t1"] = asyncio.get_running_loop().time()
        rec["s1"] = self.seq
        self.seq += 1
        self.active -= 1


_CTX = None
_registered = False
_GLOBALS = []  # (container living at module level of the embeddings package, copy of its content after import)


def _snapshot_globals():
    """Cases must not see each other: whatever the embeddings modules keep in module-level containers (the
    singleton cache of the models, registries, ...) is put back to its content after import before every case, so
    that a case - also one replayed alone - only sees the indexes it creates itself."""
    import sys

    for name in ("nemoguardrails.embeddings.cache", "nemoguardrails.embeddings.basic", "nemoguardrails.embeddings.providers"):
        for obj in vars(sys.modules[name]).values():
            if type(obj) in (dict, list, set) and not any(obj is o for o, _ in _GLOBALS):
                _GLOBALS.append((obj, type(obj)(obj)))


def _restore_globals():
    for obj, content in _GLOBALS:
        if obj != content:
            obj.clear()
            (obj.extend if isinstance(obj, list) else obj.update)(content)


def _register():
    """Imports the package and registers the fake provider (at module import: the import takes seconds and must
    not run under the per-case watchdog)."""
    global _registered
    if _registered:
        return
    import nemoguardrails  # noqa: F401  (the package has to be imported before its embeddings sub-package)
    from nemoguardrails.embeddings.basic import BasicEmbeddingsIndex  # noqa: F401
    from nemoguardrails.embeddings.providers import register_embedding_provider
    from nemoguardrails.embeddings.providers.base import EmbeddingModel

    class FakeModel(EmbeddingModel):
        engine_name = ENGINE

        def __init__(self, embedding_model=None, **kwargs):
            self.model = embedding_model
            self.embedding_size = _dim(embedding_model)

        async def encode_async(self, documents):
            rec, lat = _CTX.begin(documents)
            rec["model"] = self.model
            try:
                await asyncio.sleep(lat)
            except asyncio.CancelledError:
                # the client of a non-batched / list request gave up while the model was embedding
                rec["cancelled"] = True
                _CTX.end(rec)
                raise
            _CTX.end(rec)
            return [vec(t, self.model) for t in rec["texts"]]

        def encode(self, documents):
            return [vec(t, self.model) for t in documents]

    register_embedding_provider(FakeModel, ENGINE)
    _snapshot_globals()
    _registered = True


_register()


def setup_worker():
    _register()


# ---------------------------------------------------------------------------------------------
# generators


@st.composite
def _case(draw):
    use_batching = draw(st.sampled_from([True, True, True, False]))
    mbs = draw(st.sampled_from([1, 1, 2, 2, 3, 3, 4, 5, 6, 7, 8, 9, 10, 11, 12]))
    hold = draw(st.sampled_from(HOLDS))
    cache = draw(st.sampled_from([None] + CACHES))
    # numeric form of the vectors of the first index's model: a quarter dyadic (single-precision representable), the
    # rest doubles that a float32 / lossy round trip through a cache store or a batch would change
    values = draw(st.sampled_from(FORMS[:1] * 2 + FORMS[1:]))
    pool = POOL + draw(st.lists(st.text(max_size=5), max_size=3))
    # a case talks about few different texts so that duplicates and cache hits are frequent
    k = draw(st.integers(1, len(pool)))
    texts = draw(st.lists(st.sampled_from(pool), min_size=k, max_size=k))
    text = st.sampled_from(texts)
    chunks = st.lists(st.lists(text, min_size=1, max_size=5), min_size=1, max_size=3)
    items = draw(chunks)
    # further indexes living in the same process (same loop, same engine) with ANOTHER embedding model: other
    # vectors - and for two of the models another dimension - for the same texts; mostly with the very same cache
    # configuration as the first index.  Their items are added before / between / after the items of the first
    # index (setup_order) and their requests arrive interleaved with the requests of the first index.
    others = []
    if draw(st.integers(0, 4)) < 2:
        for _ in range(draw(st.sampled_from([1, 1, 1, 2]))):
            others.append(
                {
                    "model": draw(st.sampled_from(["fake-b", "fake-b", "fake-c", "fake-c", "fake-d", "fake"])),
                    "use_batching": draw(st.booleans()),
                    "max_batch_size": draw(st.sampled_from([1, 2, 3, mbs, 10])),
                    "max_batch_hold": draw(st.sampled_from(HOLDS)),
                    "cache": draw(st.sampled_from([cache] * 3 + CACHES[1:])) if cache else draw(st.sampled_from(CACHES + CACHES[1:])),
                    "share_cache_dir": draw(st.booleans()),
                    "items": draw(chunks),
                    "values": draw(st.sampled_from([values] * 3 + FORMS)),
                }
            )
    all_items = [items] + [o["items"] for o in others]
    indexed = [[t for chunk in its for t in chunk] for its in all_items]
    qtext = [st.one_of(st.sampled_from(ind), st.sampled_from(ind), text) for ind in indexed]
    which = st.sampled_from([0, 0] + list(range(len(all_items))))
    batching = [use_batching] + [o["use_batching"] for o in others]
    op_b = st.sampled_from(["search"] * 5 + ["embed"] * 5 + ["list"] * 2)
    op_nb = st.sampled_from(["search"] * 4 + ["embed"] * 2 + ["list"] * 5)
    requests = []
    for _ in range(draw(st.integers(1, 8))):
        at = draw(st.one_of(st.sampled_from(OFFSETS), st.sampled_from(OFFSETS), st.floats(0, 1.2).map(lambda x: round(x, 4))))
        burst = draw(st.sampled_from([1, 1, 2, 3, mbs, mbs + 1, 2 * mbs + 1, 14]))
        for _ in range(burst):
            ix = draw(which) if others else 0
            o = draw(op_b if batching[ix] else op_nb)
            if o == "list":
                ts = draw(st.lists(text, min_size=0 if draw(st.integers(0, 9)) == 0 else 1, max_size=6))
            else:
                ts = [draw(qtext[ix])]
            req = {"at": at, "op": o, "texts": ts}
            if ix:
                req["ix"] = ix
            requests.append(req)
    requests = requests[:40]
    if draw(st.integers(0, 4)) == 0:
        # one long list request (size-dependent paths: chunking, paging): many distinct texts with a few duplicates
        n = draw(st.sampled_from([17, 31, 32, 33, 40, 64, 65, 100, 129]))
        m = draw(st.sampled_from([n, n, n - 3, max(2, n // 2)]))
        req = {"at": draw(st.sampled_from(OFFSETS)), "op": "list", "texts": [f"long text {j % m}" for j in range(n)]}
        if others and draw(st.booleans()):
            req["ix"] = draw(st.integers(1, len(others)))
        requests.insert(draw(st.integers(0, len(requests))), req)
    latencies = draw(st.lists(st.sampled_from(LATENCIES), min_size=1, max_size=6))
    # client cancellations as further events of the schedule: the task of a request is cancelled (task.cancel(), what
    # asyncio.wait_for does on a client timeout) `after` virtual seconds after the request arrived - fractions of
    # the hold time plus fractions of a model latency (hold window / model embedding / after completion) or any
    # float.  Victims are drawn from all the requests, so they sit before, between and after the others of a burst.
    cancels = []
    if draw(st.integers(0, 3)) == 0:
        for _ in range(draw(st.sampled_from([1, 1, 1, 2, 3]))):
            i = draw(st.integers(0, len(requests) - 1))
            h = [hold] + [o["max_batch_hold"] for o in others]
            a = draw(st.sampled_from([0, 0, 0.25, 0.5, 0.75, 1])) * h[requests[i].get("ix", 0)]
            b = draw(st.sampled_from([0, 0, 0, 0.25, 0.5, 0.5, 0.75, 1])) * draw(st.sampled_from(latencies))
            after = draw(st.sampled_from([round(a + b, 6)] * 3 + [round(a, 6), round(b, 6), None]))
            if after is None:
                after = draw(st.floats(0, 0.6).map(lambda x: round(x, 4)))
            if not any(c["req"] == i for c in cancels):
                cancels.append({"req": i, "after": after})
    case = {
        "use_batching": use_batching,
        "max_batch_size": mbs,
        "max_batch_hold": hold,
        "cache": cache,
        "items": items,
        "requests": requests,
        "latencies": latencies,
    }
    if values != "dyadic":
        case["values"] = values
    if cancels:
        case["cancels"] = cancels
    if others:
        case["others"] = others
        # whose chunk of items is added next (an index is built right after its last chunk)
        owners = [k for k, its in enumerate(all_items) for _ in its]
        case["setup_order"] = draw(st.one_of(st.just(sorted(owners)), st.just(sorted(owners, reverse=True)), st.permutations(owners)))
    return case


def strategy(tier):
    return _case()


def enumerate_cases(tier):
    # numeric form of the model's vectors x cache configuration x batching: every operation on a cold cache (texts
    # first seen in a request), on a warm one (texts cached by add_items / by an earlier request) and from a second
    # index of the same model (filesystem: on the same, already filled cache directory)
    for form in FORMS[1:]:
        for cache in CACHES:
            for batching in (False, True):
                requests = []
                for j, (op, ts) in enumerate(
                    (("list", ["b", "zz", "", "b"]), ("embed", ["zz"]), ("search", ["a"]), ("embed", ["yy"]), ("list", ["yy", "a", "xx"]), ("search", ["ab"]), ("embed", ["xx"]))
                ):
                    for ix in (0, 1):
                        req = {"at": 0.1 * j if j < 4 else 0.4, "op": op, "texts": ts}
                        if ix:
                            req["ix"] = ix
                        requests.append(req)
                yield {
                    "use_batching": batching,
                    "max_batch_size": 3,
                    "max_batch_hold": 0.01,
                    "cache": cache,
                    "values": form,
                    "items": [["a", "b"], ["ab"]],
                    "others": [
                        {"model": "fake", "values": form, "use_batching": batching, "max_batch_size": 2, "max_batch_hold": 0.01, "cache": cache, "share_cache_dir": True, "items": [["b", "a"], ["ab", ""]]}
                    ],
                    "setup_order": [0, 0, 1, 1],
                    "requests": requests,
                    "latencies": [0, 0.01, 0],
                }
    # bursts of n simultaneous single-text requests around the batch size, for every cache configuration
    for mbs in (1, 2, 3):
        for hold in HOLDS:
            for cache in CACHES:
                for n in (1, mbs, mbs + 1, 2 * mbs + 1):
                    for lat in ([0], [0, 0.5, 0], [0, 0, 0.5], [0, 0.02, 0.01]):
                        texts = [POOL[i % 5] for i in range(n)]
                        for op in ("embed", "search"):
                            yield {
                                "use_batching": True,
                                "max_batch_size": mbs,
                                "max_batch_hold": hold,
                                "cache": cache,
                                "items": [POOL[:5]] if op == "search" else [POOL[:2]],
                                "requests": [{"at": 0, "op": op, "texts": [t]} for t in texts],
                                "latencies": lat,
                            }
    # list requests with duplicates through the cache decorator, some texts already cached by add_items
    for cache in CACHES:
        for ts in (["a", "a"], ["b", "a", "b"], ["", "zz", ""], ["zz", "a", "zz", "b", "a"], []):
            yield {
                "use_batching": False,
                "max_batch_size": 10,
                "max_batch_hold": 0.01,
                "cache": cache,
                "items": [["a", "b"], [""]],
                "requests": [{"at": 0, "op": "list", "texts": ts}, {"at": 0, "op": "list", "texts": list(reversed(ts))}],
                "latencies": [0, 0.01, 0],
            }
    # two indexes with different embedding models and the same cache configuration working on the same texts:
    # set-up order x other model x (batching) x cache; every operation on both indexes, alternating in time
    for cache in CACHES[1:]:
        for model in ("fake-b", "fake-c", "fake-d"):
            for order in ([0, 0, 1, 1], [1, 1, 0, 0], [0, 1, 1, 0]):
                for batching in (False, True):
                    requests = []
                    for j, (op, ts) in enumerate((("search", ["a"]), ("embed", ["zz"]), ("list", ["b", "zz", ""]), ("search", ["ab"]), ("embed", ["a"]))):
                        for ix in (0, 1) if j % 2 == 0 else (1, 0):
                            req = {"at": 0.1 * j, "op": op, "texts": ts}
                            if ix:
                                req["ix"] = ix
                            requests.append(req)
                    yield {
                        "use_batching": batching,
                        "max_batch_size": 2,
                        "max_batch_hold": 0.01,
                        "cache": cache,
                        "items": [["a", "b"], ["ab"]],
                        "others": [
                            {"model": model, "use_batching": batching, "max_batch_size": 2, "max_batch_hold": 0.01, "cache": cache, "share_cache_dir": False, "items": [["b", "a"], ["ab", ""]]}
                        ],
                        "setup_order": order,
                        "requests": requests,
                        "latencies": [0, 0.01, 0],
                    }
    # one client gives up: n simultaneous single-text requests, the g-th one is cancelled while the batch still
    # collects requests (hold window), while the model embeds the batch, and after everything completed; batch
    # size below / above the burst, with and without cache
    for mbs, n in ((10, 4), (2, 4), (3, 3)):
        for cache in (None, CACHES[1], CACHES[3]):
            for op in ("embed", "search"):
                for g in range(n):
                    for after in (0.0025, 0.03, 0.5):
                        yield {
                            "use_batching": True,
                            "max_batch_size": mbs,
                            "max_batch_hold": 0.01,
                            "cache": cache,
                            "items": [POOL[:5]],
                            "requests": [{"at": 0, "op": op, "texts": [POOL[i] if op == "search" else f"q{i}"]} for i in range(n)],
                            "cancels": [{"req": g, "after": after}],
                            "latencies": [0, 0.05],
                        }


# ---------------------------------------------------------------------------------------------


def _own_frame(exc):
    tb = exc.__traceback__
    last = None
    while tb is not None:
        last = tb.tb_frame.f_code.co_filename
        tb = tb.tb_next
    return last is not None and os.path.abspath(last) == os.path.abspath(__file__)


async def _request(index, i, req, out, flags):
    await asyncio.sleep(req["at"])
    op, texts = req["op"], req["texts"]
    flags["started"][i] = len(flags["started"])
    flags["started_at"][i] = asyncio.get_running_loop().time()
    if i in flags["give_up"]:
        flags["give_up"][i]()
    if index.use_batching and op != "list":
        q = getattr(index, "_req_queue", None)
        if q is not None and len(q) >= index.max_batch_size:
            flags["queue_full_arrivals"] += 1
    try:
        if op == "search":
            res = await index.search(texts[0])
            out[i] = ("search", [getattr(r, "text", r) for r in res])
        elif op == "embed" and index.use_batching:
            out[i] = ("vec", [await index._batch_get_embeddings(texts[0])])
        else:
            out[i] = ("vec", await index._get_embeddings(list(texts)))
    except asyncio.CancelledError:
        if i in flags["cancelled"] or flags["stage"] != "requests":
            raise  # the harness cancelled this request (client gave up) or is shutting the loop down
        # nobody cancelled THIS request: it was dragged along by somebody else's cancellation
        out[i] = ("raised", "CancelledError although this request was not cancelled")
    except Exception as e:  # the model never raises: an exception means the request did not complete
        if _own_frame(e):
            raise
        out[i] = ("raised", f"{type(e).__name__}: {e}")
    flags["done_at"][i] = asyncio.get_running_loop().time()


def _specs(case):
    """The indexes of a case: the first one (top-level keys, model "fake") and the optional further ones."""
    first = {k: case[k] for k in ("use_batching", "max_batch_size", "max_batch_hold", "cache", "items")}
    first["model"] = model_name("fake", case.get("values"))
    return [first] + [dict(o, model=model_name(o["model"], o.get("values"))) for o in case.get("others") or []]


async def _main(indexes, specs, case, out, flags):
    from nemoguardrails.embeddings.index import IndexItem

    order = case.get("setup_order") or [k for k, s in enumerate(specs) for _ in s["items"]]
    nxt = [0] * len(specs)
    for k in order:
        index, chunk = indexes[k], specs[k]["items"][nxt[k]]
        nxt[k] += 1
        flags["added"][k].extend(chunk)
        if len(chunk) == 1:
            await index.add_item(IndexItem(text=chunk[0], meta={"n": 0}))
        else:
            await index.add_items([IndexItem(text=t, meta={"n": j}) for j, t in enumerate(chunk)])
        if nxt[k] == len(specs[k]["items"]):
            await index.build()
    flags["setup_calls"] = len(_CTX.calls)
    flags["stage"] = "requests"
    reqs = case["requests"]

    async def give_up(c):
        # started by the request when it arrives: its client gives up `after` seconds later
        i = c["req"]
        await asyncio.sleep(c["after"])
        k = reqs[i].get("ix", 0)
        started, done = flags["started"], flags["done_at"]
        waiting = [j for j in started if j != i and j not in done and j not in flags["cancelled"] and reqs[j].get("ix", 0) == k]
        rec = {"req": i, "t": asyncio.get_running_loop().time(), "effective": False, "before": False, "after": False}
        if tasks[i].done():
            rec["phase"] = "after-completion"
        else:
            # a batched request waits first for its batch to be submitted (queue full / hold window), then for the
            # model; a list or non-batched request only for the model
            batched = specs[k]["use_batching"] and reqs[i]["op"] != "list"
            busy = batched and any(
                cl["t1"] is None and cl.get("model") == specs[k]["model"] and cl["t0"] >= flags["started_at"][i] and reqs[i]["texts"][0] in cl["texts"]
                for cl in _CTX.calls
            )
            rec["phase"] = "while-model-embeds" if busy or not batched else "before-batch-submitted"
            rec["before"] = any(started[j] < started[i] for j in waiting)
            rec["after"] = any(started[j] > started[i] for j in waiting)
            flags["cancelled"].add(i)
            rec["effective"] = bool(tasks[i].cancel())
        flags["cancel_log"].append(rec)

    flags["give_up"] = {c["req"]: (lambda c=c: cancellers.append((c, asyncio.ensure_future(give_up(c))))) for c in case.get("cancels") or []}
    cancellers = []
    tasks = [asyncio.ensure_future(_request(indexes[r.get("ix", 0)], i, r, out, flags)) for i, r in enumerate(reqs)]
    results = await asyncio.gather(*tasks, return_exceptions=True)
    for _, t in cancellers:
        if not t.done():  # the request completed before its client would have given up
            t.cancel()
    for (c, _), t in zip(cancellers, await asyncio.gather(*(t for _, t in cancellers), return_exceptions=True)):
        if isinstance(t, asyncio.CancelledError):
            flags["cancel_log"].append({"req": c["req"], "t": None, "effective": False, "before": False, "after": False, "phase": "after-completion"})
        elif isinstance(t, BaseException):
            raise t
    for i, res in enumerate(results):
        if isinstance(res, BaseException) and not (isinstance(res, asyncio.CancelledError) and i in flags["cancelled"]):
            raise res
    flags["stage"] = "drain"
    # let cancelled helper tasks unwind and every timer the indexes may still own expire
    await asyncio.sleep(max(s["max_batch_hold"] for s in specs) + max(case["latencies"]) + 1.0)
    me = asyncio.current_task()
    flags["left"] = [repr(t.get_coro()) for t in asyncio.all_tasks() if t is not me and not t.done()]


def _check_items(indexes, specs, flags, cfgs, partial=False):
    """stored item embeddings belong to their items (for the items handed to add_item/add_items so far; `partial`:
    after an exception during the set-up only the embeddings that were stored are compared)"""
    for k, index in enumerate(indexes):
        stored = [list(map(float, e)) for e in index._embeddings]
        added = flags["added"][k][: len(stored)] if partial else flags["added"][k]
        exp = [vec(t, specs[k]["model"]) for t in added]
        if stored != exp:
            bad = [i for i, t in enumerate(added) if i >= len(stored) or stored[i] != exp[i]]
            dims = sorted({len(e) for e in stored})
            raise Violation(
                "item-embedding",
                f"{cfgs[k]}: items {added!r}: stored embedding of item(s) {bad} is not the model's vector"
                + (f" (stored dimensions {dims}, the model's is {_dim(specs[k]['model'])})" if dims != [_dim(specs[k]["model"])] else "")
                + "".join(f" (item {i}: stored {stored[i]!r:.60}.., model gives {exp[i]!r:.60}..)" for i in bad[:1] if i < len(stored))
                + (" - the stored vectors equal the model's after rounding to single precision" if bad and all(i < len(stored) and stored[i] == _f32(exp[i]) for i in bad) else ""),
            )


def prop(case):
    global _CTX
    _register()
    from nemoguardrails.embeddings import providers
    from nemoguardrails.embeddings.basic import BasicEmbeddingsIndex

    _restore_globals()
    specs = _specs(case)
    multi = len(specs) > 1
    tmp = None
    cache_configs, cfgs = [], []
    for k, s in enumerate(specs):
        cache = s["cache"]
        if cache is None:
            cache_configs.append(None)
        else:
            store_config = {}
            if cache["store"] == "filesystem":
                tmp = tmp or tempfile.mkdtemp(prefix="vf-c19-")
                # every index has its own cache directory; only an index with the model of the first one may share
                # the first one's directory (a persistent store shared by two different models is not generated)
                own = not (k and s.get("share_cache_dir") and s["model"] == specs[0]["model"] and (specs[0]["cache"] or {}).get("store") == "filesystem")
                store_config = {"cache_dir": os.path.join(tmp, f"emb{k}" if own and k else "emb")}
            cache_configs.append({"enabled": True, "key_generator": cache["key"], "store": cache["store"], "store_config": store_config})
        cfgs.append(
            (f"index #{k} model={s['model']} " if multi else "")
            + f"batching={s['use_batching']} max_batch_size={s['max_batch_size']} hold={s['max_batch_hold']} "
            f"cache={cache and cache['store'] + '/' + cache['key']} latencies={case['latencies']}"
        )
    cfg = cfgs[0]
    _CTX = _Ctx(case["latencies"])
    loop = vclock.VirtualLoop(max_steps=MAX_STEPS)
    asyncio.set_event_loop(loop)
    out, flags = {}, {"queue_full_arrivals": 0, "done_at": {}, "stage": "setup", "left": [], "added": [[] for _ in specs]}
    flags.update({"started": {}, "started_at": {}, "cancelled": set(), "cancel_log": []})
    interrupted = True
    try:
        indexes = [
            BasicEmbeddingsIndex(
                embedding_model=s["model"],
                embedding_engine=ENGINE,
                cache_config=cache_configs[k],
                use_batching=s["use_batching"],
                max_batch_size=s["max_batch_size"],
                max_batch_hold=s["max_batch_hold"],
            )
            for k, s in enumerate(specs)
        ]
        try:
            with loop.alarm_relay():
                loop.run_until_complete(_main(indexes, specs, case, out, flags))
            interrupted = False
        except vclock.VirtualTimeError as e:
            interrupted = False
            if flags["stage"] == "setup":
                raise  # sequential add_items/build cannot deadlock unless the harness is wrong
            missing = [i for i in range(len(case["requests"])) if i not in out and i not in flags["cancelled"]]
            kind = "deadlock" if isinstance(e, vclock.Deadlock) else "livelock"
            raise Violation(
                kind,
                f"{cfg}: requests {missing[:8]} of {len(case['requests'])} never completed "
                f"(first: {case['requests'][missing[0]] if missing else None})"
                + (f" after the client of request(s) {sorted(flags['cancelled'])} gave up (cancel log {flags['cancel_log']})" if flags["cancelled"] else "")
                + f"; {e}",
            )
        except Exception:
            interrupted = False
            if flags["stage"] == "setup":
                # add_item/add_items/build broke: a violation only if an embedding stored so far is not the model's
                # vector (e.g. build() refusing vectors of mixed dimensions); anything else is the harness' fault
                _check_items(indexes, specs, flags, cfgs, partial=True)
            raise
        calls = _CTX.calls
        _check_items(indexes, specs, flags, cfgs)
        all_texts = sorted({t for s in specs for chunk in s["items"] for t in chunk} | {x for r in case["requests"] for x in r["texts"]})
        for i, req in enumerate(case["requests"]):
            if i in flags["cancelled"]:
                continue  # the client gave up: nothing is promised to (or asserted about) this request
            kind, val = out[i]
            k = req.get("ix", 0)
            model = specs[k]["model"]
            indexed = flags["added"][k]
            what = f"{cfgs[k]}: request #{i} {req['op']}({req['texts']!r}) at t+{req['at']}"
            if flags["cancelled"]:
                what += f" [client of request(s) {sorted(flags['cancelled'])} gave up: {flags['cancel_log']}]"
            if kind == "raised":
                raise Violation("request-raised", f"{what} did not complete: {val}")
            if kind == "vec":
                exp = [vec(t, model) for t in req["texts"]]
                got = val
                if not isinstance(got, list) or len(got) != len(exp):
                    raise Violation("wrong-count", f"{what}: {len(exp)} texts but {len(got) if isinstance(got, list) else got!r} results")
                for j, (g, e) in enumerate(zip(got, exp)):
                    if g is None or list(g) != e:
                        owner = [(t, m) for m in sorted({s["model"] for s in specs}) for t in all_texts if g is not None and list(g) == vec(t, m)]
                        raise Violation(
                            "wrong-embedding",
                            f"{what}: result {j} for text {req['texts'][j]!r} is "
                            + (f"the embedding of {owner[0][0]!r}" + (f" by model {owner[0][1]!r}" if multi else "") if owner else f"{g!r:.80}")
                            + (f" (the model gives {e!r:.80}; equal after rounding to single precision)" if g is not None and not owner and list(g) == _f32(e) else "")
                            + "; model batches: "
                            + repr([c["texts"] for c in calls[flags["setup_calls"]:]])[:300],
                        )
            else:
                q = req["texts"][0]
                if q in indexed:
                    if not val or val[0] != q:
                        raise Violation("search-rank", f"{what}: items {indexed!r}; top results {val[:3]!r}, expected {q!r} first")
        if flags["left"]:
            raise Violation("pending-task", f"{cfg}: after all requests completed and timers expired still pending: {flags['left'][:3]}")
    except Exception:
        interrupted = False
        raise
    finally:
        # after the watchdog (a BaseException) cancelled tasks must not be run: a task spinning without
        # yielding would hang the clean-up
        loop.shutdown(run_cancelled=not interrupted)
        asyncio.set_event_loop(None)
        for m in [m for m in providers._embedding_model_cache if m.startswith(ENGINE + "-")]:
            providers._embedding_model_cache.pop(m, None)
        if tmp:
            shutil.rmtree(tmp, ignore_errors=True)

    cache = case["cache"]
    req_calls = calls[flags["setup_calls"]:]
    inflight = 0
    events = sorted([(c["s0"], 1) for c in req_calls] + [(c["s1"], -1) for c in req_calls])
    cur = 0
    for _, d in events:
        cur += d
        inflight = max(inflight, cur)
    dup_batch = any(s["cache"] for s in specs) and (
        any(len(set(c["texts"])) < len(c["texts"]) and any(s["cache"] for s in specs if s["model"] == c["model"]) for c in calls)
        or any(r["op"] == "list" and len(set(r["texts"])) < len(r["texts"]) and specs[r.get("ix", 0)]["cache"] for r in case["requests"])
    )
    qfull = flags["queue_full_arrivals"] > 0
    clog = flags["cancel_log"]
    cancel_nt = any(c["effective"] and (c["before"] or c["after"]) for c in clog)
    nt = inflight >= 2 or qfull or dup_batch or cancel_nt
    n = len(case["requests"])
    labels = [
        "batching" if case["use_batching"] else "no-batching",
        "cache:" + (cache["store"] + "/" + cache["key"] if cache else "off"),
        "requests:" + ("1" if n == 1 else "2-5" if n <= 5 else "6-15" if n <= 15 else "16-40"),
        "model-calls:" + ("0" if not req_calls else "1" if len(req_calls) == 1 else "2-4" if len(req_calls) <= 4 else "5+"),
    ]
    # numeric form of the models' vectors, and which cache store / path / batching the inexact ones went through
    forms = [(s["model"].partition("~")[2] or "dyadic") for s in specs]
    for f in sorted(set(forms)):
        labels.append("values:" + f)
    for k, s in enumerate(specs):
        if forms[k] == "dyadic":
            continue
        c = s["cache"]
        labels.append("inexact-f32-values+cache:" + (c["store"] if c else "off"))
        mine = [r for r in case["requests"] if r.get("ix", 0) == k]
        if s["use_batching"] and any(r["op"] != "list" for r in mine):
            labels.append("inexact-f32-values+batched-request")
        if c:
            seen_before = set(flags["added"][k])
            if any(t in seen_before for r in mine for t in r["texts"]):
                labels.append(f"inexact-f32-values+warm-cache:{c['store']}")
            if any(t not in seen_before for r in mine for t in r["texts"]):
                labels.append(f"inexact-f32-values+cold-cache:{c['store']}")
            if k and c["store"] == "filesystem" and s.get("share_cache_dir") and s["model"] == specs[0]["model"] and specs[0]["cache"] and specs[0]["cache"]["store"] == "filesystem":
                labels.append("inexact-f32-values+second-index-on-warm-cache-dir")
    labels = sorted(set(labels), key=labels.index)
    if inflight >= 2:
        labels.append("inflight>=2")
    if inflight >= 3:
        labels.append("inflight>=3")
    if qfull:
        labels.append("queue-full-arrival")
    if dup_batch:
        labels.append("dup-in-batch+cache")
    if any(r["op"] == "search" for r in case["requests"]):
        labels.append("op:search")
    if any("" in r["texts"] for r in case["requests"]):
        labels.append("empty-string")
    # batches completing in a different order than they were submitted
    ends = [c["s1"] for c in req_calls]
    if ends != sorted(ends):
        labels.append("out-of-order-completion")
    if any(len(r["texts"]) > 16 for r in case["requests"]):
        labels.append("long-list-request")
    if clog:
        labels.append("cancellation")
        if sum(c["effective"] for c in clog) >= 2:
            labels.append("cancel:2+requests")
        for c in clog:
            labels.append("cancel:" + c["phase"])
            if c["effective"]:
                r = case["requests"][c["req"]]
                batched = specs[r.get("ix", 0)]["use_batching"] and r["op"] != "list"
                labels.append("cancel:batched-request" if batched else "cancel:unbatched-or-list-request")
                w = "+".join(x for x in ("before", "after") if c[x])
                labels.append(f"cancel:{c['phase']}:other-requests-waiting:" + (("arrived-" + w) if w else "none"))
        labels = sorted(set(labels), key=labels.index)
    if multi:
        labels.append(f"indexes:{len(specs)}")
        # what each index embedded (items and requests), to see how often two models met on the same text / cache
        seen = [set(flags["added"][k]) for k in range(len(specs))]
        for r in case["requests"]:
            seen[r.get("ix", 0)].update(r["texts"])
        pairs = [(a, b) for a in range(len(specs)) for b in range(a + 1, len(specs)) if specs[a]["model"] != specs[b]["model"]]
        if pairs:
            labels.append("other-model")
        if any(_dim(specs[a]["model"]) != _dim(specs[b]["model"]) for a, b in pairs):
            labels.append("other-model:other-dimension")
        same_text = [(a, b) for a, b in pairs if seen[a] & seen[b]]
        if same_text:
            labels.append("same-text-two-models")
        for store in ("in_memory", "filesystem"):
            if any(specs[a]["cache"] and specs[a]["cache"] == specs[b]["cache"] and specs[a]["cache"]["store"] == store for a, b in same_text):
                labels.append(f"same-text-two-models+same-cache-config:{store}")
        order = case.get("setup_order") or []
        if order and order[0] != 0:
            labels.append("other-index-set-up-first")
        if order and order != sorted(order) and order != sorted(order, reverse=True):
            labels.append("setup-interleaved")
        ixs = [r.get("ix", 0) for r in sorted(case["requests"], key=lambda r: r["at"])]
        if 0 in ixs and any(ixs[ixs.index(0) : len(ixs) - ixs[::-1].index(0)]):
            labels.append("other-index-request-between-first-index-requests")
        if any(c.get("model") != req_calls[0].get("model") for c in req_calls):
            labels.append("model-calls-of-two-models")
    view = {
        "config": cfg,
        "items": case["items"],
        "requests": [f"t+{r['at']} {r['op']} {r['texts']!r}" + (f" @index#{r['ix']}" if r.get("ix") else "") for r in case["requests"][:12]],
        "model_batches": [{"texts": c["texts"], "t0": c["t0"], "t1": c["t1"]} for c in req_calls[:10]],
        "max_in_flight": inflight,
        "queue_full_arrivals": flags["queue_full_arrivals"],
        "loop_iterations": loop.steps,
    }
    if clog:
        view["cancellations"] = clog
    if multi:
        view["other_indexes"] = [{"config": cfgs[k], "items": specs[k]["items"]} for k in range(1, len(specs))]
        view["setup_order"] = case.get("setup_order")
    return ok(nt=nt, labels=labels, view=view, counters={"model_calls": len(calls), "requests": n, "loop_iterations": loop.steps})
