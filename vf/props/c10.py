"""C10 - event processing terminates and a faulty flow fails alone.

Domain : generated helper flows (vf/co2.py) under a fixed `main` that only starts/activates them, plus
         (a) ONE injected erroneous statement at an enumerated position of one helper (bad expression, bad subscript,
             undefined reference, invalid regex pattern, type-mismatching comparison pattern, surplus flow arguments,
             out-of-range priority, wrong action argument type), preceded by the marker `send Reached()`;
         (b) activated flows that finish / return / abort / raise before their first waiting statement;
         (c) two canary flows (same interaction loop as main / a loop of their own) and a ColangError watcher.
         Histories mix alphabet events, action life-cycle events and the canary event EvC.
Oracle : termination = deterministic step budget (wrappers on the interpreter's per-internal-event and per-slide entry
         points) + confirmed watchdog; isolation = through the real RuntimeV2_x.process_events no exception escapes, after
         every EvC each canary emitted exactly one marker, a reached fault is reported by a ColangError event seen by the
         watcher flow, and the C09 invariants still hold.
"""
import asyncio

from hypothesis import strategies as st

from vf import co2, smh
from vf.core import Violation, ok

PID = "C10"
LEVEL = "fault_enumeration"
CASE_TIMEOUT = 20
HANG_IS_VIOLATION = True
RULE = (
    "helpers h0..h3 from the co2 grammar; main = activate canary, canary2 (@loop), watcher, 0-2 immediate flows (finish|return|abort|raise "
    "before any wait), then start/activate every parameterless helper, then `match Never()`; fault = (helper, top-level position, kind) with kind "
    "in {add-str, subscript, undefined-attr, bad-regex-match (alone / with a child flow waiting for the same event / inside an or- or and-group), bad-compare-match, surplus-args, priority-range, action-arg-type, none}; for each generated "
    "program the quick tier draws the position, `enumerate_cases` walks every position x kind for a fixed family of programs; history of <=16 items "
    "incl. EvC. Non-trivial = the fault position was reached (marker `Reached` seen, or a head was parked on the faulty match when EvC arrived) or an "
    "immediate activated flow of kind abort/raise is present; distinct by case."
)
ASSUMPTIONS = [
    "step budget = max(2000, 200 x source lines) interpreter steps (internal events processed + slides) per fed event; the order of magnitude of the largest per-event count is reported in the class histogram (steps<=N)",
    "main never awaits a helper, so a failing helper cannot legitimately take the canaries down with it",
    "no generated flow other than the injected faulty match listens to the canary event EvC, so a canary can never legitimately lose an action conflict",
]
WALL = {"quick": 170, "thorough": 1500}

FAULTS = {
    "add-str": '$z = 1 + "a"',
    "subscript": '$z = {"a": 1}["nokey"]',
    "undefined-attr": "send Probe(p=$undefinedvar.attr)",
    "bad-regex-match": 'match EvC(v=regex("("))',
    "bad-compare-match": 'match EvC(v=less_than("x"))',
    "surplus-args": "await hlast 1 2 3 4 5",
    "priority-range": "priority 7.0",
    "action-arg-type": "await UtteranceBotAction(script=None)",
    # the erroneous match has a relative (child flow / sibling head) waiting for the same event name
    "bad-regex-match-with-child": 'start evcchild\nmatch EvC(v=regex("("))',
    "bad-regex-match-or-group": 'match EvC(v=regex("(")) or EvC(v="other")',
    "bad-regex-match-and-group": 'match EvC(v=regex("(")) and EvC()',
}
MATCH_FAULTS = ("bad-regex-match", "bad-compare-match", "bad-regex-match-with-child", "bad-regex-match-or-group", "bad-regex-match-and-group")
IMMEDIATE = {
    "finish": ["send ImmOut()"],
    "return": ["return"],
    "abort": ["abort"],
    "raise": ['$z = 1 + "a"'],
    # failing after an action statement but before the first wait (the flow is advanced twice while still starting)
    "act-raise": ['start GestureBotAction(gesture="pre")', '$z = 1 + "a"'],
    "act-abort": ['start GestureBotAction(gesture="pre")', "abort"],
    "send-raise": ["send ImmOut()", '$z = 1 + "a"'],
    # the first instance is fine; after EvZ set the global to 0 the *restarted* instance fails before its first wait
    "cond-raise": ["global $gd", 'start GestureBotAction(gesture="pre")', "$z = 10 / $gd", "match EvC()", "send ImmDone()"],
    "cond-raise-plain": ["global $gd", "$z = 10 / $gd", "match EvC()"],
}
MAIN_SURVIVES = ("finish", "return", "cond-raise", "cond-raise-plain")
# Open known finding C10-F18: an activated flow whose only waits are for a child flow that finishes without any external event
# restarts forever. These kinds are NOT generated (excluded by construction, see known_findings.json); they exist for the repro.
KNOWN_IMMEDIATE = {
    "child-finish": ["await immchild"],
    "child-raise": ["await immchild", '$z = 1 + "a"'],
}


def known(case, violation):
    if violation.kind in ("non-termination", "hang") and any(k in KNOWN_IMMEDIATE for k in case.get("imm", [])):
        return "C10-F18"
    return None


class StepBudget(BaseException):
    pass


_rt = {}


def budget(tier):
    return 1500 if tier == "quick" else 25000


@st.composite
def _case(draw):
    prog = draw(co2.programs(profile={"exits": True, "recursion": True}, max_helpers=4))
    helpers = prog["flows"][:-1]
    kind = draw(st.sampled_from(list(FAULTS) + ["none"]))
    h = draw(st.integers(0, len(helpers) - 1))
    # a flow that fails before its first wait legitimately fails the flow that starts it: inject only after the first wait
    first_wait = next(i for i, st_ in enumerate(helpers[h]["body"]) if st_["k"] in ("match", "matchg"))
    pos = draw(st.integers(first_wait + 1, len(helpers[h]["body"])))
    imm = draw(st.lists(st.sampled_from(list(IMMEDIATE)), max_size=2, unique=True))
    hist_item = st.one_of(st.just(["evc"]), st.just(["evc"]), st.just(["evz"]), co2.history_item())
    hist = draw(st.lists(hist_item, min_size=2, max_size=16))
    return {"helpers": helpers, "fault": {"kind": kind, "helper": h, "pos": pos}, "imm": imm, "hist": hist, "choices": draw(st.lists(st.integers(0, 3), max_size=2)), "activate_helpers": draw(st.booleans())}


def strategy(tier):
    return _case()


def enumerate_cases(tier):
    # every position x fault kind for two fixed helper families (the fault_enumeration core)
    fam = [
        [
            {"name": "h0", "params": [], "loop": None, "body": [{"k": "match", "ev": 0, "v": None}, {"k": "send", "n": 1}, {"k": "match", "ev": 1, "v": None}, {"k": "send", "n": 2}]},
        ],
        [
            {"name": "h0", "params": [], "loop": None, "body": [{"k": "match", "ev": 0, "v": None}, {"k": "awaitflow", "f": 1, "arg": None}, {"k": "send", "n": 1}]},
            {"name": "h1", "params": [], "loop": "L1", "body": [{"k": "match", "ev": 1, "v": None}, {"k": "startact", "a": 0, "ref": 0}, {"k": "match", "ev": 2, "v": None}]},
        ],
    ]
    hist = [["evc"], ["ev", 0, None], ["evc"], ["ev", 1, None], ["evc"], ["ev", 2, None], ["evc"], ["ev", 0, None], ["evc"]]
    for helpers in fam:
        for h, fl in enumerate(helpers):
            for pos in range(1, len(fl["body"]) + 1):
                for kind in FAULTS:
                    yield {"helpers": helpers, "fault": {"kind": kind, "helper": h, "pos": pos}, "imm": [], "hist": hist, "choices": [], "activate_helpers": False}
    hist_z = [["evc"], ["evz"], ["evc"], ["evc"], ["ev", 0, None], ["evc"]]
    for imm in IMMEDIATE:
        for act in (False, True):
            for h in (hist, hist_z):
                yield {"helpers": fam[0], "fault": {"kind": "none", "helper": 0, "pos": 0}, "imm": [imm], "hist": h, "choices": [], "activate_helpers": act}


def build(case):
    helpers = [dict(h) for h in case["helpers"]]
    f = case["fault"]
    if f["kind"] != "none":
        h = dict(helpers[f["helper"] % len(helpers)])
        body = list(h["body"])
        pos = min(f["pos"], len(body))
        text = FAULTS[f["kind"]].replace("hlast", f"h{len(helpers) - 1}" if (f["helper"] % len(helpers)) != len(helpers) - 1 else "canaryhelper")
        lines = [{"k": "raw", "text": t} for t in text.split("\n")]
        inj = lines if f["kind"] in MATCH_FAULTS else [{"k": "raw", "text": "send Reached()"}] + lines
        h["body"] = body[:pos] + inj + body[pos:]
        helpers[f["helper"] % len(helpers)] = h
    flows = list(helpers)
    flows.append({"name": "canaryhelper", "params": [], "loop": None, "body": [{"k": "raw", "text": "match NeverHelper()"}]})
    flows.append({"name": "evcchild", "params": [], "loop": None, "body": [{"k": "raw", "text": "match EvC()"}, {"k": "raw", "text": "match NeverChild()"}]})
    flows.append({"name": "immchild", "params": [], "loop": None, "body": [{"k": "raw", "text": "send ImmChildOut()"}]})
    flows.append({"name": "gdsetter", "params": [], "loop": "setterloop", "body": [{"k": "raw", "text": "global $gd"}, {"k": "raw", "text": "match EvZ()"}, {"k": "raw", "text": "$gd = 0"}]})
    flows.append({"name": "canary", "params": [], "loop": None, "body": [{"k": "raw", "text": "match EvC()"}, {"k": "raw", "text": "send CanaryOut()"}]})
    flows.append({"name": "canary2", "params": [], "loop": "canaryloop", "body": [{"k": "raw", "text": "match EvC()"}, {"k": "raw", "text": "send Canary2Out()"}]})
    flows.append({"name": "watcher", "params": [], "loop": "watchloop", "body": [{"k": "raw", "text": "match ColangError() as $e"}, {"k": "raw", "text": "send SawError(t=$e.type)"}]})
    main = [{"k": "raw", "text": "global $gd"}, {"k": "raw", "text": "$gd = 1"}, {"k": "raw", "text": "activate canary"}, {"k": "raw", "text": "activate canary2"}, {"k": "raw", "text": "activate watcher"}, {"k": "raw", "text": "activate gdsetter"}]
    for i, kind in enumerate(case["imm"]):
        body = IMMEDIATE.get(kind) or KNOWN_IMMEDIATE[kind]
        # a loop of its own: a flow that reacts to the canary event must not compete with the canaries for an action
        flows.append({"name": f"imm{i}", "params": [], "loop": "NEW", "body": [{"k": "raw", "text": t} for t in body]})
        main.append({"k": "raw", "text": f"activate imm{i}"})
    for h in helpers:
        if not h["params"]:
            main.append({"k": "raw", "text": ("activate " if case["activate_helpers"] else "start ") + h["name"]})
    main.append({"k": "raw", "text": "match Never()"})
    flows.append({"name": "main", "params": [], "loop": None, "body": main})
    return co2.render({"flows": flows})


def _runtime():
    if "rt" not in _rt:
        from nemoguardrails import RailsConfig
        from nemoguardrails.colang.v2_x.runtime.runtime import RuntimeV2_x

        cfg = RailsConfig.from_content(colang_content="flow main\n  match Never()\n", yaml_content='colang_version: "2.x"\nmodels: []')
        _rt["rt"] = RuntimeV2_x(cfg, verbose=False)
        s = smh.sm()
        _rt["orig"] = (s._get_all_head_candidates, s.slide)
        counter = _rt["counter"] = {"n": 0, "limit": 10**9}

        def wrap(fn):
            def inner(*a, **k):
                counter["n"] += 1
                if counter["n"] > counter["limit"]:
                    raise StepBudget()
                return fn(*a, **k)

            return inner

        s._get_all_head_candidates = wrap(s._get_all_head_candidates)
        s.slide = wrap(s.slide)
    return _rt["rt"]


async def _nosleep(*_a, **_k):
    return None


def prop(case):
    from nemoguardrails.colang.v2_x.runtime import runtime as rmod
    from nemoguardrails.colang.v2_x.runtime.runtime import create_flow_configs_from_flow_list

    text = build(case)
    rt = _runtime()
    smh.install()
    smh.CHOOSER.reset(case["choices"])
    smh.Clock.virtual = 0.0
    rt.flow_configs = create_flow_configs_from_flow_list(smh.parse(text))
    counter = _rt["counter"]
    kind = case["fault"]["kind"]
    max_steps = 0
    loop = asyncio.new_event_loop()
    real_sleep = rmod.asyncio.sleep
    sess = {"running": [], "types": {}}
    n_elements = None

    def ledger(events):
        for e in events:
            t = e["type"]
            if t.startswith("Start") and t.endswith("Action") and "action_uid" in e:
                sess["running"].append(e["action_uid"])
                sess["types"][e["action_uid"]] = t[5:]

    def run(events, state):
        nonlocal max_steps
        counter["n"] = 0
        try:
            out, state = loop.run_until_complete(rt.process_events(events, state))
        except StepBudget:
            raise Violation("non-termination", f"more than {counter['limit']} interpreter steps for one event {events}\n{text}")
        except Exception as e:
            raise Violation("exception-escaped:" + type(e).__name__, f"{events}: {e!r}"[:300] + "\n" + text)
        max_steps = max(max_steps, counter["n"])
        return out, state

    reached = False
    saw_error = False
    nt = False
    canary_checks = 0
    try:
        asyncio.set_event_loop(loop)
        counter["limit"] = max(2000, 200 * len(text.splitlines()))
        out, state = run([], None)
        ledger(out)
        types = smh.types(out)
        reached |= "Reached" in types
        saw_error |= "SawError" in types
        if "Reached" in types and "SawError" not in types:
            raise Violation("error-not-reported", f"fault {kind} reached at start but no ColangError was observed; events {types}\n{text}")
        main = [fs for fs in state.flow_states.values() if fs.flow_id == "main"]
        if (not main or main[0].status.value != "started") and any(k not in MAIN_SURVIVES for k in case["imm"]):
            # activating a flow that fails before it started legitimately fails main; only termination is asserted
            return ok(nt=True, labels=["fault-" + kind, "main-failed-by-failing-activation"] + ["imm-" + k for k in case["imm"]], view={"program": text})
        if not main or main[0].status.value != "started":
            raise Violation("main-not-running", f"main is {main[0].status.value if main else 'missing'} after start\n{text}")
        bad = smh.invariants(state)
        if bad:
            raise Violation(bad[0][0], f"after start: {bad[0][1]}\n{text}")
        for i, item in enumerate(case["hist"]):
            parked_fault = False
            if item[0] == "evz":
                ev = {"type": "EvZ"}
            elif item[0] == "evc":
                ev = {"type": "EvC", "v": "x1"}
                waiting = smh.scan_matchers(state).get("EvC", [])
                parked_fault = any(state.flow_states[f].flow_id.startswith("h") for f, _ in waiting)
            else:
                fake = smh.Session.__new__(smh.Session)
                fake.state, fake.running, fake.action_type = state, sess["running"], sess["types"]
                ev = smh.Session.concrete(fake, item)
                if ev is None:
                    continue
            out, state = run([ev], state)
            ledger(out)
            types = smh.types(out)
            if "Reached" in types:
                reached = True
                if "SawError" not in types:
                    raise Violation("error-not-reported", f"fault {kind} reached on event #{i} {ev} but no ColangError was observed; events {types}\n{text}")
            saw_error |= "SawError" in types
            if item[0] == "evc":
                canary_checks += 1
                c1, c2 = types.count("CanaryOut"), types.count("Canary2Out")
                if (c1, c2) != (1, 1):
                    raise Violation(
                        "canary-starved" if parked_fault else "canary-miscount",
                        f"after EvC (#{i}) canaries emitted CanaryOut x{c1}, Canary2Out x{c2} (expected 1 and 1); faulty head parked on EvC: {parked_fault}; events {types}\n{text}",
                    )
                if parked_fault:
                    reached = True
                    if "SawError" not in types:
                        raise Violation("error-not-reported", f"erroneous match {kind} evaluated on EvC (#{i}) but no ColangError observed; events {types}\n{text}")
            bad = smh.invariants(state)
            if bad:
                raise Violation(bad[0][0], f"after event #{i} {ev}: {bad[0][1]}\n{text}")
    finally:
        asyncio.set_event_loop(None)
        loop.close()
        rmod.asyncio.sleep = real_sleep
    if reached or any(k not in ("finish", "return") for k in case["imm"]):
        nt = True
    labels = ["fault-" + kind, "reached" if reached else "not-reached"]
    labels += ["imm-" + k for k in case["imm"]]
    if saw_error:
        labels.append("colang-error-seen")
    if case["activate_helpers"]:
        labels.append("helpers-activated")
    view = {"program": text, "history": case["hist"][:10], "fault": case["fault"], "reached": reached}
    if co2.has_recursion({"flows": list(case["helpers"]) + [{"body": []}]}):
        labels.append("recursive-flow-calls")
    labels.append("steps<=%d" % (10 ** len(str(max(max_steps, 1)))))
    return ok(nt=nt, labels=labels, view=view, counters={"canary_checks": canary_checks})
