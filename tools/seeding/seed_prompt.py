import sys
pid=sys.argv[1]
prop=open(f"/tmp/seed-{pid}.prop.txt").read()
print(f"""You are given a scratch git worktree of the open-source project NVIDIA/NeMo-Guardrails (Python) at /tmp/seed-{pid} (run code with /venv/bin/python after `cd /tmp/seed-{pid}`; put the worktree first on sys.path or run from its root with PYTHONPATH=/tmp/seed-{pid} so that `import nemoguardrails` resolves to the worktree and NOT to /repo - check with `python -c "import nemoguardrails; print(nemoguardrails.__file__)"`). The sandbox is offline. Work ONLY inside /tmp/seed-{pid}; never touch /repo or /verif and do not read /verif.

The project is supposed to satisfy this semantic property:

{prop}
Your task: write TWO different, realistic source changes (as if made by a developer during a refactoring, optimisation or feature addition - not sabotage-looking) to the nemoguardrails package, each of which BREAKS this property while the code still imports and the existing test suite still passes. Prefer changes that need something specific to manifest - a particular multi-step sequence of operations, an unusual input, a particular ordering/interleaving or tie-break outcome, a fault at a particular point, or two cooperating sites that each look fine alone - not ones that ordinary use or the simplest example would expose at once. The two changes should have different root causes and should be in different functions where possible.

For each change i in (1, 2):
  1. Make the change in the worktree, save it as /tmp/seed-{pid}/seeded_{pid}_i.diff (`git diff > file`, paths relative to the repo root so that `git apply` works), then `git checkout -- .` before starting the next one.
  2. Write a small standalone demonstration /tmp/seed-{pid}/demo_{pid}_i.py that exits 0 and prints PASS on the unmodified worktree and exits 1 printing FAIL (with a one-line explanation) when the change is applied. It must use only the public/observable behaviour named in the property (no asserts on private helper internals unless the property itself names that state), must terminate (use a watchdog such as signal.alarm if the change can cause a hang), and must not need network.
  3. Check that the existing tests that are relevant still pass WITH the change applied: at least `cd /tmp/seed-{pid} && PYTHONPATH=/tmp/seed-{pid} /venv/bin/python -m pytest -q -p no:cacheprovider -x <the test files covering the touched module>`; note that about 100 tests of the full suite fail offline even without any change (they need an embedding model download) - compare against a run without the change if in doubt. The full suite is `PYTHONPATH=/tmp/seed-{pid} /venv/bin/python -m pytest -q -p no:cacheprovider --timeout=900 --continue-on-collection-errors` (about 1-2 minutes); run it once per change and report the pass/fail counts with and without the change (they must be equal).
Leave the worktree clean (`git status` shows only the untracked seeded_*.diff and demo_*.py files). Always wrap runs in `timeout 600`.

Final answer: for each change: the diff file path, the demo path, one paragraph on why it breaks the property and what it needs in order to manifest, and the test counts with/without the change.""")
