"""C12 - compiled flows are closed: every jump target exists and only primitives remain.

Domain : (1) every .co file shipped in the repository (library, examples, docs, test configs), Colang 1.0 and 2.x;
         (2) generated Colang 2.x programs (vf/co2.py: nested if/while/when, groups, break/continue at every depth,
             start/await/activate of flows and actions); (3) generated Colang 1.0 programs (vf/co1.py), and Colang 1.0 texts with label/checkpoint, goto, when/else when,
             break/continue nested in if/while/when blocks.
Oracle : static closure predicate over the compiled elements.
         2.x, after initialize_state: every element is a primitive the interpreter's `slide` executes (SpecOp send/match/
         _new_action_instance with a Spec - not a group dict - as spec; Label, Goto, ForkHead, MergeHeads, WaitForHeads,
         Assignment, Return, Abort, Break/Continue, Log, Print, Priority, Global, CatchPatternFailure, BeginScope, EndScope,
         Meta/docstring dicts); every Goto / ForkHead / CatchPatternFailure / labelled Break/Continue target is in
         element_labels and element_labels points at a Label of that name; every MergeHeads has its ForkHead; every BeginScope
         is followed by an EndScope of the same name and no EndScope precedes its BeginScope.
         1.0: every relative jump (_next, _next_else, _next_on_break, _next_on_continue) used by the element's type and every
         branch head lands inside [0, len(elements)]; absolute jumps are -1 (return) or inside the flow.
"""
import os

from hypothesis import strategies as st

from vf import co2, env, smh
from vf.core import Violation, ok

PID = "C12"
LEVEL = "exploration"
CASE_TIMEOUT = 60
RULE = (
    "enumerated: every *.co under the repository (version from the nearest config.yml / file name / library location; 2.x files are "
    "compiled together with the standard library and their sibling files); generated: co2 programs (depth<=3 nesting of if/while/when, "
    "groups, break/continue, flows with parameters) and co1 programs when the module is present. Non-trivial = a flow whose source nests "
    "composite constructs >= 2 deep, or uses break/continue, or a group; for files: a file whose flows compile to >= 1 jump/fork. "
    "Distinct by program text / file path."
)
ASSUMPTIONS = [
    "scope closure is checked per scope name (every Begin is followed by an End, no End before its Begin), not per control-flow path",
    "duplicate labels are not forbidden by the statement and are not reported",
    "a shipped 2.x file that references flows defined outside the standard library and its own directory is counted as skipped",
]
WALL = {"quick": 150, "thorough": 1500}
EXHAUSTIVE = False

_lib = {}


def budget(tier):
    return 2000 if tier == "quick" else 30000


# ---------------------------------------------------------------------------------------------
# shipped files


def _co_files():
    out = []
    for root, dirs, files in os.walk(env.REPO):
        dirs[:] = [d for d in dirs if d not in (".git", "node_modules", "__pycache__")]
        for f in files:
            if f.endswith(".co"):
                out.append(os.path.relpath(os.path.join(root, f), env.REPO))
    return sorted(out)


def _version_of(rel):
    p = rel.replace(os.sep, "/")
    if "/colang/v2_x/" in p or "/v2_x/" in p:
        return "2.x"
    if p.endswith(".v1.co") or p.endswith("llm_flows.co"):
        return "1.0"
    if p.startswith("nemoguardrails/library/"):
        return "2.x"
    d = os.path.dirname(os.path.join(env.REPO, rel))
    for _ in range(4):
        for name in ("config.yml", "config.yaml"):
            cfg = os.path.join(d, name)
            if os.path.exists(cfg):
                txt = open(cfg, encoding="utf-8", errors="replace").read()
                if "colang_version" in txt and "2.x" in txt.split("colang_version")[1][:12]:
                    return "2.x"
                return "1.0"
        d = os.path.dirname(d)
    return None  # decide by trying


def enumerate_cases(tier):
    for rel in _co_files():
        yield {"leg": "file", "path": rel}


@st.composite
def _v1_block(draw, depth, labels, in_loop):
    """Colang 1.0 statements incl. the constructs vf/co1 does not model: label/checkpoint, goto, when/else when, break/continue."""
    lines = []
    for _ in range(draw(st.integers(1, 4))):
        kinds = ["bot", "bot", "set", "label"]
        if depth > 0:
            kinds += ["if", "while", "when"]
        if in_loop:
            kinds += ["break", "continue"]
        k = draw(st.sampled_from(kinds))
        if k == "bot":
            lines.append(f"bot say b{draw(st.integers(0, 5))}")
        elif k == "set":
            lines.append(f"$v{draw(st.integers(0, 1))} = {draw(st.integers(0, 3))}")
        elif k == "label":
            name = f"l{len(labels)}"
            labels.append(name)
            lines.append(draw(st.sampled_from(["label", "checkpoint"])) + " " + name)
        elif k == "if":
            lines.append(f"if $v{draw(st.integers(0, 1))} == {draw(st.integers(0, 3))}")
            lines += ["  " + x for x in draw(_v1_block(depth - 1, labels, in_loop))]
            if draw(st.booleans()):
                lines.append("else")
                lines += ["  " + x for x in draw(_v1_block(depth - 1, labels, in_loop))]
        elif k == "while":
            lines.append(f"while $v{draw(st.integers(0, 1))} < {draw(st.integers(1, 3))}")
            lines += ["  " + x for x in draw(_v1_block(depth - 1, labels, True))]
        elif k == "when":
            n = draw(st.integers(1, 3))
            for i in range(n):
                lines.append(("when" if i == 0 else "else when") + f" user intent w{draw(st.integers(0, 9))}{i}")
                lines += ["  " + x for x in draw(_v1_block(depth - 1, labels, in_loop))]
        else:
            lines.append(k)
            break
    return lines


@st.composite
def _v1_offsets_case(draw):
    flows = []
    for fi in range(draw(st.integers(1, 2))):
        labels = []
        body = draw(_v1_block(draw(st.integers(1, 3)), labels, False))
        # gotos only to labels that exist in this flow
        for _ in range(draw(st.integers(0, 2)) if labels else 0):
            pos = draw(st.integers(0, len(body)))
            ind = len(body[pos - 1]) - len(body[pos - 1].lstrip()) if pos > 0 else 0
            if pos > 0 and body[pos - 1].lstrip().split(" ")[0] in ("if", "while", "when", "else"):
                ind += 2
            body.insert(pos, " " * ind + "goto " + draw(st.sampled_from(labels)))
        flows.append([f"define flow gen{fi}", f"  user intent start{fi}"] + ["  " + x for x in body])
    text = "\n".join("\n".join(f) for f in flows) + "\n"
    return {"leg": "v1text", "text": text}


@st.composite
def _case(draw):
    if draw(st.integers(0, 3)) == 0:
        return draw(_v1_offsets_case())
    try:
        from vf import co1  # noqa: F401

        have_co1 = hasattr(co1, "programs")
    except Exception:
        have_co1 = False
    if have_co1 and draw(st.integers(0, 2)) == 0:
        from vf import co1

        return {"leg": "v1gen", "prog": draw(co1.programs())}
    return {"leg": "v2gen", "prog": draw(co2.programs(depth=3, max_helpers=4))}


def strategy(tier):
    return _case()


# ---------------------------------------------------------------------------------------------
# predicates


def check_v2_flow(cfg):
    from nemoguardrails.colang.v2_x.lang import colang_ast as A

    prims = (A.Label, A.Goto, A.ForkHead, A.MergeHeads, A.WaitForHeads, A.Assignment, A.Return, A.Abort, A.Break, A.Continue, A.Log, A.Print, A.Priority, A.Global, A.CatchPatternFailure, A.BeginScope, A.EndScope, A.Meta)
    els = cfg.elements
    labels = cfg.element_labels
    bad = []
    stats = {"jumps": 0, "forks": 0}
    label_names = {e.name for e in els if isinstance(e, A.Label)}
    for name, idx in labels.items():
        if not (0 <= idx < len(els)) or not isinstance(els[idx], A.Label) or els[idx].name != name:
            bad.append(("label-index-wrong", f"element_labels[{name!r}]={idx} does not point at that Label"))
    for name in label_names:
        if name not in labels:
            bad.append(("label-not-indexed", f"Label {name!r} missing from element_labels"))
    fork_uids = {e.fork_uid for e in els if isinstance(e, A.ForkHead)}
    begins, ends = {}, {}
    for i, e in enumerate(els):
        if isinstance(e, A.SpecOp):
            if e.op not in ("send", "match", "_new_action_instance"):
                bad.append(("composite-left", f"element {i}: SpecOp op={e.op!r} left unexpanded"))
            elif not isinstance(e.spec, A.Spec):
                bad.append(("group-left", f"element {i}: SpecOp {e.op} still carries a group ({type(e.spec).__name__})"))
        elif isinstance(e, prims):
            if isinstance(e, A.Goto):
                stats["jumps"] += 1
                if e.label not in labels:
                    bad.append(("dangling-goto", f"element {i}: Goto {e.label!r} has no Label"))
            elif isinstance(e, A.ForkHead):
                stats["forks"] += 1
                for lab in e.labels:
                    if lab not in labels:
                        bad.append(("dangling-fork", f"element {i}: ForkHead target {lab!r} has no Label"))
            elif isinstance(e, A.CatchPatternFailure):
                if e.label is not None and e.label not in labels:
                    bad.append(("dangling-failure-handler", f"element {i}: CatchPatternFailure {e.label!r} has no Label"))
            elif isinstance(e, (A.Break, A.Continue)):
                if e.label is None:
                    bad.append(("unresolved-loop-exit", f"element {i}: {type(e).__name__} without target label"))
                elif e.label not in labels:
                    bad.append(("dangling-loop-exit", f"element {i}: {type(e).__name__} {e.label!r} has no Label"))
            elif isinstance(e, A.MergeHeads):
                if e.fork_uid not in fork_uids:
                    bad.append(("merge-without-fork", f"element {i}: MergeHeads {e.fork_uid!r} has no ForkHead"))
            elif isinstance(e, A.BeginScope):
                begins.setdefault(e.name, []).append(i)
            elif isinstance(e, A.EndScope):
                ends.setdefault(e.name, []).append(i)
        elif isinstance(e, dict) or isinstance(e, A.Spec):
            t = e.get("_type") if isinstance(e, dict) else "spec"
            empty_stmt = isinstance(e, dict) and t == "stmt" and not e.get("elements")  # a comment-only line: a no-op
            if t not in ("doc_string_stmt", "docstring", "meta", "pass_stmt") and not empty_stmt:  # `pass` is a placeholder `slide` skips
                bad.append(("composite-left", f"element {i}: raw {t!r} left in the compiled flow"))
        else:
            bad.append(("composite-left", f"element {i}: {type(e).__name__} left unexpanded"))
    for name in set(begins) | set(ends):
        b, e_ = begins.get(name, []), ends.get(name, [])
        # one BeginScope may be closed by several EndScope elements (one per branch of a when/group): require that every
        # Begin has an End after it and that no End comes before the first Begin
        if not b or not e_ or min(e_) < min(b) or max(b) > max(e_):
            bad.append(("scope-not-closed", f"scope {name!r}: BeginScope at {b}, EndScope at {e_}"))
    return bad, stats


def check_v1_flow(flow):
    els = flow["elements"]
    n = len(els)
    bad = []
    jumps = 0
    for i, e in enumerate(els):
        t = e.get("_type")
        used = []
        if t == "if":
            used = ["_next_else"]
        elif t == "jump":
            used = ["_next"]
        elif t == "while":
            used = ["_next", "_next_on_break"]
        elif t == "continue":
            used = ["_next_on_continue"]
        elif t == "break":
            used = ["_next_on_break"]
        else:
            used = ["_next"]
        for key in used:
            if key not in e:
                if t == "if" and key == "_next_else":
                    bad.append(("missing-offset", f"element {i} ({t}) has no {key}"))
                continue
            jumps += 1
            try:
                off = int(e[key])
            except (TypeError, ValueError):
                bad.append(("bad-offset", f"element {i} ({t}) {key}={e[key]!r}"))
                continue
            if e.get("_absolute") and key == "_next":
                target = off
                if target == -1:
                    continue
            else:
                target = i + off
            if not (0 <= target <= n):
                bad.append(("jump-out-of-flow", f"element {i} ({t}) {key}={e[key]!r} -> {target}, flow has {n} elements"))
            elif t == "jump" and str(e.get("_debug", "")).startswith("goto ") and key == "_next":
                name = str(e["_debug"])[5:]
                if target >= n or els[target].get("_label") != name:
                    bad.append(("goto-misses-label", f"element {i} goto {name!r} -> {target}, which does not carry that label"))
        for b in e.get("branch_heads", []) or []:
            jumps += 1
            target = i + int(b)
            if not (0 <= target < n):
                bad.append(("branch-head-out-of-flow", f"element {i} branch head {b} -> {target}, flow has {n} elements"))
    return bad, jumps


def _library_flows():
    if "flows" not in _lib:
        from nemoguardrails import RailsConfig

        cfg = RailsConfig.from_content(
            colang_content="import core\nimport timing\nimport avatars\nimport guardrails\nimport llm\nimport passthrough\n\nflow main\n  match Never()\n",
            yaml_content='colang_version: "2.x"\nmodels: []',
        )
        _lib["flows"] = [f for f in cfg.flows if f.name != "main"]
    return _lib["flows"]


def _compile_v2(flows):
    from nemoguardrails.colang.v2_x.runtime.flows import State
    from nemoguardrails.colang.v2_x.runtime.runtime import create_flow_configs_from_flow_list
    from nemoguardrails.colang.v2_x.runtime.statemachine import initialize_state

    configs = create_flow_configs_from_flow_list(flows)
    state = State(flow_states=[], flow_configs=configs)
    initialize_state(state)
    return state.flow_configs


def _parse(path, version):
    from nemoguardrails.colang import parse_colang_file

    with open(path, encoding="utf-8") as f:
        content = f.read()
    return parse_colang_file(filename=path, content=content, include_source_mapping=False, version=version)


def _file_case(case):
    rel = case["path"]
    path = os.path.join(env.REPO, rel)
    version = _version_of(rel)
    tried = [version] if version else ["2.x", "1.0"]
    parsed = None
    for v in tried:
        try:
            parsed = _parse(path, v)
            version = v
            break
        except Exception:
            continue
    if parsed is None:
        return ok(skip="file not accepted by the parser", labels=["file", "not-parsed"])
    if version == "1.0":
        total = 0
        for fl in parsed.get("flows", []):
            bad, jumps = check_v1_flow(fl)
            total += jumps
            if bad:
                raise Violation("v1-" + bad[0][0], f"{rel} flow {fl.get('id')!r}: {bad[0][1]}")
        return ok(nt=total > 0, labels=["file", "v1", "has-jumps" if total else "no-jumps"], view={"file": rel, "version": "1.0", "flows": len(parsed.get("flows", [])), "jump_offsets": total}, key=rel)
    own = parsed.get("flows", [])
    names = {f.name for f in own}
    extra = []
    d = os.path.dirname(path)
    for sib in sorted(os.listdir(d)):
        sp = os.path.join(d, sib)
        if sp != path and sib.endswith(".co"):
            try:
                extra += [f for f in _parse(sp, "2.x")["flows"] if f.name not in names]
            except Exception:
                pass
    lib = [f for f in _library_flows() if f.name not in names and f.name not in {e.name for e in extra}]
    flows = lib + extra + own
    if "main" not in {f.name for f in flows}:
        flows = flows + smh.parse("flow main\n  match Never()\n")
    try:
        configs = _compile_v2(flows)
    except Exception as e:
        return ok(skip="2.x file does not compile in isolation", labels=["file", "v2", "not-compiled"], view={"file": rel, "error": repr(e)[:200]})
    jumps = 0
    for f in own:
        bad, stats = check_v2_flow(configs[f.name])
        jumps += stats["jumps"] + stats["forks"]
        if bad:
            raise Violation("v2-" + bad[0][0], f"{rel} flow {f.name!r}: {bad[0][1]}")
    return ok(nt=jumps > 0, labels=["file", "v2", "has-jumps" if jumps else "no-jumps"], view={"file": rel, "version": "2.x", "flows": len(own), "jumps_and_forks": jumps}, key=rel)


def prop(case):
    if case["leg"] == "file":
        return _file_case(case)
    if case["leg"] == "v1text":
        from nemoguardrails.colang import parse_colang_file

        text = case["text"]
        try:
            parsed = parse_colang_file(filename="gen.co", content=text, include_source_mapping=False, version="1.0")
        except Exception as e:
            return ok(skip="v1 text not accepted by the parser: " + type(e).__name__, labels=["v1text", "rejected"])
        total = 0
        for fl in parsed.get("flows", []):
            bad, jumps = check_v1_flow(fl)
            total += jumps
            if bad:
                raise Violation("v1-" + bad[0][0], f"flow {fl.get('id')!r}: {bad[0][1]}\n{text}")
        labels = ["v1text"] + [k for k in ("label", "checkpoint", "goto", "when", "while", "break", "continue") if k + " " in text or text.rstrip().endswith(k) or ("\n" + k) in text.replace(" ", "")]
        return ok(nt=total >= 3, labels=labels, view={"program": text, "jump_offsets": total})
    if case["leg"] == "v1gen":
        from nemoguardrails.colang import parse_colang_file

        from vf import co1

        text = co1.render(case["prog"])
        parsed = parse_colang_file(filename="gen.co", content=text, include_source_mapping=False, version="1.0")
        total = 0
        for fl in parsed.get("flows", []):
            bad, jumps = check_v1_flow(fl)
            total += jumps
            if bad:
                raise Violation("v1-" + bad[0][0], f"flow {fl.get('id')!r}: {bad[0][1]}\n{text}")
        return ok(nt=total >= 2, labels=["v1gen"], view={"program": text, "jump_offsets": total})
    text = co2.render(case["prog"])
    kinds = co2.count_kinds(case["prog"])
    try:
        configs = _compile_v2(smh.parse(text))
    except Exception as e:
        raise Violation("v2-compile-error:" + type(e).__name__, f"{e!r}"[:300] + "\n" + text)
    for name, cfg in configs.items():
        bad, _ = check_v2_flow(cfg)
        if bad:
            raise Violation("v2-" + bad[0][0], f"flow {name!r}: {bad[0][1]}\n{text}")
    nt = kinds["maxdepth"] >= 2 or kinds["break"] + kinds["continue"] > 0 or kinds["matchg"] + kinds["awaitg"] > 0
    labels = ["v2gen", f"depth{min(kinds['maxdepth'], 3)}"]
    for k in ("while", "when", "if", "break", "continue", "awaitg", "matchg", "activate"):
        if kinds[k]:
            labels.append(k)
    return ok(nt=nt, labels=labels, view={"program": text})
