"""C12 - compiled flows are closed: every jump target exists and only primitives remain.

Domain : (1) every .co file shipped in the repository (library, examples, docs, test configs), Colang 1.0 and 2.x;
         (2) generated Colang 2.x programs (vf/co2.py: nested if/while/when, groups, break/continue at every depth,
             start/await/activate of flows and actions);
         (3) generated Colang 1.0 programs (vf/co1.py), and Colang 1.0 texts with label/checkpoint, goto, when/else when chains of
             1-4 branches, break/continue nested in if/while/when blocks, and return / return $v / stop / abort as the last
             statement of any block (every when branch independently: as drawn / exit appended / exit alone; a third of the
             flows end with a when chain, at top level or at the end of a trailing if / else block); `define flow` and `define subflow`;
             value-generation statements `$x = ...` (compiled into a generate_value action) in every block - top level, if / else,
             while, when branch; first, middle or last statement - without instructions (nothing or a blank line above), or with an
             instructions comment above (control); every text parsed with or without source mapping (the loader's mode / the mode
             in which comments never reach the compiler);
         (4) generated Colang 2.x loop programs (own JSON AST): while loops nested up to 3 deep whose bodies are, per loop, either
             'bare' (only statements the expansion leaves untouched: match <event>, assignments, send <event>, log, print, match
             $ref.Finished() - plus if/elif/else chains and loops) or 'mixed' (also await/start/activate/groups/when/pass);
             if / elif / else chains of 1-3 conditions; a third of the branches inside a loop consist of `break` / `continue` alone;
         (5) generated Colang 2.x group programs (own JSON formulas): and / or formulas nested up to 3 deep over a pool of 2-4 members
             (flows, flows with arguments, actions, mixed, events), so members and whole alternatives of the normal form REPEAT
             (`a or b or a`, `(a or b) and (b or a)`, `a and a`), in every statement form that takes a group (await, bare statement,
             $z = await / $z = <group>, start, match, send, when cases, activate of and-groups), with / without `as $ref` captures,
             at top level / in while loops / if / else / when branches;
         (6) Colang 1.0 goto plans: 'spread' (0-2 gotos to any labels) or 'fan-in' (2-4 gotos that all name the SAME label, all in
             front of it - forward jumps -, all behind it, or on both sides; at top level and inside if / while / when blocks);
         (7) Colang 2.x configurations of 1-4 flows (loop-leg bodies) initialised 2-3 times on the SAME flow configs - one runtime,
             several conversations: create_flow_configs_from_flow_list once, then State + initialize_state per attempt -, 0-2 of the
             flows carrying a statement the parser accepts and the expansion REJECTS (match / send of a flow or action, activate /
             deactivate of an event or an or-group, await / start of an event, alone or as a group member) at any place of the body;
         (8) Colang 2.x flows that enter a RUNNING runtime (leg v2added): one LLMRails / RuntimeV2_x instance with a fixed configuration
             (helper flows, a configured flow with control statements, a main flow that hands the `config` parameter of every Add
             event to AddFlowsAction - the system action the library's LLM flow generation uses - and the `flow_ids` of every Remove
             event to RemoveFlowsAction); 1-2 conversations of 1-3 Add events with 1-3 generated flows each (loop-leg bodies with
             if / elif / else, while, break / continue, when; group-leg statements; plain bodies as control), with / without a flow
             parameter, optionally referring to a flow added before (await / start / when / or-group / activate / $w = await) or
             taking the name of a flow of an earlier event that is removed first;
         (9) seven enumerated families: Colang 1.0 value generation (`$name = ...` x nothing / blank line / comment above x only / first /
             middle / last statement of its block x 9 blocks x flow end / followed / jumped over by a goto x source mapping on / off),
             Colang 1.0 goto fan-in (2-3 gotos to one label x 5 site shapes x forward / backward / both
             sides x label / checkpoint x label at top level / in a block x with / without a second label), Colang 2.x
             expansion-raises (18 rejected statements x 7 places x bad flow first / middle / last of three x rich / primitive rest),
             Colang 1.0 when chains (2-3 branches x ending of every branch x 9 surroundings),
             Colang 2.x loop exits (13 neighbour sets x 5 chain forms x 5 branch-ending patterns x 6 placements), Colang 2.x
             group formulas with repetition (every formula of 2-4 member slots up to renaming x statement form x member kind) and
             Colang 2.x added flows (17 constructs that compile to labels x 6 ways of entering the running state).
Oracle : static closure predicate over the compiled elements.
         2.x, after initialize_state: every element is a primitive the interpreter's `slide` executes (SpecOp send/match/
         _new_action_instance with a Spec - not a group dict - as spec; Label, Goto, ForkHead, MergeHeads, WaitForHeads,
         Assignment, Return, Abort, Break/Continue, Log, Print, Priority, Global, CatchPatternFailure, BeginScope, EndScope,
         Meta/docstring dicts); every Goto / ForkHead / CatchPatternFailure / labelled Break/Continue target is in
         element_labels and element_labels points at a Label of that name; every MergeHeads has its ForkHead; every BeginScope
         is followed by an EndScope of the same name and no EndScope precedes its BeginScope.
         A send / match primitive works on an event or a member of a reference (a bare flow / action spec there is unexpanded).
         Every generated 2.x program: two compilations of the same parsed flows and a second state initialised on the flow configs
         of one compilation must all be closed.  Leg (7): every attempt is either rejected (initialize_state raises) or accepted,
         and every flow config of an accepted state must be closed - also when an earlier attempt on the same configs was rejected.
         Leg (8): after every Add event whose flows AddFlowsAction reports as added, every flow config of the live state (configured,
         added earlier, added now) must be closed by the same predicate - in particular every target of an added flow must be
         resolved by that flow's own element_labels.
         1.0: every relative jump (_next, _next_else, _next_on_break, _next_on_continue) used by the element's type and every
         branch head lands inside [0, len(elements)]; absolute jumps are -1 (return) or inside the flow; every jump element has
         a target (`_next` present) and no goto / label element is left.
"""
import os

from hypothesis import strategies as st

from vf import co2, env, smh
from vf.core import Violation, ok

PID = "C12"
LEVEL = "exploration"
CASE_TIMEOUT = 60
RULE = (
    "enumerated: every *.co under the repository (version from the nearest config.yml / file name / library location; 2.x files are "
    "compiled together with the standard library and their sibling files); family ellipsis: one Colang 1.0 value-generation statement `$name = ...` x what stands right above it (nothing / a blank line / an instructions comment = control) x only / first / middle / last statement of its block x 9 blocks (top level, if block without / with else, else block, while body, if block in front of a break inside a while body, first / last branch of a when chain, while body inside an if block) x the block at the flow end / followed by a statement / between a `goto` and its label x parsed with / without source mapping (648 cases, enumerated first); family when-in-loop: a Colang 1.0 when block (1-2 branches) inside a while body x a break / continue in front of the block, inside a branch (first / last statement) and behind it x loop at the flow end / followed / nested in an outer loop (264 cases); family when-exit: Colang 1.0 when / else when chains of 2-3 "
    "branches x each branch ending with nothing / return / return $v / stop x exit with or without statements in front x 9 surroundings "
    "(last statement group of the flow, followed by 1 or 3 statements, end of a while body with / without statements behind the loop, end of "
    "an if block with / without else, end of an else block, end of a branch of an outer when); family loop-exit: one Colang 2.x while loop "
    "whose body is <neighbour statements> + <if / elif / else chain>: 13 neighbour sets (none, match, assignment, send, log, match $ref, "
    "await action / flow, start, match group, send group, when) x 5 chain forms (if .. if-elif-elif-else) x 5 branch endings (all break, all "
    "continue, alternating, first branch with a statement in front of the break, only the last branch exits) x 6 placements (alone, chain "
    "followed by a statement, inner loop of a loop without / with other statements, outer loop around another loop, chain nested in an if). "
    "family group-repeat: one Colang 2.x group statement for every small formula up to renaming of its members - flat and / or groups of "
    "2-4 members, (x op y) op' (z op w), x op' (y op z), (x op y) op' z, the member slots filled with every pattern of equal / different "
    "members (aa, ab, aaa .. abc, aaaa .. abcd: 144 formulas, most of them with a repeated member or a duplicate alternative in the "
    "disjunctive normal form) - x 9 statement forms (await, bare statement, $z = await, $z = <group>, start, match, send, when case, "
    "activate [and-groups only]) x the member kinds the form takes (flows, flows with arguments, actions, flows + actions, events, events + "
    "flows in when cases); every third case stands in a while loop / if / else / when branch instead of at top level. "
    "family goto-fanin: Colang 1.0 flows with 2-3 gotos that name the SAME label x 5 site shapes (branches of one when chain, then / else "
    "block of one if, consecutive if blocks, if blocks inside a while body, when branch + if-in-while-in-if + top level) x the gotos all in "
    "front of the label (forward jumps) / all behind it / first in front and the rest behind x label / checkpoint x label at top level / "
    "last statement of an if block x with / without a second label with a goto of its own (176 cases). "
    "family expansion-raises: Colang 2.x configurations of three flows, one of them with one statement the parser accepts and the "
    "expansion rejects - 18 statements: match / send of a flow or action, activate / deactivate of an event, action or or-group, await / "
    "start / $z = await of an event, each alone and as a member of a group - x 7 places (first / last statement, while body, if / else "
    "block, when branch, if block inside a loop in front of a break) x the bad flow first / middle / last x its other statements need "
    "expansion or not; flow configs created once, three states initialised on them (756 cases). "
    "family added-flow: one Colang 2.x flow per construct that compiles to labels - if, if-else (constant condition), if-elif-else, while "
    "with continue / break branches, waiting while, nested while with inner break, when on an event, when / or when / else on flows, when "
    "with break inside `while True`, await or- / and-group, nested mirrored group as a bare statement, start or-group, match or- / and-group, "
    "when with group cases, or-group with a repeated member (17) - x how it enters a running LLMRails conversation through AddFlowsAction: "
    "alone in the first Add event / behind another flow in the same event / in a second Add event / in the second conversation on the same "
    "runtime / with a parameter and awaited by a second added flow / removed (RemoveFlowsAction) and added again (102 cases). "
    "generated: co2 programs (depth<=3 nesting of if/while/when, groups, break/continue, flows with parameters); co1 programs when the "
    "module is present; Colang 1.0 texts (label/checkpoint, goto, if/else, while with break/continue, when chains of 1-4 branches, return / "
    "return $v / stop / abort closing any block, every when branch independently as drawn / exit appended / exit alone, a third of the flows "
    "ending with a when chain, flow or subflow; value generation `$g = ...` is one of the statements of every block (top level, if / else, while, when branch; any position, so also "
    "last statement of a block / of the flow): 3 in 6 bare, 1 in 6 with a blank line above, 2 in 6 with an instructions comment above; every text is parsed with or without source mapping (drawn; "
    "only with it a comment reaches the compiler as instructions); goto plan per flow: 'spread' = 0-2 gotos each to any label of the flow, or - a third of the "
    "flows - 'fan-in' = 2-4 gotos to ONE label, all in front of it / all behind it / alternating sides, inserted at any line, i.e. at top "
    "level and inside if / while / when blocks; a flow without label gets one in front of or behind its body); Colang 2.x loop programs (1-3 top-level loops nested up to 3 deep, each loop drawn 'bare' - "
    "only statements that need no expansion plus if chains and loops - or 'mixed' with await/start/activate/groups/when/pass; if/elif/else "
    "chains of 1-3 conditions; a third of the branches inside a loop are `break` / `continue` alone; exits also at the end of longer branches "
    "and in when branches; a few expanded statements are groups with a repeated member); Colang 2.x group programs (1-3 flows of 1-3 group "
    "statements; formula = and / or groups nested up to 3 deep with 2-3 children each, member slots drawn from a pool of 2-4 members so that "
    "members repeat, then as drawn / one child repeated at the end / the formula mirrored under a second operator - `(a or b) and (b or a)`; "
    "statement form and member kind as in the family, when statements with 1-3 group cases and optional else, `as $ref` captures on no / "
    "the first / every member, each statement at top level or inside while / while-with-break / if / else / when branch). "
    "Colang 2.x re-initialisation programs (leg v2reinit, 2 of 17 generated cases): 1-4 flows with loop-leg bodies (statements, if chains, "
    "while loops, when), main activating 0-2 of them; 0 (1 in 6), 1 (4 in 6) or 2 flows / places carry a statement drawn from the 18 the "
    "expansion rejects, inserted into any block of the body at any position (never behind a closing break / continue); the flow configs are "
    "created once and 2-3 states are initialised on them. Colang 2.x added flows (leg v2added, 2 of 19 generated cases): 1-2 conversations "
    "on one LLMRails instance (fixed configuration: helper flows, one configured flow with while / if / break / continue / or-group, main = "
    "`while True` / `when Add() as $e` -> `await AddFlowsAction(config=$e.config)`, `send Added(names=...)` / `or when Remove() as $e` -> "
    "RemoveFlowsAction), each conversation 1-3 Add events, each event the source of 1-3 flows; a flow body is drawn like a loop-leg body (3 in 6: "
    "statements, if / elif / else chains, bare / mixed while loops nested <= 2 with break / continue, when), as 1-2 group-leg statements at any "
    "of their places (2 in 6) or as 1-3 statements that need no label (1 in 6, control); 1 in 3 flows take a parameter; 1 in 3 get one more "
    "statement that refers to a flow added before it in this conversation, also one of the same event (await / start + match Finished / when "
    "/ or-group with a configured flow / activate / $w = await; with an argument when that flow takes one); 1 in 6 take the name of a flow "
    "added by an earlier event, which a Remove event removes first. All events go through RuntimeV2_x.process_events(blocking=True); the "
    "flow configs are read from the returned State. Every other generated 2.x program is compiled twice from the same parsed flows and "
    "a further state is initialised on the flow configs of the second compilation. "
    "Shares are visible in the labels (goto-same-label>=2, goto-forward-same-label>=2 [/in-block], >=3, goto-backward-same-label>=2, "
    "goto-both-sides-of-label; ellipsis, ellipsis-without-instructions|with-instructions[@flow-end|block-end|middle], ellipsis-in:top|if|else|while|when, ellipsis-inside-loop, "
    "ellipsis-comment-dropped-by-parse-mode, source-mapping:on|off; bad-flows0|1|2, bad:<keyword>[-group], bad-in:top|while|if|elif|else|when, bad-inside-loop, bad-flow-first|middle|last, "
    "valid-flows-behind-bad-flow, bad-flow-with-composites|otherwise-primitive, attemptsN, outcomes:accepted|rejected; form:*, kind:*, place:*, repeated-member/<form>, member-twice-in-alternative, dup-alternative+distinct>=2/"
    "<form>, dup-alternative/all-same, dup-alternative-reordered, dnf-altsN, refs:first|all; when-late-exit@flow-end / @followed / @block-end, bare|mixed+only-exit-branch"
    "@single|inner|outer, loop-nestN, elif-in-loop, exit-in-when; v2added: convsN, batchesN, flows-in-batchN, added:loops|groups, added-has:if|while|when|group, "
    "added/<loop and group shapes>, added-with-param, added-in-later-batch, added-uses-added-flow, added-uses:<form>, added-replaces-removed-flow; counters "
    "v2added:flows-added-and-closed, added-flows-with-jumps, jump-and-fork-elements-checked). Non-trivial = a flow whose source nests composite constructs >= 2 deep, or "
    "uses break/continue, or a group; v1 texts: >= 3 jump offsets; loop programs: every loop has an exit or loops are nested; group programs: a nested group, a repeated member or >= 2 "
    "alternatives; re-initialisation programs: >= 2 states initialised on the same flow configs (always); added flows: at least one added flow compiled to >= 1 jump / fork; for files: a file "
    "whose flows compile to >= 1 jump/fork. Distinct by program text / file path."
)
ASSUMPTIONS = [
    "generated 2.x programs are parsed once and compiled twice from the same parsed flows (what two LLMRails instances built from one RailsConfig do); both compilations must be closed",
    "a runtime creates its flow configs once and initialises a new State on the same FlowConfig objects for every conversation "
    "(RuntimeV2_x.process_events with state=None): the harness does the same at state-machine level - create_flow_configs_from_flow_list once, "
    "then State(flow_states={}, flow_configs=dict(configs)) + initialize_state per attempt; 'the loader accepts' = initialize_state returns. "
    "An attempt that raises (any exception type) is a rejection and asserts nothing; it is not required that all attempts have the same "
    "outcome - only that every flow config of an accepted state is closed. A generated program WITHOUT a rejected statement that is "
    "rejected counts as a violation (compile-error), as in the other generated legs",
    "flows that enter a running runtime: 'the loader' is also RuntimeV2_x._add_flows_action (system action AddFlowsAction, called by the "
    "library's LLM flow generation): it parses the source, expands the elements, builds a FlowConfig and calls initialize_flow on the live "
    "state; 'accepts' = the Added event of the harness' main flow lists exactly the names of the batch and they are in state.flow_configs. "
    "The source reaches the action as the `config` parameter of an external event (public event API, no access to flow contexts); the "
    "configuration starts with `# meta: exclude from llm` so that no embedding index is built. A batch the parser rejects (possible for "
    "group statements, as in leg v2groups) or that is not reported as added is counted as skipped (labels rejected / not-loaded; 0 on the "
    "unchanged tree), never as a violation; the added flows are not started - closure is a static predicate. One LLMRails instance per "
    "worker process serves all cases (the runtime copies its flow-config dict into every new conversation, so added flows do not leak into "
    "the next case); a violation seen there is re-run on a fresh instance and reported only if it reproduces (otherwise harness error)",
    "the statements the expansion rejects were established by probing (all raise ColangSyntaxError on the unchanged tree); `stop <flow>` "
    "(NotImplementedError without message) is not generated",
    "a send / match element whose spec is a bare flow or action (no member, not an event) counts as unexpanded: the expansion either "
    "rewrites or rejects every such element, so it cannot occur in a flow the loader accepted",
    "Colang 1.0: a `jump` element without `_next` is an unresolved jump (the interpreter adds `_next` to the position unconditionally); a "
    "remaining `goto` / `label` element likewise; where several gotos name one label nothing beyond closure (and, as before, that a goto "
    "lands on the element carrying its label) is asserted",
    "Colang 1.0 value generation: `$x = ...` is a statement the loader accepts with or without a comment above it (without one the "
    "generate_value action is compiled with instructions None - observed behaviour, nothing is asserted about the instructions); whatever "
    "it is compiled into, every offset of the flow must still land inside the flow and every goto on the element carrying its label. Texts "
    "are parsed with include_source_mapping True (default of parse_colang_file, what RailsConfig does) or False (comments dropped before "
    "compilation); the extra `_source_mapping` keys of the elements are ignored by the predicate",
    "scope closure is checked per scope name (every Begin is followed by an End, no End before its Begin), not per control-flow path",
    "duplicate labels are not forbidden by the statement and are not reported",
    "a shipped 2.x file that references flows defined outside the standard library and its own directory is counted as skipped",
    "closure only: a jump / loop exit that lands inside the flow but at another position than the source means (e.g. a when-branch jump "
    "that skips the statement behind the chain, an inner `break` carrying the outer loop's label) is not reported - the statement promises "
    "that every target exists inside the same flow, not which one it is; a Break / Continue left with label None is an unresolved loop exit",
    "break / continue are generated only inside while loops; nothing is generated behind an exit statement in the same block",
    "group programs: whether a repeated alternative is compiled once or several times is not asserted - only that whatever the expansion "
    "emits is closed (every ForkHead / Goto / failure-handler label exists, scopes closed, no group left); `activate` is generated with "
    "and-groups only (or-groups are rejected by the expansion); a bare statement or `$z = <group>` is not generated with a member in call "
    "syntax directly behind a leading `(` / `=` (the grammar reads it as an expression; such groups are written with `await`), and a group "
    "program the parser still rejects is counted as skipped (label rejected) - the statement quantifies over flows the loader accepts",
]
WALL = {"quick": 150, "thorough": 1500}
EXHAUSTIVE = False

_lib = {}


def budget(tier):
    return 3000 if tier == "quick" else 45000


# ---------------------------------------------------------------------------------------------
# shipped files


def _co_files():
    out = []
    for root, dirs, files in os.walk(env.REPO):
        dirs[:] = [d for d in dirs if d not in (".git", "node_modules", "__pycache__")]
        for f in files:
            if f.endswith(".co"):
                out.append(os.path.relpath(os.path.join(root, f), env.REPO))
    return sorted(out)


def _version_of(rel):
    p = rel.replace(os.sep, "/")
    if "/colang/v2_x/" in p or "/v2_x/" in p:
        return "2.x"
    if p.endswith(".v1.co") or p.endswith("llm_flows.co"):
        return "1.0"
    if p.startswith("nemoguardrails/library/"):
        return "2.x"
    d = os.path.dirname(os.path.join(env.REPO, rel))
    for _ in range(4):
        for name in ("config.yml", "config.yaml"):
            cfg = os.path.join(d, name)
            if os.path.exists(cfg):
                txt = open(cfg, encoding="utf-8", errors="replace").read()
                if "colang_version" in txt and "2.x" in txt.split("colang_version")[1][:12]:
                    return "2.x"
                return "1.0"
        d = os.path.dirname(d)
    return None  # decide by trying


def enumerate_cases(tier):
    for rel in _co_files():
        yield {"leg": "file", "path": rel}
    yield from _v1_ellipsis_family()
    yield from _v1_when_family()
    yield from _v1_when_loop_family()
    yield from _v1_goto_family()
    yield from _v2_loops_family()
    yield from _v2_groups_family()
    yield from _v2_reinit_family()
    yield from _v2_added_family()


_V1_EXITS = ["return", "return", "return $v0", "stop", "abort"]  # statements that leave the flow
_V1_TERMINATORS = ("return", "stop", "abort", "break", "continue")
_V1_GEN_HOWS = ["bare", "bare", "bare", "blank", "comment", "comment"]  # what stands right above a `$x = ...` statement
_V1_GEN_ABOVE = {"bare": [], "blank": [""], "comment": ["# Extract the value the user asked for."]}


def _v1_first_word(line):
    return line.strip().split(" ")[0]


@st.composite
def _v1_when(draw, depth, labels, in_loop):
    """A when / else when chain of 1-4 branches; every branch independently keeps its drawn block, or gets a flow exit
    (return / return $v / stop / abort) appended, or consists of the exit alone."""
    lines = []
    n = draw(st.integers(1, 4))
    for i in range(n):
        lines.append(("when" if i == 0 else "else when") + f" user intent w{draw(st.integers(0, 9))}{i}")
        tail = draw(st.sampled_from(["keep", "keep", "keep", "exit", "exit", "only-exit"]))
        blk = [] if tail == "only-exit" else draw(_v1_block(depth - 1, labels, in_loop))
        if tail != "keep" and not (blk and blk[-1] == blk[-1].lstrip() and _v1_first_word(blk[-1]) in _V1_TERMINATORS):
            blk.append(draw(st.sampled_from(_V1_EXITS)))
        lines += ["  " + x for x in blk]
    return lines


@st.composite
def _v1_block(draw, depth, labels, in_loop):
    """Colang 1.0 statements incl. the constructs vf/co1 does not model: label/checkpoint, goto, when/else when, break/continue,
    return / stop / abort as the last statement of a block."""
    lines = []
    for _ in range(draw(st.integers(1, 4))):
        kinds = ["bot", "bot", "set", "label", "exit", "gen"]
        if depth > 0:
            kinds += ["if", "while", "when"]
        if in_loop:
            kinds += ["break", "continue"]
        k = draw(st.sampled_from(kinds))
        if k == "bot":
            lines.append(f"bot say b{draw(st.integers(0, 5))}")
        elif k == "set":
            lines.append(f"$v{draw(st.integers(0, 1))} = {draw(st.integers(0, 3))}")
        elif k == "label":
            name = f"l{len(labels)}"
            labels.append(name)
            lines.append(draw(st.sampled_from(["label", "checkpoint"])) + " " + name)
        elif k == "gen":
            # value generation `$x = ...` (compiled into a generate_value action): the instructions are the comment right above the
            # statement - mostly there is none (bare, or only a blank line above), sometimes one (control)
            how = draw(st.sampled_from(_V1_GEN_HOWS))
            lines += _V1_GEN_ABOVE[how] + [f"$g{draw(st.integers(0, 2))} = ..."]
        elif k == "if":
            lines.append(f"if $v{draw(st.integers(0, 1))} == {draw(st.integers(0, 3))}")
            lines += ["  " + x for x in draw(_v1_block(depth - 1, labels, in_loop))]
            if draw(st.booleans()):
                lines.append("else")
                lines += ["  " + x for x in draw(_v1_block(depth - 1, labels, in_loop))]
        elif k == "while":
            lines.append(f"while $v{draw(st.integers(0, 1))} < {draw(st.integers(1, 3))}")
            lines += ["  " + x for x in draw(_v1_block(depth - 1, labels, True))]
        elif k == "when":
            lines += draw(_v1_when(depth, labels, in_loop))
        elif k == "exit":
            lines.append(draw(st.sampled_from(_V1_EXITS)))
            break
        else:
            lines.append(k)
            break
    return lines


def _v1_insert_goto(body, pos, name):
    """Inserts `goto name` in front of line `pos`, as a statement of the block the line above belongs to (or opens)."""
    ind = len(body[pos - 1]) - len(body[pos - 1].lstrip()) if pos > 0 else 0
    if pos > 0 and body[pos - 1].lstrip().split(" ")[0] in ("if", "while", "when", "else"):
        ind += 2
    body.insert(pos, " " * ind + "goto " + name)


@st.composite
def _v1_offsets_case(draw):
    flows = []
    for fi in range(draw(st.integers(1, 2))):
        labels = []
        depth = draw(st.integers(1, 3))
        body = draw(_v1_block(depth, labels, False))
        if draw(st.integers(0, 2)) == 0:
            # the flow ends with a when / else when chain (at top level, or as the last statement of a trailing if / else block)
            if body and body[-1] == body[-1].lstrip() and _v1_first_word(body[-1]) in _V1_TERMINATORS:
                body.pop()
            chain = draw(_v1_when(depth, labels, False))
            wrap = draw(st.sampled_from(["top", "top", "if", "else"]))
            if wrap == "if":
                chain = ["if $v0 == 1"] + ["  " + x for x in chain]
            elif wrap == "else":
                chain = ["if $v0 == 1", "  bot say b0", "else"] + ["  " + x for x in chain]
            body += chain
        # gotos only to labels that exist in this flow.  One more dimension: the goto plan - 'spread' (0-2 gotos, each to any label,
        # anywhere) or 'fan-in' (2-4 gotos that all name the SAME label, all in front of it / all behind it / on both sides; a flow
        # without a label gets one at top level first, in front of or behind the drawn body)
        plan = draw(st.sampled_from(["spread", "spread", "fan-in"]))
        if plan == "spread":
            for _ in range(draw(st.integers(0, 2)) if labels else 0):
                _v1_insert_goto(body, draw(st.integers(0, len(body))), draw(st.sampled_from(labels)))
        else:
            if not labels:
                labels.append("l0")
                line = draw(st.sampled_from(["label", "checkpoint"])) + " l0"
                if draw(st.booleans()):
                    body += [line, "bot say b9"]
                else:
                    body.insert(0, line)
            target = draw(st.sampled_from(labels))
            side = draw(st.sampled_from(["forward", "forward", "backward", "both"]))
            for gi in range(draw(st.integers(2, 4))):
                li = [i for i, ln in enumerate(body) if ln.strip() in ("label " + target, "checkpoint " + target)][0]
                fwd = side == "forward" or (side == "both" and gi % 2 == 0)
                pos = draw(st.integers(0, li)) if fwd else draw(st.integers(li + 1, len(body)))
                _v1_insert_goto(body, pos, target)
        head = draw(st.sampled_from(["define flow", "define flow", "define subflow"]))
        flows.append([f"{head} gen{fi}", f"  user intent start{fi}"] + ["  " + x for x in body])
    text = "\n".join("\n".join(f) for f in flows) + "\n"
    # parse mode: with source mapping (what the configuration loader does; comments reach the compiler as instructions of `$x = ...`)
    # or without (comments are dropped: every value generation is compiled without instructions)
    return {"leg": "v1text", "text": text, "source_mapping": draw(st.booleans())}


def _v1_when_family():
    """Enumerated: when / else when chains of 2-3 branches x what each branch ends with (nothing / return / return $v / stop) x
    branch with or without statements in front of the exit x where the chain stands (last statement group of the flow, followed
    by further statements, end of a while body, end of an if block with / without else, end of an else block, end of a branch
    of an outer when)."""
    import itertools

    tails = [None, "return", "return $v0", "stop"]
    for n in (2, 3):
        for combo in itertools.product(tails, repeat=n):
            if not any(combo):
                continue
            for with_body in (True, False):
                chain = []
                for i, t in enumerate(combo):
                    chain.append(("when" if i == 0 else "else when") + f" user intent w{i}")
                    if with_body or t is None:
                        chain.append(f"  bot say b{i}")
                    if t:
                        chain.append("  " + t)
                ind = lambda ls: ["  " + x for x in ls]  # noqa: E731
                contexts = {
                    "flow-end": chain,
                    "followed": chain + ["bot say after"],
                    "followed2": chain + ["bot say after", "$v1 = 2", "bot say more"],
                    "while-end": ["while $v0 < 2"] + ind(["bot say again"] + chain),
                    "while-end-followed": ["while $v0 < 2"] + ind(["bot say again"] + chain) + ["bot say after"],
                    "if-end": ["if $v0 == 1"] + ind(chain),
                    "if-end-else": ["if $v0 == 1"] + ind(chain) + ["else", "  bot say other"],
                    "else-end": ["if $v0 == 1", "  bot say other", "else"] + ind(chain),
                    "outer-when-end": ["when user intent o0"] + ind(chain) + ["else when user intent o1", "  bot say other"],
                }
                for cname, body in contexts.items():
                    text = "define subflow fam\n  user intent start\n" + "\n".join("  " + x for x in body) + "\n"
                    yield {"leg": "v1text", "text": text, "family": "when-exit/" + cname}


def _v1_ellipsis_family():
    """Enumerated: one value-generation statement `$name = ...` x what stands right above it (nothing / a blank line / an instructions
    comment - the control) x its position in its block (only statement / first / middle / last) x the block (top level, if block
    without / with else, else block, while body, if block in front of a break inside a while body, first / last branch of a when
    chain, while body inside an if block) x what follows the block (flow end / one statement / a label that a goto in front of the
    block jumps to) x parsed with / without source mapping."""
    ind = lambda ls: ["  " + x for x in ls]  # noqa: E731
    for how in ("bare", "blank", "comment"):
        g = _V1_GEN_ABOVE[how] + ["$name = ..."]
        for pos in ("only", "first", "middle", "last"):
            blk = {"only": g, "first": g + ["bot say b1"], "middle": ["bot say b0"] + g + ["bot say b1"], "last": ["bot say b0"] + g}[pos]
            places = {
                "top": blk,
                "if": ["if $v0 == 1"] + ind(blk),
                "if-then-with-else": ["if $v0 == 1"] + ind(blk) + ["else", "  bot say other"],
                "else": ["if $v0 == 1", "  bot say other", "else"] + ind(blk),
                "while": ["while $v0 < 2"] + ind(["$v0 = $v0 + 1"] + blk),
                "if-break-in-while": ["while $v0 < 2"] + ind(["$v0 = $v0 + 1", "if $v1 == 1"] + ind(blk + ["break"]) + ["bot say again"]),
                "when-first": ["when user intent w0"] + ind(blk) + ["else when user intent w1", "  bot say other"],
                "when-last": ["when user intent w0", "  bot say other", "else when user intent w1"] + ind(blk),
                "while-in-if": ["if $v1 == 1"] + ind(["while $v0 < 2"] + ind(["$v0 = $v0 + 1"] + blk)),
            }
            for pname, body in places.items():
                for ctx in ("flow-end", "followed", "goto-over"):
                    lines = body if ctx == "flow-end" else body + ["bot say after"] if ctx == "followed" else ["if $v2 == 1", "  goto done"] + body + ["label done", "bot say after"]
                    text = "define flow fam\n  user intent start\n" + "\n".join("  " + x for x in lines) + "\n"
                    for sm in (True, False):
                        yield {"leg": "v1text", "text": text, "source_mapping": sm, "family": f"ellipsis/{how}/{pname}"}


def _v1_when_loop_family():
    """Enumerated: a `when` block (1-2 branches, with / without statements) inside a `while` body x a loop exit (break / continue / none)
    in front of the block, inside a branch (first / last statement of it) and behind the block x the loop standing at the end of the flow
    or followed by a statement x one nesting level more (the inner loop sits in an outer loop)."""
    import itertools

    exits = [None, "break", "continue"]
    ind = lambda ls: ["  " + x for x in ls]  # noqa: E731
    for before, inside, after in itertools.product(exits, exits, exits):
        if not (before or inside or after):
            continue
        for branches in (1, 2):
            for inside_pos in ("first", "last") if inside else ("none",):
                chain = []
                for i in range(branches):
                    chain.append(("when" if i == 0 else "else when") + f" user intent w{i}")
                    br = [f"bot say b{i}"]
                    if inside and i == 0:
                        br = [inside] + br if inside_pos == "first" else br + [inside]
                    chain += ind(br)
                body = []
                if before:
                    body += ["if $v1 == 1"] + ind([before])
                body += ["bot say again"] + chain
                if after:
                    body += ["if $v1 == 2"] + ind([after]) + ["bot say tail"]
                loop = ["while $v0 < 2"] + ind(body)
                for ctx in ("flow-end", "followed", "nested"):
                    lines = loop if ctx == "flow-end" else loop + ["bot say after"] if ctx == "followed" else ["while $v2 < 2"] + ind(loop + ["bot say outer"]) + ["bot say after"]
                    text = "define flow fam\n  user intent start\n" + "\n".join("  " + x for x in lines) + "\n"
                    yield {"leg": "v1text", "text": text, "family": f"when-in-loop/{before or 'x'}-{inside or 'x'}{'@' + inside_pos if inside else ''}-{after or 'x'}/{ctx}"}


def _v1_goto_family():
    """Enumerated: 2-3 `goto` statements that name the SAME label x where the gotos stand (branches of one when chain, then / else
    block of one if, consecutive if blocks at top level, if blocks in a while body, when branch + if block + top level) x on which
    side of the label they stand (all in front of it = forward jumps, all behind it = backward jumps, first in front and the rest
    behind) x label / checkpoint x label at top level / as the last statement of an if block x with / without a second label that has
    a single goto of its own."""
    ind = lambda ls: ["  " + x for x in ls]  # noqa: E731

    def sites(k, g):
        """site shape -> list of k statement groups, each containing one `goto`"""
        out = {
            "when-branches": None,  # one chain: handled below (all gotos stand in one statement group)
            "if-blocks": [[f"if $v0 == {i}"] + ind([f"bot say b{i}", g]) for i in range(k)],
            "while-ifs": [["while $v1 < 3"] + ind([x for i in range(k) for x in [f"if $v0 == {i}"] + ind([g])] + ["$v1 = $v1 + 1"])],
            "mixed-depth": [["when user intent m0"] + ind(["bot say b0", g]) + ["else when user intent m1", "  bot say b1"], ["if $v0 == 1"] + ind(["while $v1 < 2"] + ind(["$v1 = $v1 + 1", "if $v1 == 2"] + ind([g])))] + ([[g]] if k == 3 else []),
        }
        if k == 2:
            out["if-else"] = [["if $v0 == 1"] + ind(["bot say b0", g]) + ["else"] + ind(["bot say b1", g])]
        chain = []
        for i in range(k):
            chain += [("when" if i == 0 else "else when") + f" user intent w{i}"] + ind([f"bot say b{i}", g])
        chain += [f"else when user intent w{k}", f"  bot say b{k}"]
        out["when-branches"] = [chain]
        return out

    for k in (2, 3):
        for sname, groups in sites(k, "goto done").items():
            for side in ("forward", "backward", "both"):
                if side == "both" and len(groups) < 2:
                    continue
                for word in ("label", "checkpoint"):
                    for lplace in ("top", "if-end"):
                        for second in (False, True):
                            lab = [word + " done"] if lplace == "top" else ["if $v1 == 0"] + ind(["bot say in", word + " done"])
                            cut = {"forward": len(groups), "backward": 0, "both": 1}[side]
                            body = [x for g_ in groups[:cut] for x in g_] + ["bot say mid"] + lab + ["bot say bye"] + [x for g_ in groups[cut:] for x in g_]
                            if second:
                                body = ["if $v0 == 7", "  goto other"] + body + ["label other", "bot say end"]
                            text = "define flow fam\n  user intent start\n" + "\n".join("  " + x for x in body) + "\n"
                            yield {"leg": "v1text", "text": text, "family": f"goto-fanin/{sname}/k{k}/{side}"}


# ---------------------------------------------------------------------------------------------
# Colang 2.x loops: JSON AST  ["s", text, needs_expansion] | ["x", "break"|"continue"] | ["if", [[cond, block]..], else|None]
#                             | ["while", cond, block] | ["when", [[spec, block]..], else|None]

_V2L_PLAIN = [  # statements the expansion leaves as they are
    "match Ev0()", "match Ev1()", "match Ev2(v=1)", "$x = $x + 1", "$y = 1", "$y = $y + 1", "send Out0()", "send Out1(v=$x)",
    'log "t"', 'print "t"', "match $a0.Finished()", 'match UtteranceUserAction.Finished(final_transcript="hi")',
]
_V2L_EXP = [  # statements that are rewritten into primitives
    'await UtteranceBotAction(script="x")', 'start UtteranceBotAction(script="y") as $a1', "await h0", "start h1 as $r0",
    "match Ev0() or Ev1()", "match Ev2() and Ev3()", "send Out0() and Out1()", "send Out0() or Out1()", "await h0 or h1",
    "start h0 and h1", "activate h1", "$z = await h0", "pass",
    "await h0 or h1 or h0", "(h0 or h1) and (h1 or h0)", "start h0 or h0 or h1", "match Ev0() or Ev1() or Ev0()",  # groups with a repeated member
]
_V2L_CONDS = ["$x < 3", "$y == 1", "True", "$x > $y", "$y < 2"]
_V2L_HEAD = 'flow h0\n  match Ev8()\n\nflow h1\n  match Ev9()\n\nflow main\n  $x = 0\n  $y = 0\n  start UtteranceBotAction(script="a") as $a0\n'


def _v2l_render(stmts, ind, out):
    p = "  " * ind
    for s in stmts:
        k = s[0]
        if k == "s":
            out.append(p + s[1])
        elif k == "x":
            out.append(p + s[1])
        elif k == "if":
            for i, (cond, blk) in enumerate(s[1]):
                out.append(p + ("if " if i == 0 else "elif ") + cond)
                _v2l_render(blk, ind + 1, out)
            if s[2] is not None:
                out.append(p + "else")
                _v2l_render(s[2], ind + 1, out)
        elif k == "while":
            out.append(p + "while " + s[1])
            _v2l_render(s[2], ind + 1, out)
        elif k == "when":
            for i, (spec, blk) in enumerate(s[1]):
                out.append(p + ("when " if i == 0 else "or when ") + spec)
                _v2l_render(blk, ind + 1, out)
            if s[2] is not None:
                out.append(p + "else")
                _v2l_render(s[2], ind + 1, out)
        else:
            raise ValueError(k)
    return out


def _v2l_text(body):
    return _V2L_HEAD + "\n".join(_v2l_render(body, 1, [])) + "\n  match Never()\n"


def _v2l_blocks(s):
    if s[0] in ("if", "when"):
        return [b for _, b in s[1]] + ([s[2]] if s[2] is not None else [])
    if s[0] == "while":
        return [s[2]]
    return []


def _v2l_shape(body):
    """Labels describing the loops of a v2loops program (share of each shape is visible in the evidence)."""
    labels = set()

    def scan(stmts, acc):
        # everything that belongs to the innermost enclosing loop body: nested if / when blocks included, nested loops excluded
        for s in stmts:
            if s[0] == "s":
                acc["exp" if s[2] else "plain"] += 1
            elif s[0] == "x":
                acc["exits"] += 1
            elif s[0] == "while":
                acc["loops"] += 1
            elif s[0] == "when":
                acc["when"] += 1
                for b in _v2l_blocks(s):
                    if b and b[-1][0] == "x":
                        acc["when-exit"] += 1
                    scan(b, acc)
            elif s[0] == "if":
                if len(s[1]) > 1:
                    acc["elif"] += 1
                for b in _v2l_blocks(s):
                    if len(b) == 1 and b[0][0] == "x":
                        acc["only-exit"] += 1
                    elif b and b[-1][0] == "x":
                        acc["guarded-exit"] += 1
                    scan(b, acc)

    def loops(stmts, nest):
        for s in stmts:
            if s[0] == "while":
                acc = dict.fromkeys(["exp", "plain", "exits", "loops", "when", "when-exit", "elif", "only-exit", "guarded-exit"], 0)
                scan(s[2], acc)
                bare = acc["exp"] == 0 and acc["when"] == 0
                where = "inner" if nest > 0 else "outer" if acc["loops"] else "single"
                labels.add("loop-bare" if bare else "loop-mixed")
                if acc["only-exit"]:
                    labels.add("only-exit-branch")
                    labels.add(("bare" if bare else "mixed") + "+only-exit-branch")
                    labels.add(("bare" if bare else "mixed") + "+only-exit-branch@" + where)
                if acc["guarded-exit"]:
                    labels.add("guarded-exit-branch")
                if acc["when-exit"]:
                    labels.add("exit-in-when")
                if acc["elif"]:
                    labels.add("elif-in-loop")
                if acc["exits"] == 0:
                    labels.add("loop-without-exit")
                labels.add(f"loop-nest{min(nest + 1, 3)}")
                loops(s[2], nest + 1)
            else:
                for b in _v2l_blocks(s):
                    loops(b, nest)

    loops(body, 0)
    return sorted(labels)


@st.composite
def _v2l_leaf(draw, bare):
    if bare or draw(st.booleans()):
        return ["s", draw(st.sampled_from(_V2L_PLAIN)), 0]
    return ["s", draw(st.sampled_from(_V2L_EXP)), 1]


@st.composite
def _v2l_branch(draw, depth, in_loop, bare):
    """Block of an if / elif / else / when branch: inside a loop a third of them consist of `break` / `continue` alone."""
    if in_loop and draw(st.integers(0, 2)) == 0:
        return [["x", draw(st.sampled_from(["break", "continue"]))]]
    return draw(_v2l_block(depth, in_loop, bare, 1, 2))


@st.composite
def _v2l_while(draw, depth):
    # one more dimension per loop: a 'bare' body holds only statements that need no expansion (plus if chains and loops)
    bare = draw(st.booleans())
    first = draw(st.sampled_from([0, 0, 1, 2]))  # 0: the body starts with a plain wait, 1: with an expanded one, 2: with anything
    body = []
    if first == 0 or (first == 1 and bare):
        body.append(["s", draw(st.sampled_from(["match Ev0()", "match Ev1()", "match Ev2(v=1)"])), 0])
    elif first == 1:
        body.append(["s", draw(st.sampled_from(['await UtteranceBotAction(script="x")', "await h0", "match Ev0() or Ev1()"])), 1])
    body += draw(_v2l_block(depth, True, bare, 1, 3))
    return ["while", draw(st.sampled_from(_V2L_CONDS)), body]


@st.composite
def _v2l_block(draw, depth, in_loop, bare, min_n=1, max_n=3):
    out = []
    for _ in range(draw(st.integers(min_n, max_n))):
        kinds = ["leaf", "leaf", "leaf"]
        if depth > 0:
            kinds += ["if", "if", "while"] + ([] if bare else ["when"])
        if in_loop:
            kinds += ["exit"]
        k = draw(st.sampled_from(kinds))
        if k == "leaf":
            out.append(draw(_v2l_leaf(bare)))
        elif k == "if":
            conds = [[draw(st.sampled_from(_V2L_CONDS)), draw(_v2l_branch(depth - 1, in_loop, bare))] for _ in range(draw(st.sampled_from([1, 1, 2, 3])))]
            els = None
            if draw(st.booleans()):
                els = draw(_v2l_branch(depth - 1, in_loop, bare))
                if els[0][0] == "if":  # `else` + newline + `if` is lexed as `else if` by the 2.x grammar: never start an else block with `if`
                    els = [["s", "$y = 0", 0]] + els
            out.append(["if", conds, els])
        elif k == "while":
            out.append(draw(_v2l_while(depth - 1)))
        elif k == "when":
            specs = draw(st.lists(st.sampled_from(["Ev0()", "Ev1()", "Ev3(v=0)", "h0", "h1", 'UtteranceBotAction(script="w")']), min_size=1, max_size=3, unique=True))
            cases = [[sp, draw(_v2l_branch(depth - 1, in_loop, bare))] for sp in specs]
            els = None
            if any(not sp.startswith("Ev") for sp in specs) and draw(st.booleans()):
                els = draw(_v2l_branch(depth - 1, in_loop, bare))
                if els[0][0] == "if":
                    els = [["s", "$y = 0", 0]] + els
            out.append(["when", cases, els])
        else:
            out.append(["x", draw(st.sampled_from(["break", "continue"]))])
            break  # nothing after an exit in the same block
    return out


@st.composite
def _v2_loops_case(draw):
    depth = draw(st.integers(1, 3))
    body = []
    for _ in range(draw(st.integers(1, 3))):
        if draw(st.integers(0, 2)) == 0:
            body += draw(_v2l_block(depth, False, False, 1, 2))
        else:
            body.append(draw(_v2l_while(depth)))
    if not any(s[0] == "while" for s in body):
        body.append(draw(_v2l_while(depth)))
    return {"leg": "v2loops", "body": body}


def _v2_loops_family():
    """Enumerated: one while loop whose body is  <neighbour statements> + <if / elif / else chain with break / continue>  for
    every combination of neighbour set x chain form x how the branches end x where the loop stands (alone, inside another loop,
    around another loop, chain nested in an outer if) x chain last in the body or followed by a statement."""
    m, a = ["s", "match Ev0()", 0], ["s", "$x = $x + 1", 0]
    neighbours = {
        "none": [], "match": [m], "assign": [a], "match+assign": [m, a], "match+send": [m, ["s", "send Out0()", 0]],
        "match+log": [m, ["s", 'log "t"', 0]], "match-ref": [["s", "match $a0.Finished()", 0]],
        "await-action": [["s", 'await UtteranceBotAction(script="x")', 1]], "match+start": [m, ["s", 'start UtteranceBotAction(script="y") as $a1', 1]],
        "await-flow": [["s", "await h0", 1]], "match-group": [["s", "match Ev0() or Ev1()", 1]], "match+send-group": [m, ["s", "send Out0() and Out1()", 1]],
        "when": [["when", [["Ev0()", [a]], ["Ev1()", [["s", "$y = 1", 0]]]], None]],
    }
    forms = {"if": (1, False), "if-else": (1, True), "if-elif": (2, False), "if-elif-else": (2, True), "if-elif-elif-else": (3, True)}
    g = ["s", "$y = 1", 0]

    def fill(pattern, nb):
        if pattern == "all-break":
            return [[["x", "break"]] for _ in range(nb)]
        if pattern == "all-continue":
            return [[["x", "continue"]] for _ in range(nb)]
        if pattern == "alternating":
            return [[["x", "break" if i % 2 == 0 else "continue"]] for i in range(nb)]
        if pattern == "first-guarded":
            return [[g, ["x", "break"]]] + [[["x", "continue" if i % 2 == 0 else "break"]] for i in range(nb - 1)]
        if pattern == "last-only-exit":
            return [[g] for _ in range(nb - 1)] + [[["x", "break"]]]
        raise ValueError(pattern)

    for nname, nb_stmts in neighbours.items():
        for fname, (nconds, has_else) in forms.items():
            for pattern in ("all-break", "all-continue", "alternating", "first-guarded", "last-only-exit"):
                blocks = fill(pattern, nconds + (1 if has_else else 0))
                chain = ["if", [[_V2L_CONDS[i], blocks[i]] for i in range(nconds)], blocks[nconds] if has_else else None]
                loop = ["while", "$x < 3", nb_stmts + [chain]]
                places = {
                    "single": [loop],
                    "single-followed": [["while", "$x < 3", nb_stmts + [chain, g]]],
                    "inner-of-bare": [["while", "$y < 2", [loop]]],
                    "inner-of-waiting": [["while", "$y < 2", [m, loop, g]]],
                    "outer": [["while", "$x < 3", [["while", "$y < 2", [["s", "match Ev1()", 0], ["s", "$y = $y + 1", 0]]]] + nb_stmts + [chain]]],
                    "chain-in-if": [["while", "$x < 3", nb_stmts + [["if", [["$y == 0", [chain]]], None]]]],
                }
                for pname, body in places.items():
                    yield {"leg": "v2loops", "body": body, "family": f"loop-exit/{nname}/{fname}/{pattern}/{pname}"}


# ---------------------------------------------------------------------------------------------
# Colang 2.x group formulas: a formula is a leaf index (int) or [op, [child, ...]] with op in ("or", "and"); a leaf index selects a
# member of the pool of the statement's kind, so the same index twice is the same flow / action / event (with the same arguments)
# twice.  A statement is {"form", "kind", "fs": [formula, ...], "refs": 0|1|2, "else": bool}; a flow is a list of
# {"place", "stmt"}; a case is {"leg": "v2groups", "flows": [[...], ...]}.

_V2G_POOLS = {
    "flow": ["g0", "g1", "g2", "g3"],
    "argflow": ['gp "x"', 'gp "y"', "g0", 'gp "z"'],  # the same flow with different arguments are different members
    "action": ['UtteranceBotAction(script="a")', 'UtteranceBotAction(script="b")', 'GestureBotAction(gesture="g")', 'UtteranceBotAction(script="c")'],
    "mixed": ["g0", 'UtteranceBotAction(script="a")', "g1", 'gp "x"'],
    "event": ["Ev0()", "Ev1(v=1)", 'UtteranceUserAction.Finished(final_transcript="hi")', "g0.Finished()"],
    "out": ["Out0()", "Out1(v=1)", 'Out3(t="x")', "Out2()"],
    "mixed-event": ["Ev0()", "g1", 'UtteranceBotAction(script="a")', "Ev1(v=1)"],  # when cases only: events are matched, the rest is started
}
_V2G_STARTED = ["flow", "argflow", "action", "mixed"]
_V2G_FORMS = {  # statement form -> kinds of members it takes
    "await": _V2G_STARTED, "bare": _V2G_STARTED, "assign-await": _V2G_STARTED, "assign-bare": _V2G_STARTED, "start": _V2G_STARTED,
    "match": ["event"], "send": ["out"], "when": _V2G_STARTED + ["event", "mixed-event"], "activate": ["flow", "argflow"],
}
_V2G_PREFIX = {"await": "await ", "bare": "", "assign-await": "$z = await ", "assign-bare": "$z = ", "start": "start ", "match": "match ", "send": "send ", "activate": "activate "}
_V2G_PLACES = ["top", "while", "while-break", "if", "else", "when-branch"]
_V2G_HEAD = "".join(f"flow g{i}\n  match Eg{i}()\n\n" for i in range(4)) + "flow gp $t\n  match Egp(t=$t)\n\n"


def _v2g_leaves(f):
    return [f] if isinstance(f, int) else [x for c in f[1] for x in _v2g_leaves(c)]


def _v2g_dnf(f):
    """Disjunctive normal form of a formula: list of alternatives, each a tuple of leaf indices (in source order)."""
    if isinstance(f, int):
        return [(f,)]
    parts = [_v2g_dnf(c) for c in f[1]]
    if f[0] == "or":
        return [alt for p in parts for alt in p]
    out = [()]
    for p in parts:
        out = [a + b for a in out for b in p]
    return out


def _v2g_force_and(f):
    return f if isinstance(f, int) else ["and", [_v2g_force_and(c) for c in f[1]]]


def _v2g_render_formula(f, pool, refs, counter, top=True):
    if isinstance(f, int):
        txt = pool[f % len(pool)]
        counter[0] += 1
        if refs == 2 or (refs == 1 and counter[0] == 1):
            counter[1] += 1
            txt += f" as $r{counter[1]}"
        return txt
    txt = f" {f[0]} ".join(_v2g_render_formula(c, pool, refs, counter, False) for c in f[1])
    return txt if top else "(" + txt + ")"


def _v2g_bare_ok(s):
    """The 2.x grammar reads a statement that begins with `(` directly followed by a member in call syntax as something else
    (`(UtteranceBotAction(script="a") or g0) or g1` is a syntax error or an assignment, `(g0 or ...` is a group), and so it does with
    `$z = UtteranceBotAction(script="a") or g0`: such groups are written with an explicit `await`."""
    if s["form"] not in ("bare", "assign-bare"):
        return True
    f = s["fs"][0]
    if s["form"] == "bare" and (isinstance(f, int) or isinstance(f[1][0], int)):
        return True
    pool = _V2G_POOLS[s["kind"]]
    return "(" not in pool[_v2g_leaves(f)[0] % len(pool)]


def _v2g_render_stmt(s, ind, out, refc):
    p = "  " * ind
    pool = _V2G_POOLS[s["kind"]]
    if s["form"] == "when":
        for i, f in enumerate(s["fs"]):
            out.append(p + ("when " if i == 0 else "or when ") + _v2g_render_formula(f, pool, s.get("refs", 0), [0, refc[0]]))
            refc[0] += len(_v2g_leaves(f))
            out.append(p + f"  $y = {i + 1}")
        if s.get("else"):
            out.append(p + "else")
            out.append(p + "  $y = 0")
        return
    f = _v2g_force_and(s["fs"][0]) if s["form"] == "activate" else s["fs"][0]
    out.append(p + _V2G_PREFIX[s["form"]] + _v2g_render_formula(f, pool, s.get("refs", 0), [0, refc[0]]))
    refc[0] += len(_v2g_leaves(f))


def _v2g_items(items, out):
    """Renders the group statements of one flow (each at its place) as lines of the flow body."""
    refc = [0]
    for it in items:
        place, s = it["place"], it["stmt"]
        if place == "top":
            _v2g_render_stmt(s, 1, out, refc)
        elif place == "while":
            out.append("  while $x < 3")
            _v2g_render_stmt(s, 2, out, refc)
            out.append("    $x = $x + 1")
        elif place == "while-break":
            out.append("  while True")
            _v2g_render_stmt(s, 2, out, refc)
            out += ["    if $y == 1", "      break"]
        elif place == "if":
            out.append("  if $y == 0")
            _v2g_render_stmt(s, 2, out, refc)
        elif place == "else":
            out += ["  if $y == 0", "    $y = 1", "  else"]
            _v2g_render_stmt(s, 2, out, refc)
        elif place == "when-branch":
            out.append("  when Ev9()")
            _v2g_render_stmt(s, 2, out, refc)
            out += ["  or when Ev8()", "    $y = 2"]
        else:
            raise ValueError(place)
    return out


def _v2g_text(flows):
    out = []
    for fi, items in enumerate(flows):
        out += [f"flow t{fi}", "  $x = 0", "  $y = 0"]
        _v2g_items(items, out)
        out += ["  send Done()", ""]
    return _V2G_HEAD + "\n".join(out) + "\nflow main\n  match Never()\n"


def _v2g_shape(flows):
    """Labels for the group statements of a v2groups program: form, member kind, place, and how members repeat - the same member
    twice anywhere in the formula, twice inside one alternative of the normal form, the same alternative (as a set of members) twice
    while >= 2 different alternatives remain / while all alternatives are the same."""
    labels = set()
    for items in flows:
        for it in items:
            s = it["stmt"]
            labels.add("form:" + s["form"])
            labels.add("kind:" + s["kind"])
            labels.add("place:" + it["place"])
            if s.get("refs"):
                labels.add("refs:" + ("first" if s["refs"] == 1 else "all"))
            for f in s["fs"]:
                if s["form"] == "activate":
                    f = _v2g_force_and(f)
                n = len(_V2G_POOLS[s["kind"]])
                leaves = [x % n for x in _v2g_leaves(f)]
                alts = [tuple(x % n for x in a) for a in _v2g_dnf(f)]
                sets = [frozenset(a) for a in alts]
                labels.add(f"dnf-alts{min(len(alts), 5)}{'+' if len(alts) >= 5 else ''}")
                if not isinstance(f, int) and any(not isinstance(c, int) for c in f[1]):
                    labels.add("nested-group")
                if len(set(leaves)) < len(leaves):
                    labels.add("repeated-member")
                    labels.add("repeated-member/" + s["form"])
                if any(len(set(a)) < len(a) for a in alts):
                    labels.add("member-twice-in-alternative")
                if len(set(sets)) < len(sets):
                    tag = "dup-alternative+distinct>=2" if len(set(sets)) >= 2 else "dup-alternative/all-same"
                    labels.add(tag)
                    labels.add(tag + "/" + s["form"])
                    if len(set(alts)) == len(alts):
                        labels.add("dup-alternative-reordered")  # `a and b` next to `b and a`
    return sorted(labels)


@st.composite
def _v2g_formula(draw, npool):
    """Group formula with 2-8 member slots filled from a pool of npool members (npool <= 2 forces repetition), then one of:
    as drawn / one top-level child repeated at the end (a or b -> a or b or a) / the whole formula mirrored under a second
    operator ((a or b) and (b or a))."""
    leaf = st.integers(0, npool - 1)

    def group(depth):
        child = leaf if depth <= 0 else st.one_of(leaf, leaf, st.deferred(lambda: group(depth - 1)))
        return st.tuples(st.sampled_from(["or", "or", "and"]), st.lists(child, min_size=2, max_size=3)).map(lambda t: [t[0], t[1]])

    f = draw(group(draw(st.sampled_from([0, 0, 1, 1, 2]))))
    while len(_v2g_leaves(f)) > 5:  # keep the normal form small: drop children of the widest group
        f = [f[0], f[1][:-1]] if len(f[1]) > 2 else f[1][0]
        if isinstance(f, int):
            f = ["or", [f, draw(leaf)]]
    rep = draw(st.sampled_from(["as-drawn", "as-drawn", "repeat-child", "mirror"]))
    if rep == "repeat-child":
        k = draw(st.integers(0, len(f[1]) - 1))
        f = [f[0], f[1] + [f[1][k]]]
    elif rep == "mirror" and len(_v2g_leaves(f)) <= 3:
        def rev(x):
            return x if isinstance(x, int) else [x[0], [rev(c) for c in reversed(x[1])]]

        f = [draw(st.sampled_from(["and", "or"])), [f, rev(f)]]
    return f


@st.composite
def _v2g_stmt(draw):
    form = draw(st.sampled_from(["await", "await", "bare", "bare", "assign-await", "assign-bare", "start", "match", "send", "when", "when", "activate"]))
    kind = draw(st.sampled_from(_V2G_FORMS[form]))
    npool = draw(st.sampled_from([2, 2, 3, 3, 4]))
    s = {"form": form, "kind": kind, "fs": [draw(_v2g_formula(npool))], "refs": 0 if form in ("send", "activate") else draw(st.sampled_from([0, 0, 0, 1, 2]))}
    if not _v2g_bare_ok(s):
        s["form"] = {"bare": "await", "assign-bare": "assign-await"}[form]
    if form == "when":
        for _ in range(draw(st.integers(0, 2))):
            s["fs"].append(draw(_v2g_formula(npool)))
        s["else"] = kind not in ("event",) and draw(st.booleans())
    return s


@st.composite
def _v2_groups_case(draw):
    flows = []
    for _ in range(draw(st.integers(1, 3))):
        flows.append([{"place": draw(st.sampled_from(_V2G_PLACES)), "stmt": draw(_v2g_stmt())} for _ in range(draw(st.integers(1, 3)))])
    return {"leg": "v2groups", "flows": flows}


def _v2_groups_family():
    """Enumerated: every small group formula up to renaming of its members - flat groups of 2-4 members, (x op y) op' (z op w),
    x op' (y op z), (x op y) op' z for op, op' in {or, and}, member slots filled with every pattern of equal / different members
    (set partitions of the slots: aa, ab; aaa .. abc; aaaa .. abcd) - x statement form x member kind; the place rotates."""

    def patterns(n):  # restricted growth strings = which slots hold the same member
        out = [[0]]
        for _ in range(n - 1):
            out = [p + [v] for p in out for v in range(max(p) + 2)]
        return out

    formulas = []
    for op in ("or", "and"):
        for n in (2, 3, 4):
            for p in patterns(n):
                formulas.append((f"flat{n}-{op}", [op, list(p)]))
    for op in ("or", "and"):
        for op2 in ("or", "and"):
            for p in patterns(4):
                formulas.append((f"({op})-{op2}-({op})", [op2, [[op, p[:2]], [op, p[2:]]]]))
            for p in patterns(3):
                formulas.append((f"x-{op2}-({op})", [op2, [p[0], [op, p[1:]]]]))
                formulas.append((f"({op})-{op2}-x", [op2, [[op, p[:2]], p[2]]]))
    n = 0
    for form, kinds in _V2G_FORMS.items():
        for kind in kinds:
            if form in ("assign-await", "assign-bare") and kind != "flow":
                continue
            for shape, f in formulas:
                if form == "activate" and "or" in shape:
                    continue
                place = _V2G_PLACES[(n // 3) % len(_V2G_PLACES)] if n % 3 == 0 else "top"
                n += 1
                stmt = {"form": form, "kind": kind, "fs": [f], "refs": 0}
                if form == "when":
                    stmt["else"] = kind != "event" and n % 2 == 0
                if not _v2g_bare_ok(stmt):
                    continue
                yield {"leg": "v2groups", "flows": [[{"place": place, "stmt": stmt}]], "family": f"group-repeat/{form}/{kind}/{shape}"}


# ---------------------------------------------------------------------------------------------
# Colang 2.x configurations initialised several times on the SAME flow configs (one runtime, several conversations), with 0-2 flows
# whose expansion raises.  A flow body is a v2loops AST; a non-expandable statement is the leaf ["s", text, 2].

_V2R_BAD = [  # statements the parser accepts and the expansion rejects
    "match h0", "activate Ev0()", "send h0", "await Ev0()", "deactivate Ev0()", "start Ev1()",
    "match h1 or Ev1()", "activate h0 or h1", "send h1 and Out0()", "await Ev0() or h0", "deactivate h0 or h1", "start Ev0() and h0",
    'match UtteranceBotAction(script="x")', 'activate UtteranceBotAction(script="x")', 'send UtteranceBotAction(script="x")',
    "match Ev0() and h0", "activate h0 and Ev1()", "$z = await Ev2()",
]
_V2R_HEAD = "flow h0\n  match Ev8()\n\nflow h1\n  match Ev9()\n\n"


def _v2r_blocks(body, in_loop=False, kind="top"):
    """All blocks of a body as (block, kind of the innermost construct that owns it, inside a loop)."""
    out = [(body, kind, in_loop)]
    for s in body:
        if s[0] == "while":
            out += _v2r_blocks(s[2], True, "while")
        elif s[0] == "if":
            for i, b in enumerate(_v2l_blocks(s)):
                out += _v2r_blocks(b, in_loop, "if" if i == 0 else "else" if (s[2] is not None and i == len(s[1])) else "elif")
        elif s[0] == "when":
            for i, b in enumerate(_v2l_blocks(s)):
                out += _v2r_blocks(b, in_loop, "when-else" if (s[2] is not None and i == len(s[1])) else "when")
    return out


def _v2r_insert(body, block_no, pos, text):
    """Puts the non-expandable statement into block `block_no` (modulo the number of blocks) in front of statement `pos` (modulo
    the number of places; never behind a break / continue that closes the block).  Returns the kind of the block."""
    blocks = _v2r_blocks(body)
    blk, kind, in_loop = blocks[block_no % len(blocks)]
    n = len(blk) - 1 if blk and blk[-1][0] == "x" else len(blk)
    blk.insert(pos % (n + 1), ["s", text, 2])
    return kind


def _v2r_text(case):
    out = [_V2R_HEAD.rstrip("\n"), ""]
    for i, fl in enumerate(case["flows"]):
        out += [f"flow f{i}", "  $x = 0", "  $y = 0", '  start UtteranceBotAction(script="a") as $a0']
        _v2l_render(fl, 1, out)
        out.append("")
    out.append("flow main")
    for i in case.get("activate", []):
        out.append(f"  activate f{i}")
    out += ["  match Never()", ""]
    return "\n".join(out)


def _v2r_shape(case):
    labels = set()
    bad_flows = []
    for i, fl in enumerate(case["flows"]):
        hits = [(b, kind, in_loop) for b, kind, in_loop in _v2r_blocks(fl) for s in b if s[0] == "s" and s[2] == 2]
        if hits:
            bad_flows.append(i)
        for b, kind, in_loop in hits:
            labels.add("bad-in:" + kind)
            if in_loop:
                labels.add("bad-inside-loop")
            for s in b:
                if s[0] == "s" and s[2] == 2:
                    labels.add("bad:" + s[1].split(" ")[0 if not s[1].startswith("$") else 2] + ("-group" if " or " in s[1] or " and " in s[1] else ""))
        composite = any(s[0] in ("while", "if", "when") or (s[0] == "s" and s[2] == 1) for b, _, _ in _v2r_blocks(fl) for s in b)
        if hits and composite:
            labels.add("bad-flow-with-composites")
        elif hits:
            labels.add("bad-flow-otherwise-primitive")
    n = len(case["flows"])
    labels.add(f"bad-flows{len(bad_flows)}")
    labels.add(f"attempts{case['attempts']}")
    for i in bad_flows:
        labels.add("bad-flow-" + ("first" if i == 0 else "last" if i == n - 1 else "middle") + ("" if n > 1 else "-only"))
    if bad_flows and bad_flows[0] < n - 1:
        labels.add("valid-flows-behind-bad-flow")
    if case.get("activate"):
        labels.add("main-activates")
    return sorted(labels), bool(bad_flows)


@st.composite
def _v2_reinit_case(draw):
    depth = draw(st.integers(1, 2))
    flows = []
    for _ in range(draw(st.integers(1, 4))):
        body = []
        for _ in range(draw(st.integers(1, 2))):
            if draw(st.booleans()):
                body += draw(_v2l_block(depth, False, False, 1, 2))
            else:
                body.append(draw(_v2l_while(depth)))
        flows.append(body)
    nbad = draw(st.sampled_from([1, 1, 2, 1, 1, 0]))
    for fi in draw(st.lists(st.integers(0, len(flows) - 1), min_size=nbad, max_size=nbad)):  # the same flow twice: two bad statements in it
        _v2r_insert(flows[fi], draw(st.integers(0, 11)), draw(st.integers(0, 5)), draw(st.sampled_from(_V2R_BAD)))
    act = draw(st.lists(st.integers(0, len(flows) - 1), max_size=2, unique=True))
    return {"leg": "v2reinit", "flows": flows, "activate": sorted(act), "attempts": draw(st.sampled_from([2, 3, 2]))}


def _v2_reinit_family():
    """Enumerated: three flows, one of them with one non-expandable statement, for every such statement x where it stands in the flow
    (first / last statement, in a while body, in an if / else block, in a when branch, in an if block inside a loop in front of a
    break) x whether the flow is the first, middle or last one x whether its other statements need expansion; initialised 3 times."""
    m, a = ["s", "match Ev0()", 0], ["s", "$x = $x + 1", 0]
    valid1 = [["while", "$x < 3", [["s", "await h0", 1], ["if", [["$x == 2", [["x", "break"]]]], None], a]], ["s", "await h0 or h1", 1]]
    valid2 = [["when", [["Ev0()", [a]], ["h1", [["s", "$y = 1", 0]]]], None], ["s", "start h1 as $r0", 1], ["s", "match $r0.Finished()", 0]]

    def hosts(bad, rich):
        b = ["s", bad, 2]
        w = ["s", "await h1", 1] if rich else m
        return {
            "top-first": [b, w, a],
            "top-last": [w, a, b],
            "while": [["while", "$x < 3", [w, b, a]]],
            "if": [w, ["if", [["$x == 1", [b]]], None]],
            "else": [w, ["if", [["$x == 1", [a]]], [b]]],
            "when": [["when", [["Ev1()", [b]], ["Ev2()", [a]]], None], w],
            "loop-if-break": [["while", "$x < 3", [w, ["if", [["$y == 1", [b, ["x", "break"]]]], None], a]]],
        }

    for bad in _V2R_BAD:
        for rich in (True, False):
            for hname, host in hosts(bad, rich).items():
                for pos in (0, 1, 2):
                    flows = [valid1, valid2]
                    flows.insert(pos, host)
                    yield {"leg": "v2reinit", "flows": flows, "activate": [0] if pos != 0 else [], "attempts": 3,
                           "family": f"expansion-raises/{bad.split(' ')[0 if not bad.startswith('$') else 2]}/{hname}/{('first', 'middle', 'last')[pos]}"}


# ---------------------------------------------------------------------------------------------
# Colang 2.x flows that enter a RUNNING runtime: AddFlowsAction (what the library's LLM flow generation calls) parses the source,
# builds FlowConfigs from the already expanded elements and initialises them in the live state.  A case is
# {"leg": "v2added", "convs": [[batch, ...], ...]}: 1-2 conversations on ONE LLMRails / RuntimeV2_x instance, each with 1-3 Add events
# (batches) of 1-3 flow definitions.  A definition is {"kind": "loops", "body": <v2loops AST>} | {"kind": "groups", "items":
# [{"place", "stmt"}, ...]} plus "param" (the flow takes a parameter), "use": [k, form] | None (one more statement that awaits / starts /
# activates / waits in a when or an or-group for the k-th flow added before it in this conversation) and "replace": k | None (the
# definition takes the name of the k-th flow of an earlier batch, which a RemoveFlowsAction removes first).

_V2A_HOST = (
    "# meta: exclude from llm\n\n"  # keeps the flows out of the LLM flow index: no embedding model is needed
    + _V2R_HEAD
    + _V2G_HEAD
    + "flow configured $t\n  $n = 0\n  while $n < 2\n    $n = $n + 1\n    if $n == 1\n      continue\n    else\n      break\n  await h0 or h1\n\n"
    + "flow main\n  while True\n    when Add() as $e\n      $added = await AddFlowsAction(config=$e.config)\n      send Added(names=$added)\n"
    + "    or when Remove() as $e\n      await RemoveFlowsAction(flow_ids=$e.flow_ids)\n      send Removed()\n"
)
_V2A_USES = ["await", "start", "when", "or-group", "activate", "assign"]


def _v2a_name(n):
    return f"dyn f{n}"


def _v2a_use_lines(form, name, arg):
    ref = name + arg
    if form == "await":
        return [f"  await {ref}"]
    if form == "start":
        return [f"  start {ref} as $u0", "  match $u0.Finished()"]
    if form == "when":
        return [f"  when {ref}", "    $y = 5", "  or when Ev1()", "    $y = 6"]
    if form == "or-group":
        return [f"  await {ref} or h0"]
    if form == "activate":
        return [f"  activate {ref}"]
    return [f"  $w = await {ref}"]


def _v2a_flow_text(fd, name, use):
    """Source of one flow definition; `use` = (form, name of an earlier added flow, argument text) or None."""
    out = ["flow " + name + (" $t" if fd.get("param") else ""), "  $x = 0", "  $y = 0"]
    if fd["kind"] == "loops":
        out.append('  start UtteranceBotAction(script="a") as $a0')
        _v2l_render(fd["body"], 1, out)
    else:
        _v2g_items(fd["items"], out)
    if use is not None:
        out += _v2a_use_lines(*use)
    out.append("  send Done()")
    return "\n".join(out) + "\n"


def _v2a_plan(case):
    """The events of a case: per conversation a list of steps {"remove": [names], "text": source, "names": [names], "defs": [...]}.
    Names are assigned here (so a definition is pure data): new flows are numbered in the order they are added."""
    convs = []
    for batches in case["convs"]:
        steps, order, present, params, count = [], [], [], {}, 0
        for batch in batches:
            earlier = list(order)  # flows of earlier batches (in the order they were added first)
            remove, names, texts, used = [], [], [], []
            for fd in batch:
                name = None
                if fd.get("replace") is not None and earlier:
                    cand = earlier[fd["replace"] % len(earlier)]
                    if cand not in names:
                        name = cand
                        if cand in present:
                            present.remove(cand)
                            remove.append(cand)
                if name is None:
                    name = _v2a_name(count)
                    count += 1
                    order.append(name)
                use = None
                if fd.get("use") is not None and present:
                    target = present[fd["use"][0] % len(present)]
                    use = (fd["use"][1], target, ' "v"' if params[target] else "")
                    used.append(fd["use"][1])
                texts.append(_v2a_flow_text(fd, name, use))
                names.append(name)
                present.append(name)
                params[name] = bool(fd.get("param"))
            steps.append({"remove": remove, "text": "\n".join(texts), "names": names, "uses": used})
        convs.append(steps)
    return convs


def _v2a_shape(case, plan):
    labels = {f"convs{len(case['convs'])}"}
    for batches, steps in zip(case["convs"], plan):
        labels.add(f"batches{len(batches)}")
        for bi, (batch, step) in enumerate(zip(batches, steps)):
            labels.add(f"flows-in-batch{len(batch)}")
            if bi > 0:
                labels.add("added-in-later-batch")
            if step["remove"]:
                labels.add("added-replaces-removed-flow")
            for form in step["uses"]:
                labels.add("added-uses-added-flow")
                labels.add("added-uses:" + form)
            for fd in batch:
                labels.add("added:" + fd["kind"])
                if fd.get("param"):
                    labels.add("added-with-param")
                if fd["kind"] == "loops":
                    for x in _v2l_shape(fd["body"]):
                        if x in ("loop-bare", "loop-mixed", "only-exit-branch", "exit-in-when", "elif-in-loop", "loop-nest2", "loop-nest3"):
                            labels.add("added/" + x)
                    kinds = {s[0] for b, _, _ in _v2r_blocks(fd["body"]) for s in b}
                    for k in ("if", "while", "when"):
                        if k in kinds:
                            labels.add("added-has:" + k)
                    if any(s[0] == "s" and s[2] == 1 and (" or " in s[1] or " and " in s[1]) for b, _, _ in _v2r_blocks(fd["body"]) for s in b):
                        labels.add("added-has:group")
                else:
                    labels.add("added-has:group")
                    for x in _v2g_shape([fd["items"]]):
                        if x.startswith("form:") or x in ("repeated-member", "nested-group"):
                            labels.add("added/" + x)
    return sorted(labels)


@st.composite
def _v2a_flow(draw):
    kind = draw(st.sampled_from(["loops", "loops", "loops", "groups", "groups", "plain"]))
    if kind == "groups":
        fd = {"kind": "groups", "items": [{"place": draw(st.sampled_from(_V2G_PLACES)), "stmt": draw(_v2g_stmt())} for _ in range(draw(st.integers(1, 2)))]}
    elif kind == "plain":  # control: nothing but statements that need no label
        fd = {"kind": "loops", "body": [draw(_v2l_leaf(True)) for _ in range(draw(st.integers(1, 3)))]}
    else:
        depth = draw(st.integers(1, 2))
        body = []
        for _ in range(draw(st.integers(1, 2))):
            if draw(st.booleans()):
                body += draw(_v2l_block(depth, False, False, 1, 2))
            else:
                body.append(draw(_v2l_while(depth)))
        fd = {"kind": "loops", "body": body}
    fd["param"] = draw(st.sampled_from([False, False, True]))
    fd["use"] = [draw(st.integers(0, 7)), draw(st.sampled_from(_V2A_USES))] if draw(st.integers(0, 2)) == 0 else None
    fd["replace"] = draw(st.integers(0, 7)) if draw(st.integers(0, 5)) == 0 else None
    return fd


@st.composite
def _v2_added_case(draw):
    convs = []
    for _ in range(draw(st.sampled_from([1, 1, 2]))):
        convs.append([[draw(_v2a_flow()) for _ in range(draw(st.sampled_from([1, 1, 2, 3])))] for _ in range(draw(st.sampled_from([1, 1, 2, 3])))])
    return {"leg": "v2added", "convs": convs}


def _v2_added_family():
    """Enumerated: one flow per construct that compiles to labels (if / elif / else chains, while loops with break / continue, nested
    loops, when / or when / else, every kind of group) x how it enters the runtime (alone in
    the first Add event, behind another flow in the same event, in a second event, in the second conversation of the same runtime,
    with a parameter and awaited by a second added flow, removed and added again)."""
    m, a, g = ["s", "match Ev0()", 0], ["s", "$x = $x + 1", 0], ["s", "$y = 1", 0]

    def loops(*body):
        return {"kind": "loops", "body": list(body), "param": False, "use": None, "replace": None}

    def group(form, kind, f, **kw):
        return {"kind": "groups", "items": [{"place": "top", "stmt": dict({"form": form, "kind": kind, "fs": [f], "refs": 0}, **kw)}], "param": False, "use": None, "replace": None}

    constructs = {
        "if": loops(["if", [["$x == 0", [g]]], None]),
        "if-else": loops(["if", [["False", [["s", "send Out0()", 0]]]], [["s", "send Out1(v=$x)", 0]]]),
        "if-elif-else": loops(["if", [["$x == 1", [g]], ["$y == 1", [a]]], [["s", 'log "t"', 0]]]),
        "while-exits": loops(["while", "$x < 3", [a, ["if", [["$x == 2", [["x", "continue"]]], ["$x == 3", [["x", "break"]]]], None]]], ["s", "send Out0()", 0]),
        "while-waiting": loops(["while", "$x < 3", [m, a]]),
        "while-nested": loops(["while", "$x < 3", [m, ["while", "$y < 2", [["s", "match Ev1()", 0], ["s", "$y = $y + 1", 0], ["if", [["$y == 2", [["x", "break"]]]], None]]], a]]),
        "when-event": loops(["when", [["Ev0()", [a]]], None]),
        "when-or-when-else": loops(["when", [["h0", [["s", "send Out0()", 0]]], ["h1", [["s", "send Out1(v=$x)", 0]]]], [g]]),
        "when-in-loop-exit": loops(["while", "True", [["when", [["Ev0()", [["x", "break"]]], ["Ev1()", [a]]], None]]]),
        "await-or-group": group("await", "flow", ["or", [0, 1]]),
        "await-and-group": group("await", "flow", ["and", [0, 1]]),
        "bare-nested-group": group("bare", "flow", ["and", [["or", [0, 1]], ["or", [1, 0]]]]),
        "start-or-group": group("start", "mixed", ["or", [0, 1]]),
        "match-or-group": group("match", "event", ["or", [0, 1]]),
        "match-and-group": group("match", "event", ["and", [0, 1]]),
        "when-group-cases": group("when", "mixed-event", ["or", [0, 1]], **{"else": True}),
        "await-repeated-member": group("await", "flow", ["or", [0, 1, 0]]),
    }
    plain = loops(m, ["s", "send Out0()", 0])
    other = loops(["if", [["$y == 0", [a]]], [g]], ["s", "await h0 or h1", 1])
    for cname, fd in constructs.items():
        entries = {
            "alone": [[[fd]]],
            "behind-another-flow": [[[plain, fd]]],
            "second-event": [[[other], [fd]]],
            "second-conversation": [[[other]], [[fd]]],
            "param-and-awaited": [[[dict(fd, param=True), dict(plain, use=[0, "await"])]]],
            "re-added": [[[fd, plain], [dict(fd, replace=0)]]],
        }
        for ename, convs in entries.items():
            yield {"leg": "v2added", "convs": convs, "family": f"added-flow/{cname}/{ename}"}


@st.composite
def _case(draw):
    leg = draw(st.integers(0, 18))
    if leg >= 17:
        return draw(_v2_added_case())
    if leg >= 15:
        return draw(_v2_reinit_case())
    if leg >= 12:
        return draw(_v2_groups_case())
    if leg < 3:
        return draw(_v1_offsets_case())
    if leg < 6:
        return draw(_v2_loops_case())
    try:
        from vf import co1  # noqa: F401

        have_co1 = hasattr(co1, "programs")
    except Exception:
        have_co1 = False
    if have_co1 and leg < 8:
        from vf import co1

        return {"leg": "v1gen", "prog": draw(co1.programs())}
    return {"leg": "v2gen", "prog": draw(co2.programs(depth=3, max_helpers=4))}


def strategy(tier):
    return _case()


# ---------------------------------------------------------------------------------------------
# predicates


def check_v2_flow(cfg):
    from nemoguardrails.colang.v2_x.lang import colang_ast as A

    prims = (A.Label, A.Goto, A.ForkHead, A.MergeHeads, A.WaitForHeads, A.Assignment, A.Return, A.Abort, A.Break, A.Continue, A.Log, A.Print, A.Priority, A.Global, A.CatchPatternFailure, A.BeginScope, A.EndScope, A.Meta)
    els = cfg.elements
    labels = cfg.element_labels
    bad = []
    stats = {"jumps": 0, "forks": 0}
    label_names = {e.name for e in els if isinstance(e, A.Label)}
    for name, idx in labels.items():
        if not (0 <= idx < len(els)) or not isinstance(els[idx], A.Label) or els[idx].name != name:
            bad.append(("label-index-wrong", f"element_labels[{name!r}]={idx} does not point at that Label"))
    for name in label_names:
        if name not in labels:
            bad.append(("label-not-indexed", f"Label {name!r} missing from element_labels"))
    fork_uids = {e.fork_uid for e in els if isinstance(e, A.ForkHead)}
    begins, ends = {}, {}
    for i, e in enumerate(els):
        if isinstance(e, A.SpecOp):
            if e.op not in ("send", "match", "_new_action_instance"):
                bad.append(("composite-left", f"element {i}: SpecOp op={e.op!r} left unexpanded"))
            elif not isinstance(e.spec, A.Spec):
                bad.append(("group-left", f"element {i}: SpecOp {e.op} still carries a group ({type(e.spec).__name__})"))
            elif e.op in ("send", "match") and e.spec.members is None and e.spec.spec_type != A.SpecType.EVENT:
                # the expansion rewrites or rejects every send / match of a bare flow or action: the primitives work on events
                bad.append(("composite-left", f"element {i}: SpecOp {e.op} of a bare {e.spec.spec_type} ({e.spec.name!r}) left unexpanded"))
        elif isinstance(e, prims):
            if isinstance(e, A.Goto):
                stats["jumps"] += 1
                if e.label not in labels:
                    bad.append(("dangling-goto", f"element {i}: Goto {e.label!r} has no Label"))
            elif isinstance(e, A.ForkHead):
                stats["forks"] += 1
                for lab in e.labels:
                    if lab not in labels:
                        bad.append(("dangling-fork", f"element {i}: ForkHead target {lab!r} has no Label"))
            elif isinstance(e, A.CatchPatternFailure):
                if e.label is not None and e.label not in labels:
                    bad.append(("dangling-failure-handler", f"element {i}: CatchPatternFailure {e.label!r} has no Label"))
            elif isinstance(e, (A.Break, A.Continue)):
                if e.label is None:
                    bad.append(("unresolved-loop-exit", f"element {i}: {type(e).__name__} without target label"))
                elif e.label not in labels:
                    bad.append(("dangling-loop-exit", f"element {i}: {type(e).__name__} {e.label!r} has no Label"))
            elif isinstance(e, A.MergeHeads):
                if e.fork_uid not in fork_uids:
                    bad.append(("merge-without-fork", f"element {i}: MergeHeads {e.fork_uid!r} has no ForkHead"))
            elif isinstance(e, A.BeginScope):
                begins.setdefault(e.name, []).append(i)
            elif isinstance(e, A.EndScope):
                ends.setdefault(e.name, []).append(i)
        elif isinstance(e, dict) or isinstance(e, A.Spec):
            t = e.get("_type") if isinstance(e, dict) else "spec"
            empty_stmt = isinstance(e, dict) and t == "stmt" and not e.get("elements")  # a comment-only line: a no-op
            if t not in ("doc_string_stmt", "docstring", "meta", "pass_stmt") and not empty_stmt:  # `pass` is a placeholder `slide` skips
                bad.append(("composite-left", f"element {i}: raw {t!r} left in the compiled flow"))
        else:
            bad.append(("composite-left", f"element {i}: {type(e).__name__} left unexpanded"))
    for name in set(begins) | set(ends):
        b, e_ = begins.get(name, []), ends.get(name, [])
        # one BeginScope may be closed by several EndScope elements (one per branch of a when/group): require that every
        # Begin has an End after it and that no End comes before the first Begin
        if not b or not e_ or min(e_) < min(b) or max(b) > max(e_):
            bad.append(("scope-not-closed", f"scope {name!r}: BeginScope at {b}, EndScope at {e_}"))
    return bad, stats


def check_v1_flow(flow):
    els = flow["elements"]
    n = len(els)
    bad = []
    jumps = 0
    for i, e in enumerate(els):
        t = e.get("_type")
        used = []
        if t == "if":
            used = ["_next_else"]
        elif t == "jump":
            used = ["_next"]
        elif t == "while":
            used = ["_next", "_next_on_break"]
        elif t == "continue":
            used = ["_next_on_continue"]
        elif t == "break":
            used = ["_next_on_break"]
        else:
            used = ["_next"]
        if t in ("goto", "label"):
            bad.append(("unresolved-goto", f"element {i}: `{t}` {e.get('label', e.get('name'))!r} left in the compiled flow"))
            continue
        for key in used:
            if key not in e:
                if t == "if" and key == "_next_else":
                    bad.append(("missing-offset", f"element {i} ({t}) has no {key}"))
                elif t == "jump":  # a jump element has nothing but its target: without `_next` it is an unresolved jump
                    bad.append(("unresolved-jump", f"element {i} (jump, {e.get('_debug', 'no _debug')!r}) has no _next: the jump has no target"))
                continue
            jumps += 1
            try:
                off = int(e[key])
            except (TypeError, ValueError):
                bad.append(("bad-offset", f"element {i} ({t}) {key}={e[key]!r}"))
                continue
            if e.get("_absolute") and key == "_next":
                target = off
                if target == -1:
                    continue
            else:
                target = i + off
            if not (0 <= target <= n):
                bad.append(("jump-out-of-flow", f"element {i} ({t}) {key}={e[key]!r} -> {target}, flow has {n} elements"))
            elif t == "jump" and str(e.get("_debug", "")).startswith("goto ") and key == "_next":
                name = str(e["_debug"])[5:]
                if target >= n or els[target].get("_label") != name:
                    bad.append(("goto-misses-label", f"element {i} goto {name!r} -> {target}, which does not carry that label"))
        for b in e.get("branch_heads", []) or []:
            jumps += 1
            target = i + int(b)
            if not (0 <= target < n):
                bad.append(("branch-head-out-of-flow", f"element {i} branch head {b} -> {target}, flow has {n} elements"))
    return bad, jumps


def _library_flows():
    if "flows" not in _lib:
        from nemoguardrails import RailsConfig

        cfg = RailsConfig.from_content(
            colang_content="import core\nimport timing\nimport avatars\nimport guardrails\nimport llm\nimport passthrough\n\nflow main\n  match Never()\n",
            yaml_content='colang_version: "2.x"\nmodels: []',
        )
        _lib["flows"] = [f for f in cfg.flows if f.name != "main"]
    return _lib["flows"]


def _compile_v2(flows):
    from nemoguardrails.colang.v2_x.runtime.flows import State
    from nemoguardrails.colang.v2_x.runtime.runtime import create_flow_configs_from_flow_list
    from nemoguardrails.colang.v2_x.runtime.statemachine import initialize_state

    configs = create_flow_configs_from_flow_list(flows)
    state = State(flow_states=[], flow_configs=configs)
    initialize_state(state)
    return state.flow_configs


def _reinit_v2(configs):
    """A further conversation on the same runtime: a new State over the SAME FlowConfig objects (RuntimeV2_x.process_events with
    state=None builds `State(flow_states={}, flow_configs=dict(self.flow_configs))` and calls initialize_state)."""
    from nemoguardrails.colang.v2_x.runtime.flows import State
    from nemoguardrails.colang.v2_x.runtime.statemachine import initialize_state

    state = State(flow_states={}, flow_configs=dict(configs))
    initialize_state(state)
    return state.flow_configs


def _parse(path, version):
    from nemoguardrails.colang import parse_colang_file

    with open(path, encoding="utf-8") as f:
        content = f.read()
    return parse_colang_file(filename=path, content=content, include_source_mapping=False, version=version)


def _file_case(case):
    rel = case["path"]
    path = os.path.join(env.REPO, rel)
    version = _version_of(rel)
    tried = [version] if version else ["2.x", "1.0"]
    parsed = None
    for v in tried:
        try:
            parsed = _parse(path, v)
            version = v
            break
        except Exception:
            continue
    if parsed is None:
        return ok(skip="file not accepted by the parser", labels=["file", "not-parsed"])
    if version == "1.0":
        total = 0
        for fl in parsed.get("flows", []):
            bad, jumps = check_v1_flow(fl)
            total += jumps
            if bad:
                raise Violation("v1-" + bad[0][0], f"{rel} flow {fl.get('id')!r}: {bad[0][1]}")
        return ok(nt=total > 0, labels=["file", "v1", "has-jumps" if total else "no-jumps"], view={"file": rel, "version": "1.0", "flows": len(parsed.get("flows", [])), "jump_offsets": total}, key=rel)
    own = parsed.get("flows", [])
    names = {f.name for f in own}
    extra = []
    d = os.path.dirname(path)
    for sib in sorted(os.listdir(d)):
        sp = os.path.join(d, sib)
        if sp != path and sib.endswith(".co"):
            try:
                extra += [f for f in _parse(sp, "2.x")["flows"] if f.name not in names]
            except Exception:
                pass
    lib = [f for f in _library_flows() if f.name not in names and f.name not in {e.name for e in extra}]
    flows = lib + extra + own
    if "main" not in {f.name for f in flows}:
        flows = flows + smh.parse("flow main\n  match Never()\n")
    try:
        configs = _compile_v2(flows)
    except Exception as e:
        return ok(skip="2.x file does not compile in isolation", labels=["file", "v2", "not-compiled"], view={"file": rel, "error": repr(e)[:200]})
    jumps = 0
    for f in own:
        bad, stats = check_v2_flow(configs[f.name])
        jumps += stats["jumps"] + stats["forks"]
        if bad:
            raise Violation("v2-" + bad[0][0], f"{rel} flow {f.name!r}: {bad[0][1]}")
    return ok(nt=jumps > 0, labels=["file", "v2", "has-jumps" if jumps else "no-jumps"], view={"file": rel, "version": "2.x", "flows": len(own), "jumps_and_forks": jumps}, key=rel)


def _v1_when_shape(text):
    """Labels for the when / else when chains of a Colang 1.0 text: number of branches, which branches end by leaving the flow
    (return / stop / abort as their last line), and whether the chain is the last statement group of its flow."""
    labels = set()
    flows, cur = [], None
    for ln in text.split("\n"):
        if ln.startswith("define "):
            cur = []
            flows.append(cur)
        elif ln.strip() and cur is not None:
            cur.append((len(ln) - len(ln.lstrip()), ln.strip()))
    for lines in flows:
        for i, (ind, txt) in enumerate(lines):
            if not txt.startswith("when "):
                continue
            heads, j = [i], i + 1
            while j < len(lines) and (lines[j][0] > ind or (lines[j][0] == ind and lines[j][1].startswith("else when "))):
                if lines[j][0] == ind:
                    heads.append(j)
                j += 1
            ends = [h - 1 for h in heads[1:]] + [j - 1]
            exits = [lines[e][1].split(" ")[0] in ("return", "stop", "abort") and e not in heads for e in ends]
            labels.add(f"when-branches{min(len(heads), 4)}")
            if any(exits):
                labels.add("when-branch-exits")
            if any(x and not all(exits[:k]) for k, x in enumerate(exits) if k > 0):
                # a later branch leaves the flow while an earlier one runs on behind the chain
                labels.add("when-late-exit")
                labels.add("when-late-exit@" + ("flow-end" if j == len(lines) else "followed" if lines[j][0] == ind else "block-end"))
    return sorted(labels)


def _v1_ellipsis_shape(text, source_mapping):
    """Labels for the value-generation statements `$x = ...` of a Colang 1.0 text: with / without instructions (a comment on the line
    above, blank lines ignored - and only when the text is parsed with source mapping, otherwise comments never reach the compiler), the
    block they stand in and whether anything follows them in that block / in the flow."""
    labels = set()
    flows, cur = [], None
    for ln in text.split("\n"):
        if ln.startswith("define "):
            cur = []
            flows.append(cur)
        elif ln.strip() and cur is not None:
            cur.append((len(ln) - len(ln.lstrip()), ln.strip()))
    for lines in flows:
        for i, (ind, txt) in enumerate(lines):
            if not txt.endswith("= ...") or txt.startswith("#"):
                continue
            commented = i > 0 and lines[i - 1][1].startswith("#")
            kind = "with-instructions" if commented and source_mapping else "without-instructions"
            opener = next((t for d, t in reversed(lines[:i]) if d < ind and not t.startswith("#")), None)
            blk = "top" if opener is None else "when" if opener.startswith(("when ", "else when ")) else opener.split(" ")[0]
            stmts_behind = [(d, t) for d, t in lines[i + 1:] if not t.startswith("#")]
            where = "flow-end" if not stmts_behind else "block-end" if stmts_behind[0][0] < ind else "middle"
            in_loop = any(t.startswith("while ") for d, t in _v1_enclosing(lines, i))
            labels.update(["ellipsis", "ellipsis-" + kind, "ellipsis-in:" + blk, f"ellipsis-{kind}@{where}"])
            if commented and not source_mapping:
                labels.add("ellipsis-comment-dropped-by-parse-mode")
            if in_loop:
                labels.add("ellipsis-inside-loop")
    return sorted(labels)


def _v1_enclosing(lines, i):
    """The block openers around line i of a flow given as (indentation, text) pairs, innermost first."""
    out, ind = [], lines[i][0]
    for d, t in reversed(lines[:i]):
        if d < ind and not t.startswith("#"):
            out.append((d, t))
            ind = d
    return out


def _v1_goto_shape(text):
    """Labels for the gotos of a Colang 1.0 text: how many gotos name the same label and on which side of it they stand."""
    labels = set()
    flows, cur = [], None
    for ln in text.split("\n"):
        if ln.startswith("define "):
            cur = []
            flows.append(cur)
        elif ln.strip() and cur is not None:
            cur.append((len(ln) - len(ln.lstrip()), ln.strip()))
    for lines in flows:
        where = {txt.split(" ")[1]: i for i, (_, txt) in enumerate(lines) if txt.split(" ")[0] in ("label", "checkpoint") and len(txt.split(" ")) > 1}
        fwd, bwd = {}, {}
        for i, (ind, txt) in enumerate(lines):
            if txt.startswith("goto ") and txt[5:] in where:
                (fwd if i < where[txt[5:]] else bwd).setdefault(txt[5:], []).append(ind)
        for name in where:
            nf, nb = len(fwd.get(name, [])), len(bwd.get(name, []))
            if nf + nb >= 2:
                labels.add("goto-same-label>=2")
            if nf >= 2:
                labels.add("goto-forward-same-label>=2")
                if any(x > 2 for x in fwd[name]):
                    labels.add("goto-forward-same-label>=2/in-block")
            if nf >= 3:
                labels.add("goto-forward-same-label>=3")
            if nb >= 2:
                labels.add("goto-backward-same-label>=2")
            if nf and nb:
                labels.add("goto-both-sides-of-label")
            if nf == 1 and not nb:
                labels.add("goto-forward-single")
    return sorted(labels)


def _check_v2_text(text, flows=None):
    """Parses the program once and compiles the parsed flows twice - what two LLMRails instances built from one RailsConfig do -:
    every compilation must be closed."""
    if flows is None:
        flows = smh.parse(text)
    for rnd in (1, 2):
        tag = "" if rnd == 1 else "recompiled-"
        try:
            configs = _compile_v2(flows)
        except Exception as e:
            raise Violation(f"v2-{tag}compile-error:" + type(e).__name__, f"{e!r}"[:300] + "\n" + text)
        for name, cfg in configs.items():
            bad, _ = check_v2_flow(cfg)
            if bad:
                raise Violation(f"v2-{tag}" + bad[0][0], ("second compilation of the same parsed flows: " if rnd == 2 else "") + f"flow {name!r}: {bad[0][1]}\n{text}")
    # ... and the flow configs of one compilation serve every conversation of a runtime: a second state initialised on the SAME
    # flow configs must be accepted and closed as well
    try:
        configs = _reinit_v2(configs)
    except Exception as e:
        raise Violation("v2-reinitialised-compile-error:" + type(e).__name__, "second state on the same flow configs: " + f"{e!r}"[:300] + "\n" + text)
    for name, cfg in configs.items():
        bad, _ = check_v2_flow(cfg)
        if bad:
            raise Violation("v2-reinitialised-" + bad[0][0], f"second state initialised on the same flow configs: flow {name!r}: {bad[0][1]}\n{text}")


def _check_v2_reinit(case):
    """One runtime, several conversations: the flow configs are created once, then `attempts` states are initialised on them.
    Every attempt is either rejected (initialize_state raises) or accepted - and every flow of an accepted state must be closed,
    whatever happened in the attempts before."""
    from nemoguardrails.colang.v2_x.runtime.runtime import create_flow_configs_from_flow_list

    text = _v2r_text(case)
    labels, has_bad = _v2r_shape(case)
    configs = create_flow_configs_from_flow_list(smh.parse(text))
    outcomes = []
    for attempt in range(1, case["attempts"] + 1):
        try:
            accepted = _reinit_v2(configs)
        except Exception as e:
            if not has_bad:  # same rule as for every other generated valid program
                raise Violation("v2-reinit-compile-error:" + type(e).__name__, f"state {attempt} on the same flow configs (before: {outcomes}): " + f"{e!r}"[:300] + "\n" + text)
            outcomes.append("rejected:" + type(e).__name__)
            continue
        for name, cfg in accepted.items():
            bad, _ = check_v2_flow(cfg)
            if bad:
                raise Violation("v2-reinit-" + bad[0][0], f"state {attempt} initialised on the same flow configs was accepted (attempts before: {outcomes or 'none'}) but flow {name!r} is not closed: {bad[0][1]}\n{text}")
        outcomes.append("accepted")
    labels.append("outcomes:" + ",".join(sorted(set(o.split(":")[0] for o in outcomes))))
    return text, labels, has_bad, outcomes


_v2a = {}


def _v2a_loop():
    import asyncio

    lp = _v2a.get("loop")
    if lp is None or lp.is_closed():
        lp = asyncio.new_event_loop()
        asyncio.set_event_loop(lp)
        _v2a["loop"] = lp
    return lp


def _v2a_rails(fresh=False):
    """One LLMRails instance per worker process (the runtime copies its flow-config dict into every new conversation state, so flows
    added in one conversation are not seen by the next); `fresh` builds a new one to confirm a violation."""
    if fresh or "rails" not in _v2a:
        from nemoguardrails import LLMRails, RailsConfig

        _v2a_loop()
        rails = LLMRails(RailsConfig.from_content(_V2A_HOST, 'colang_version: "2.x"\nmodels: []'))
        if fresh:
            return rails
        _v2a["rails"] = rails
    return _v2a["rails"]


def _check_v2_added(plan, fresh=False):
    """Runs the conversations of a v2added case through RuntimeV2_x.process_events (public event API): every Add event hands the source
    of a batch to AddFlowsAction.  After every event that added its flows EVERY flow config of the live state - configured flows, flows
    added before, flows added now - must be closed.  Returns (stats, None) or (stats, reason why a batch was not loaded)."""
    rails = _v2a_rails(fresh)
    lp = _v2a_loop()
    stats = {"added": 0, "added-with-jumps": 0, "targets": 0, "events": 0}
    try:
        for ci, steps in enumerate(plan):
            state = None  # a new conversation on the same runtime
            for si, step in enumerate(steps):
                where = f"conversation {ci + 1}, Add event {si + 1}"
                if step["remove"]:
                    out, state = lp.run_until_complete(rails.runtime.process_events([{"type": "Remove", "flow_ids": step["remove"]}], state=state, blocking=True))
                    stats["events"] += 1
                    if not any(e["type"] == "Removed" for e in out) or any(n in state.flow_configs for n in step["remove"]):
                        return stats, f"{where}: RemoveFlowsAction did not remove {step['remove']}"
                out, state = lp.run_until_complete(rails.runtime.process_events([{"type": "Add", "config": step["text"]}], state=state, blocking=True))
                stats["events"] += 1
                added = [e.get("names") for e in out if e["type"] == "Added"]
                if added != [step["names"]] or any(n not in state.flow_configs for n in step["names"]):
                    return stats, f"{where}: AddFlowsAction reported {added} instead of {step['names']}"
                for name, cfg in state.flow_configs.items():
                    bad, st_ = check_v2_flow(cfg)
                    if bad:
                        new = name in step["names"]
                        what = "added by this event" if new else "added by an earlier event" if name.startswith("dyn ") else "of the configuration"
                        # report a dangling target in preference to a label that is merely not indexed (same root cause, clearer message)
                        first = next((b for b in bad if b[0].startswith("dangling")), bad[0])
                        raise Violation("v2-added-" + first[0], f"{where}: flow {name!r} ({what}) of the running state is not closed: {first[1]} ({len(bad)} defects in this flow)\nsource handed to AddFlowsAction:\n{step['text']}")
                    if name in step["names"]:
                        stats["added"] += 1
                        stats["added-with-jumps"] += 1 if st_["jumps"] + st_["forks"] else 0
                        stats["targets"] += st_["jumps"] + st_["forks"]
    except BaseException as e:
        if not isinstance(e, Violation):  # watchdog / harness trouble: forget the instance and the loop
            lp = _v2a.pop("loop", None)
            _v2a.clear()
            if lp is not None and not lp.is_closed() and not lp.is_running():
                lp.close()
        raise
    return stats, None


def prop(case):
    if case["leg"] == "file":
        return _file_case(case)
    if case["leg"] == "v2added":
        plan = _v2a_plan(case)
        text = "\n".join(f"# conversation {ci + 1}, Add event {si + 1}" + (f" (after RemoveFlowsAction {st_['remove']})" if st_["remove"] else "") + "\n" + st_["text"] for ci, steps in enumerate(plan) for si, st_ in enumerate(steps))
        labels = ["v2added"] + _v2a_shape(case, plan)
        if case.get("family"):
            parts = case["family"].split("/")
            labels += ["family:" + parts[0], "family:" + parts[0] + "/construct=" + parts[1], "family:" + parts[0] + "/entry=" + parts[2]]
        for steps in plan:
            for st_ in steps:
                try:
                    smh.parse(st_["text"])
                except Exception as e:  # as in the v2groups leg: the statement quantifies over flows the loader accepts
                    return ok(skip="v2 added flows not accepted by the parser: " + type(e).__name__, labels=["v2added", "rejected"], view={"program": text})
        try:
            stats, failed = _check_v2_added(plan)
            confirm = False
        except Violation:
            confirm = True
        if confirm:
            # instance reuse must not be able to fabricate a finding: confirm on a fresh LLMRails instance (raises the violation)
            _check_v2_added(plan, fresh=True)
            raise RuntimeError("v2added: a violation on the per-worker LLMRails instance did not reproduce on a fresh one:\n" + text)
        if failed:
            return ok(skip="v2 added flows not loaded: " + failed, labels=["v2added", "not-loaded"], view={"program": text})
        counters = {"v2added:flows-added-and-closed": stats["added"], "v2added:added-flows-with-jumps": stats["added-with-jumps"],
                    "v2added:jump-and-fork-elements-checked": stats["targets"], "v2added:events-processed": stats["events"]}
        counters.update({"v2added:" + x: 1 for x in labels if x.startswith(("convs", "batches", "added-", "added:"))})
        return ok(nt=stats["added-with-jumps"] > 0, labels=labels, view={"program": text}, counters=counters)
    if case["leg"] == "v1text":
        from nemoguardrails.colang import parse_colang_file

        text = case["text"]
        srcmap = bool(case.get("source_mapping", False))
        try:
            parsed = parse_colang_file(filename="gen.co", content=text, include_source_mapping=srcmap, version="1.0")
        except Exception as e:
            return ok(skip="v1 text not accepted by the parser: " + type(e).__name__, labels=["v1text", "rejected"])
        total = 0
        for fl in parsed.get("flows", []):
            bad, jumps = check_v1_flow(fl)
            total += jumps
            if bad:
                raise Violation("v1-" + bad[0][0], f"flow {fl.get('id')!r}: {bad[0][1]}\n{text}")
        labels = ["v1text"] + [k for k in ("label", "checkpoint", "goto", "when", "while", "break", "continue", "return", "stop", "abort", "subflow") if k + " " in text or text.rstrip().endswith(k) or ("\n" + k) in text.replace(" ", "")]
        labels += _v1_when_shape(text) + _v1_goto_shape(text) + _v1_ellipsis_shape(text, srcmap)
        labels.append("source-mapping:" + ("on" if srcmap else "off"))
        if case.get("family"):
            labels.append("family:" + case["family"].split("/")[0])
            labels.append("family:" + case["family"])
        counters = {"v1text:" + x: 1 for x in labels if x.startswith(("goto-", "ellipsis", "source-mapping:"))}  # the label histogram of the evidence keeps the top 60 only
        return ok(nt=total >= 3, labels=labels, view={"program": text, "jump_offsets": total}, counters=counters)
    if case["leg"] == "v2loops":
        text = _v2l_text(case["body"])
        _check_v2_text(text)
        labels = ["v2loops"] + _v2l_shape(case["body"])
        if case.get("family"):
            parts = case["family"].split("/")
            labels += ["family:" + parts[0], "family:" + parts[0] + "/neighbours=" + parts[1], "family:" + parts[0] + "/place=" + parts[4]]
        return ok(nt="loop-without-exit" not in labels or len([x for x in labels if x.startswith("loop-nest")]) > 1, labels=labels, view={"program": text})
    if case["leg"] == "v2groups":
        text = _v2g_text(case["flows"])
        try:
            parsed = smh.parse(text)
        except Exception as e:
            return ok(skip="v2 group program not accepted by the parser: " + type(e).__name__, labels=["v2groups", "rejected"], view={"program": text})
        _check_v2_text(text, parsed)
        labels = ["v2groups"] + _v2g_shape(case["flows"])
        if case.get("family"):
            parts = case["family"].split("/")
            labels += ["family:" + parts[0], "family:" + parts[0] + "/form=" + parts[1], "family:" + parts[0] + "/shape=" + parts[3]]
        nt = any(x in labels for x in ("repeated-member", "nested-group")) or any(x.startswith("dnf-alts") and x != "dnf-alts1" for x in labels)
        return ok(nt=nt, labels=labels, view={"program": text})
    if case["leg"] == "v2reinit":
        text, labels, has_bad, outcomes = _check_v2_reinit(case)
        labels = ["v2reinit"] + labels
        if case.get("family"):
            parts = case["family"].split("/")
            labels += ["family:" + parts[0], "family:" + parts[0] + "/stmt=" + parts[1], "family:" + parts[0] + "/host=" + parts[2], "family:" + parts[0] + "/flow=" + parts[3]]
        # non-trivial: a second state was initialised after a rejected one, or >= 2 states were accepted on the same flow configs
        rej = [i for i, o in enumerate(outcomes) if o != "accepted"]
        counters = {"v2reinit:states-initialised": len(outcomes), "v2reinit:rejected": len(rej), "v2reinit:accepted-and-closed": len(outcomes) - len(rej),
                    "v2reinit:initialised-after-a-rejection": (len(outcomes) - 1 - rej[0]) if rej else 0}
        counters.update({"v2reinit:" + x: 1 for x in labels if x.startswith(("bad-flows", "bad-in:", "bad-flow-", "bad:"))})
        return ok(nt=len(outcomes) >= 2, labels=labels, view={"program": text, "outcomes": outcomes}, counters=counters)
    if case["leg"] == "v1gen":
        from nemoguardrails.colang import parse_colang_file

        from vf import co1

        text = co1.render(case["prog"])
        parsed = parse_colang_file(filename="gen.co", content=text, include_source_mapping=False, version="1.0")
        total = 0
        for fl in parsed.get("flows", []):
            bad, jumps = check_v1_flow(fl)
            total += jumps
            if bad:
                raise Violation("v1-" + bad[0][0], f"flow {fl.get('id')!r}: {bad[0][1]}\n{text}")
        return ok(nt=total >= 2, labels=["v1gen"], view={"program": text, "jump_offsets": total})
    text = co2.render(case["prog"])
    kinds = co2.count_kinds(case["prog"])
    _check_v2_text(text)
    nt = kinds["maxdepth"] >= 2 or kinds["break"] + kinds["continue"] > 0 or kinds["matchg"] + kinds["awaitg"] > 0
    labels = ["v2gen", f"depth{min(kinds['maxdepth'], 3)}"]
    for k in ("while", "when", "if", "break", "continue", "awaitg", "matchg", "activate"):
        if kinds[k]:
            labels.append(k)
    return ok(nt=nt, labels=labels, view={"program": text})
