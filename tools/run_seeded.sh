#!/bin/bash
# usage: tools/run_seeded.sh <seeded dir name> [--scratch DIR] [check args...]
# Applies seeded/<name>/patch.diff and runs the check of the property it breaks (meta.json: property), prints the verdict
# lines and ALWAYS restores the tree afterwards.
#   default        : the patch is applied to /repo itself (needs exclusive use of /repo; evidence is not touched only
#                    because the runner sees VERIF_SEEDED=1 and writes to .work/evidence)
#   --scratch DIR  : DIR is a git worktree/clone of /repo outside /repo and /verif; it is reset to /repo's HEAD, patched,
#                    and the check runs with VERIF_REPO=DIR (evidence goes to .work/evidence)
set -u
name=$1; shift
scratch=""
if [ "${1:-}" = "--scratch" ]; then scratch=$2; shift 2; fi
dir=/verif/seeded/$name
pid=$(python3 -c "import json;m=json.load(open('$dir/meta.json'));print(m.get('check',m['property']))")
if [ -n "$scratch" ]; then
  cd "$scratch" || exit 2
  git checkout -q -- . && git clean -fdq nemoguardrails && git reset -q --hard "$(git -C /repo rev-parse HEAD)" || exit 2
  { git apply "$dir/patch.diff" 2>/dev/null || git apply -C2 "$dir/patch.diff" 2>/dev/null || git apply -C1 "$dir/patch.diff"; } || { echo "patch does not apply"; exit 2; }
  trap 'git -C "$scratch" checkout -q -- . ; git -C "$scratch" clean -fdq nemoguardrails 2>/dev/null' EXIT
  export VERIF_REPO=$scratch
else
  cd /repo || exit 2
  if ! git diff --quiet; then echo "/repo has local changes; refusing"; exit 2; fi
  { git apply "$dir/patch.diff" 2>/dev/null || git apply -C2 "$dir/patch.diff" 2>/dev/null || git apply -C1 "$dir/patch.diff"; } || { echo "patch does not apply"; exit 2; }
  trap 'git -C /repo checkout -q -- . ; git -C /repo clean -fdq nemoguardrails 2>/dev/null' EXIT
  export VERIF_SEEDED=1
fi
cd /verif && timeout 1800 ./check "$pid" "$@" 2>&1 | grep -E "tier=|VIOLATION|HARNESS|KNOWN|^  [a-zA-Z0-9_:<>=-]+: " | cut -c1-260
echo "exit=${PIPESTATUS[0]}"
