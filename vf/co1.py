"""Colang 1.0 program model: JSON AST, renderer, Hypothesis strategies, reference interpreter (DESIGN 3.6).

Shared by C12 (closed compiled flows), C13 (layout-insensitive parsing) and C14 (flows followed like structured
programs).  Nothing in here imports the repository: the renderer produces source text, the interpreter works on the
AST only, so it is an oracle that is independent of the parser and of the compiled jump offsets.

AST (pure JSON)
---------------
    Program := {"flows": [Flow, ...], "subflows": [Subflow, ...]}
    Flow    := {"name": "f0", "intent": "f0 start", "body": [Stmt, ...]}      # `define flow f0` / `user f0 start` / body
    Subflow := {"name": "s0", "body": [Stmt, ...]}                            # `define subflow s0` / body
    Stmt    := {"t": "user", "intent": str}
             | {"t": "bot",  "intent": str}
             | {"t": "set",  "var": str, "expr": Expr}                        # $var = expr
             | {"t": "if",   "cond": Cond, "then": [Stmt+], "else": [Stmt+] | None}
             | {"t": "while","cond": Cond, "body": [Stmt+]}
             | {"t": "do",   "flow": <subflow name>}
             | {"t": "exec", "action": str, "params": {name: int | {"var": v}}, "result": var | None}
    Expr    := int | {"var": v} | {"op": "+"|"-"|"*", "l": Expr, "r": Expr}
    Cond    := {"op": "<"|"<="|">"|">="|"=="|"!=", "l": Expr, "r": Expr}
             | {"op": "and"|"or", "l": Cond, "r": Cond} | {"op": "not", "c": Cond}
Bodies are never empty (the 1.0 parser does not terminate on a body-less definition).

Renderer
--------
    render(program, indent=2, else_if=False) -> str     source text; `else_if=True` spells an else-branch that consists
                                                         of a single `if` as `else if ...`
    render_expr(e), render_cond(c)                      -> "$x + 1", "$c0 < 2 and $x > 1"
    raw_params(stmt)                                    -> {"p": "$x", "q": 3}: the action_params the parser stores

Strategies (everything is built by construction, nothing is filtered)
---------------------------------------------------------------------
    programs(max_flows=3, max_subflows=2, max_depth=3)  1..max_flows flows + 0..max_subflows subflows such that
      * user intents of different top-level flows (and of subflows) are disjoint; the first intent of a flow occurs
        nowhere else; bot intents come from a small shared pool and may repeat;
      * every variable is assigned on all paths of the same flow before it is read (definite assignment, tracked
        through if/else, while, `do`), so no expression ever sees an undefined (None) variable;
      * every `while` has its own counter $cN, set to 0 immediately before the loop, incremented exactly once per
        iteration and assigned nowhere else; the condition is `$cN < bound` optionally and-ed with another condition,
        so all loops (and all sliding) terminate; bound is 0..3;
      * subflow s1 may call s0, never the other way round (no recursion); subflows read only what they assign;
      * flows usually begin with 0-2 assignments (constants or action results) so that conditions depend on data,
        an else-branch is a single `if` in about 1 of 5 cases (`else if` chains up to 3 long), and 7 of 8 flows
        contain an unconditional bot/user step.
    first_intents(program) -> {flow name: first intent};  all_intents(program) -> set of all user intents
    UNKNOWN_INTENT: an intent that no generated program contains.

Reference interpreter (an ordinary structured-program interpreter, recursive generators, no jump offsets)
---------------------------------------------------------------------------------------------------------
    run_flow(program, name, ctx, trace=None)   generator over the *body* of flow/subflow `name` (the flow's first
        `user` line is consumed by whoever decided to start the flow).  It yields requests and is resumed with the
        answer:
            ("set", var, value)                     no answer needed; ctx is already updated
            ("bot", intent)                         resume with None once the bot intent is in the history
            ("exec", action, params, result_var, raw)
                                                    params are evaluated ints, raw = raw_params(stmt); resume with the
                                                    action's return value (stored in ctx[result_var] if there is one)
            ("user", intent)                        resume with None once exactly this intent arrived
        `ctx` (dict of ints) is shared and mutated in place.  `trace`, if a list, receives the markers "if-true",
        "if-false", "while-iter", "while-exit", "do-enter", "do-return".
    next_step(program, name, replies, ctx=None) -> (context_updates, request | None)
        the pure "function of the history" form: re-runs the flow from its start, answers the successive bot / exec /
        user requests with `replies` (ints for exec, anything else otherwise) and returns the `set`s performed since
        the last answered request plus the first unanswered request (None = flow finished).
    eval_expr(e, ctx), eval_cond(c, ctx)
"""
from hypothesis import strategies as st

UNKNOWN_INTENT = "zz unknown"
VARS = ["x", "y", "z"]
BOTS = ["b0", "b1", "b2", "b3", "b4"]
ACTIONS = ["act0", "act1", "act2"]

# ---------------------------------------------------------------------------------------------
# renderer


def render_expr(e, top=True):
    if isinstance(e, int):
        return str(e)
    if "var" in e:
        return "$" + e["var"]
    s = f"{render_expr(e['l'], False)} {e['op']} {render_expr(e['r'], False)}"
    return s if top else f"({s})"


def render_cond(c, top=True):
    op = c["op"]
    if op == "not":
        return f"not ({render_cond(c['c'])})"
    if op in ("and", "or"):
        s = f"{render_cond(c['l'], False)} {op} {render_cond(c['r'], False)}"
        return s if top else f"({s})"
    return f"{render_expr(c['l'])} {op} {render_expr(c['r'])}"


def raw_params(stmt):
    return {k: (v if isinstance(v, int) else "$" + v["var"]) for k, v in stmt["params"].items()}


def _render_block(stmts, level, indent, else_if, out):
    pad = " " * (indent * level)
    for s in stmts:
        t = s["t"]
        if t in ("user", "bot"):
            out.append(f"{pad}{t} {s['intent']}")
        elif t == "set":
            out.append(f"{pad}${s['var']} = {render_expr(s['expr'])}")
        elif t == "do":
            out.append(f"{pad}do {s['flow']}")
        elif t == "exec":
            args = ", ".join(f"{k}={v}" for k, v in raw_params(s).items())
            call = f"execute {s['action']}" + (f"({args})" if args else "")
            out.append(pad + (f"${s['result']} = {call}" if s.get("result") else call))
        elif t == "while":
            out.append(f"{pad}while {render_cond(s['cond'])}")
            _render_block(s["body"], level + 1, indent, else_if, out)
        elif t == "if":
            kw = "if"
            while True:
                out.append(f"{pad}{kw} {render_cond(s['cond'])}")
                _render_block(s["then"], level + 1, indent, else_if, out)
                els = s.get("else")
                if else_if and els and len(els) == 1 and els[0]["t"] == "if":
                    s, kw = els[0], "else if"
                    continue
                if els:
                    out.append(f"{pad}else")
                    _render_block(els, level + 1, indent, else_if, out)
                break
        else:
            raise ValueError(f"unknown statement {s!r}")


def render(program, indent=2, else_if=False):
    out = []
    for f in program["flows"]:
        out.append(f"define flow {f['name']}")
        out.append(" " * indent + f"user {f['intent']}")
        _render_block(f["body"], 1, indent, else_if, out)
        out.append("")
    for f in program["subflows"]:
        out.append(f"define subflow {f['name']}")
        _render_block(f["body"], 1, indent, else_if, out)
        out.append("")
    return "\n".join(out)


# ---------------------------------------------------------------------------------------------
# reference interpreter


def eval_expr(e, ctx):
    if isinstance(e, int):
        return e
    if "var" in e:
        return ctx[e["var"]]
    l, r = eval_expr(e["l"], ctx), eval_expr(e["r"], ctx)
    return l + r if e["op"] == "+" else l - r if e["op"] == "-" else l * r


def eval_cond(c, ctx):
    op = c["op"]
    if op == "not":
        return not eval_cond(c["c"], ctx)
    if op == "and":
        return eval_cond(c["l"], ctx) and eval_cond(c["r"], ctx)
    if op == "or":
        return eval_cond(c["l"], ctx) or eval_cond(c["r"], ctx)
    l, r = eval_expr(c["l"], ctx), eval_expr(c["r"], ctx)
    return {"<": l < r, "<=": l <= r, ">": l > r, ">=": l >= r, "==": l == r, "!=": l != r}[op]


def find_flow(program, name):
    for f in program["flows"] + program["subflows"]:
        if f["name"] == name:
            return f
    raise KeyError(name)


def _run(program, stmts, ctx, trace):
    for s in stmts:
        t = s["t"]
        if t in ("user", "bot"):
            yield (t, s["intent"])
        elif t == "set":
            ctx[s["var"]] = eval_expr(s["expr"], ctx)
            yield ("set", s["var"], ctx[s["var"]])
        elif t == "if":
            taken = bool(eval_cond(s["cond"], ctx))
            trace.append("if-true" if taken else "if-false")
            yield from _run(program, s["then"] if taken else (s.get("else") or []), ctx, trace)
        elif t == "while":
            while eval_cond(s["cond"], ctx):
                trace.append("while-iter")
                yield from _run(program, s["body"], ctx, trace)
            trace.append("while-exit")
        elif t == "do":
            trace.append("do-enter")
            yield from _run(program, find_flow(program, s["flow"])["body"], ctx, trace)
            trace.append("do-return")
        elif t == "exec":
            params = {k: eval_expr(v, ctx) for k, v in s["params"].items()}
            value = yield ("exec", s["action"], params, s.get("result"), raw_params(s))
            if s.get("result"):
                ctx[s["result"]] = value
        else:
            raise ValueError(f"unknown statement {s!r}")


def run_flow(program, name, ctx, trace=None):
    return _run(program, find_flow(program, name)["body"], ctx, trace if trace is not None else [])


def next_step(program, name, replies, ctx=None):
    gen = run_flow(program, name, {} if ctx is None else ctx)
    replies, updates, answer = list(replies), {}, None
    while True:
        try:
            req = gen.send(answer)
        except StopIteration:
            return updates, None
        answer = None
        if req[0] == "set":
            updates[req[1]] = req[2]
            continue
        if not replies:
            return updates, req
        answer, updates = replies.pop(0), {}


# ---------------------------------------------------------------------------------------------
# strategies


def first_intents(program):
    return {f["name"]: f["intent"] for f in program["flows"]}


def _walk(stmts):
    for s in stmts:
        yield s
        for key in ("then", "else", "body"):
            if s.get(key):
                yield from _walk(s[key])


def all_intents(program):
    out = set(first_intents(program).values())
    for f in program["flows"] + program["subflows"]:
        out.update(s["intent"] for s in _walk(f["body"]) if s["t"] == "user")
    return out


class _Builder:
    """Draws statements while tracking definitely-assigned variables (`defined`)."""

    def __init__(self, draw, max_depth):
        self.draw = draw
        self.max_depth = max_depth
        self.n_counters = 0
        self.sub_defs = {}  # subflow name -> variables it assigns on every path
        self.callable = []  # subflows the body under construction may call
        self.intents = []  # user intent pool of the flow under construction

    def atom(self, defined, const_bias=1):
        names = sorted(defined)
        if names and self.draw(st.integers(0, 1 + const_bias)) <= 1:
            return {"var": self.draw(st.sampled_from(names))}
        return self.draw(st.integers(0, 4))

    def expr(self, defined):
        k = self.draw(st.integers(0, 5))
        if k <= 2 or not defined:
            return self.atom(defined)
        if k == 5:
            return {"op": "*", "l": self.atom(defined, 0), "r": self.draw(st.integers(0, 3))}
        e = {"op": self.draw(st.sampled_from("+-")), "l": self.atom(defined, 0), "r": self.atom(defined)}
        if k == 4:
            e = {"op": self.draw(st.sampled_from("+-")), "l": e, "r": self.atom(defined)}
        return e

    def cond(self, defined, depth=0):
        k = self.draw(st.integers(0, 9))
        if depth < 2 and k == 0:
            return {"op": "not", "c": self.cond(defined, depth + 1)}
        if depth < 2 and k <= 2:
            return {"op": self.draw(st.sampled_from(["and", "or"])), "l": self.cond(defined, depth + 1), "r": self.cond(defined, depth + 1)}
        names = sorted(defined)
        left = {"var": self.draw(st.sampled_from(names))} if names else self.draw(st.integers(0, 4))
        right = self.expr(defined) if k == 9 else self.atom(defined, 2)
        return {"op": self.draw(st.sampled_from(["<", "<=", ">", ">=", "==", "!="])), "l": left, "r": right}

    def if_stmt(self, depth, defined, chain=0):
        cond = self.cond(defined)
        then, d_then = self.block(depth + 1, defined, 1, 3)
        k = self.draw(st.integers(0, 4))
        if k == 0:
            return {"t": "if", "cond": cond, "then": then, "else": None}, set(defined)
        if k == 1 and chain < 2:  # else-branch that is a single `if`: can be spelled `else if`
            inner, d_else = self.if_stmt(depth, defined, chain + 1)
            els = [inner]
        else:
            els, d_else = self.block(depth + 1, defined, 1, 3)
        return {"t": "if", "cond": cond, "then": then, "else": els}, d_then & d_else

    def prelude(self, defined):
        """0-2 initial assignments (constant or action result) so that later conditions depend on data."""
        out = []
        for _ in range(self.draw(st.sampled_from([0, 1, 1, 2, 2]))):
            var = self.draw(st.sampled_from(VARS))
            if self.draw(st.booleans()):
                out.append({"t": "exec", "action": self.draw(st.sampled_from(ACTIONS)), "params": {}, "result": var})
            else:
                out.append({"t": "set", "var": var, "expr": self.draw(st.integers(0, 4))})
            defined.add(var)
        return out

    def block(self, depth, defined, lo=1, hi=4):
        """-> (statements, variables defined afterwards)"""
        defined = set(defined)
        out = []
        for _ in range(self.draw(st.integers(lo, hi))):
            kinds = ["bot", "bot", "bot", "user", "user", "user", "set", "set", "exec", "exec"]
            if depth < self.max_depth:
                kinds += ["if", "if", "if", "while", "while"]
            if self.callable:
                kinds += ["do", "do", "do"]
            kind = self.draw(st.sampled_from(kinds))
            if kind == "bot":
                out.append({"t": "bot", "intent": self.draw(st.sampled_from(BOTS))})
            elif kind == "user":
                out.append({"t": "user", "intent": self.draw(st.sampled_from(self.intents))})
            elif kind == "set":
                var = self.draw(st.sampled_from(VARS))
                out.append({"t": "set", "var": var, "expr": self.expr(defined)})
                defined.add(var)
            elif kind == "exec":
                params = {}
                for name in ["p", "q"][: self.draw(st.sampled_from([0, 0, 1, 1, 2]))]:
                    params[name] = self.atom(defined, 0)
                result = self.draw(st.sampled_from([None] + VARS + VARS))
                out.append({"t": "exec", "action": self.draw(st.sampled_from(ACTIONS)), "params": params, "result": result})
                if result:
                    defined.add(result)
            elif kind == "do":
                name = self.draw(st.sampled_from(self.callable))
                out.append({"t": "do", "flow": name})
                defined |= self.sub_defs[name]
            elif kind == "if":
                stmt, defined = self.if_stmt(depth, defined)
                out.append(stmt)
            else:  # while
                counter = f"c{self.n_counters}"
                self.n_counters += 1
                bound = self.draw(st.sampled_from([0, 1, 2, 2, 3]))
                cond = {"op": "<", "l": {"var": counter}, "r": bound}
                if self.draw(st.integers(0, 3)) == 0:
                    cond = {"op": "and", "l": cond, "r": self.cond(defined)}
                body, _ = self.block(depth + 1, defined | {counter}, 1, 3)
                inc = {"t": "set", "var": counter, "expr": {"op": "+", "l": {"var": counter}, "r": 1}}
                body = [inc] + body if self.draw(st.integers(0, 3)) == 0 else body + [inc]
                out.append({"t": "set", "var": counter, "expr": 0})
                out.append({"t": "while", "cond": cond, "body": body})
                defined.add(counter)
        return out, defined


@st.composite
def programs(draw, max_flows=3, max_subflows=2, max_depth=3):
    b = _Builder(draw, max_depth)
    n_sub = draw(st.integers(0, max_subflows))
    n_flows = draw(st.integers(1, max_flows))
    subflows = []
    for j in range(n_sub):
        name = f"s{j}"
        b.intents = [f"{name} u{k}" for k in range(2)]
        defs = set()
        pre = b.prelude(defs) if draw(st.booleans()) else []
        body, defs = b.block(1, defs, 1, 3)
        subflows.append({"name": name, "body": pre + body})
        b.sub_defs[name] = defs
        b.callable = b.callable + [name]
    flows = []
    for i in range(n_flows):
        name = f"f{i}"
        b.intents = [f"{name} u{k}" for k in range(3)]
        defs = set()
        pre = b.prelude(defs)
        body, _ = b.block(0, defs, 2, 5)
        if draw(st.integers(0, 7)) > 0:
            # usually at least one unconditional bot/user step, so that the flow does not end inside its first event
            step = {"t": "bot", "intent": draw(st.sampled_from(BOTS))} if draw(st.booleans()) else {"t": "user", "intent": draw(st.sampled_from(b.intents))}
            body.insert(draw(st.integers(0, len(body))), step)
        flows.append({"name": name, "intent": f"{name} start", "body": pre + body})
    return {"flows": flows, "subflows": subflows}
