"""vf.fakes - offline stand-ins for everything an LLMRails pipeline talks to (DESIGN 3.1).

Nothing here imports ``tests.*``; everything is registered through public registries.

Contents
--------
``register_fake_embedding()``
    Registers ``FakeEmbedding`` (engine ``verif_fake``): deterministic bag-of-token hashing into 32
    dimensions, sync ``encode`` + async ``encode_async``, no executor, no download.  Configs name it with
    ``models: [{type: embeddings, engine: verif_fake, model: x}]`` (``MODELS`` below is the ready-made list,
    it also contains the ``main`` entry without which ``get_prompt`` raises IndexError).

Markers (``mk_*`` / ``*_RE``)
    Every text that travels through the pipeline carries an alphanumeric marker, so "which text reached
    which place" is decidable by substring:  user text of turn t ``UM{t}Z``; text returned by the LLM at its
    k-th call of turn t ``LM{t}C{k}Z``; input rail i rewriting turn t ``RWI{i}U{t}Z``; output rail i rewriting
    the LLM text ``LM{t}C{k}Z`` -> ``RWO{i}L{t}C{k}Z`` (the *lineage* ``L{t}C{k}`` survives, the LLM marker
    does not); refusals ``REFUSEI{i}Z`` / ``REFUSEO{i}Z``; rail-exception messages ``BLOCKI{i}Z`` / ``BLOCKO{i}Z``.
    ``lineage(text)`` returns the ``(turn, call)`` pairs of LLM texts a text derives from.

``Session``
    One conversation = the case's tables (verdicts, routes, fault plan, LLM overrides) plus the observation
    logs: ``trace`` (every rail/dialog action invocation: rail, turn, text seen, verdict given) and
    ``llm_calls`` (every prompt the ScriptedLLM received: turn, index in turn, task, prompt, answer,
    temperature at start/end, and `messages` when the LLM input was a chat message list).  Its methods are the *policy* of the fakes and are meant to be overridden
    by later checks: ``rail_verdict`` (accept/reject/rewrite), ``should_fail`` (fault injection, C03),
    ``llm_answer`` (hostile outputs, C17), ``llm_latency`` (schedules, C15).
    The session in charge of the running request is found through the context variable ``CURRENT``
    (set by ``vf.pipeline`` around every ``generate`` call), so several conversations can be in flight on
    one LLMRails instance.

``ScriptedLLM``
    LangChain ``LLM`` subclass with real ``temperature`` / ``max_tokens`` fields (so ``llm_params`` mutates
    them as it does for a real provider).  The answer is a function of the prompt: the task is recognised
    from the *rendered prompt* (``classify_prompt``: generate_user_intent / generate_next_steps /
    generate_bot_message / general (also v2 PassthroughLLMAction) / self_check_input / self_check_output /
    v2_user_intent / v2_flow_continuation), the text comes from ``Session.llm_answer``.  Trace entries and
    call records share one sequence counter (``seq``), so "X happened before Y" is decidable.

``make_rail_action`` / ``make_dialog_action`` / ``make_route_action`` / ``make_retrieval_action``
    Factories for the ``async`` actions registered with ``LLMRails.register_action``; each looks up the
    current session, consults its verdict table / fault plan and appends to its trace.

Rail fakes apply their verdict only to *checked material*: input rails to whatever user text they get,
output rails to texts with an LLM lineage.  Any other bot text (refusals, predefined messages) is accepted
unchanged, because the properties say nothing about those passing through output rails.
"""
import asyncio
import contextvars
import hashlib
import re
from collections import Counter
from typing import Any, List, Optional

from langchain_core.language_models.llms import LLM

# ------------------------------------------------------------------------------------------------
# embeddings

MODELS = [
    {"type": "main", "engine": "openai", "model": "gpt-3.5-turbo-instruct"},
    {"type": "embeddings", "engine": "verif_fake", "model": "x"},
]

_registered = False


def _embed(text):
    v = [0.0] * 32
    for tok in re.findall(r"\w+", str(text).lower()):
        h = int(hashlib.md5(tok.encode()).hexdigest(), 16)
        v[h % 32] += 1.0
        v[(h >> 8) % 32] += 0.5
    if not any(v):
        v[0] = 1.0
    return v


def register_fake_embedding():
    """Idempotent; must run before the first LLMRails with dialog rails is built."""
    global _registered
    if _registered:
        return
    from nemoguardrails.embeddings.providers import register_embedding_provider
    from nemoguardrails.embeddings.providers.base import EmbeddingModel

    class FakeEmbedding(EmbeddingModel):
        engine_name = "verif_fake"

        def __init__(self, embedding_model=None, **kwargs):
            self.model = embedding_model
            self.embedding_size = 32

        def encode(self, documents: List[str]) -> List[List[float]]:
            return [_embed(d) for d in documents]

        async def encode_async(self, documents: List[str]) -> List[List[float]]:
            return [_embed(d) for d in documents]

    register_embedding_provider(FakeEmbedding, "verif_fake")
    _registered = True


# ------------------------------------------------------------------------------------------------
# markers


def mk_user(t):
    return f"UM{t}Z"


def mk_llm(t, k):
    return f"LM{t}C{k}Z"


def mk_rw_in(i, t):
    return f"RWI{i}U{t}Z"


def mk_rw_out(i, t, k):
    return f"RWO{i}L{t}C{k}Z"


def mk_refuse(cat, i):
    return f"REFUSE{'I' if cat == 'in' else 'O'}{i}Z"


def mk_block(cat, i):
    return f"BLOCK{'I' if cat == 'in' else 'O'}{i}Z"


USER_RE = re.compile(r"UM(\d+)Z")
LLM_RE = re.compile(r"LM(\d+)C(\d+)Z")
RWO_RE = re.compile(r"RWO(\d+)L(\d+)C(\d+)Z")
RWI_RE = re.compile(r"RWI(\d+)U(\d+)Z")

SELF_REFUSAL = "I'm sorry, I can't respond to that."
SELF_BLOCK_IN = "Input not allowed. The input was blocked by the 'self check input' flow."
SELF_BLOCK_OUT = "Output not allowed. The output was blocked by the 'self check output' flow."
PREDEF = {"greet": "PREDEFGREETZ hello world", "help": "PREDEFHELPZ how can I help"}


def eff(kind, verdict):
    """The verdict a rail of `kind` can actually deliver (check/self cannot rewrite, rewrite cannot reject)."""
    if kind in ("check", "self") and verdict == "rewrite":
        return "accept"
    if kind == "rewrite" and verdict == "reject":
        return "accept"
    return verdict


def lineage(text):
    """(turn, call) of every LLM text that `text` is, or was rewritten from."""
    text = str(text)
    out = [(int(a), int(b)) for a, b in LLM_RE.findall(text)]
    out += [(int(b), int(c)) for _, b, c in RWO_RE.findall(text)]
    return sorted(set(out))


def llm_markers(text):
    """LLM markers (un-rewritten LLM texts) present in `text`."""
    return [mk_llm(int(a), int(b)) for a, b in LLM_RE.findall(str(text))]


def rw_in_text(i, t):
    """What input rail i turns the user text of turn t into."""
    return f"{mk_rw_in(i, t)} sanitized input"


def rw_out_text(i, text):
    """What output rail i turns an LLM-lineage text into (other texts are left alone)."""
    ln = lineage(text)
    if not ln:
        return str(text)
    return " ".join(mk_rw_out(i, t, k) for t, k in ln) + " sanitized output"


def refusal_text(cat, i, kind):
    """The bot message a rail utters when it blocks (without rail exceptions)."""
    return SELF_REFUSAL if kind == "self" else f"{mk_refuse(cat, i)} cannot do that"


def block_message(cat, i, kind):
    """The `message` of the rail exception event (with enable_rails_exceptions)."""
    if kind == "self":
        return SELF_BLOCK_IN if cat == "in" else SELF_BLOCK_OUT
    return f"{mk_block(cat, i)} blocked by rail"


# ------------------------------------------------------------------------------------------------
# the conversation-side state of all fakes

CURRENT = contextvars.ContextVar("vf_current_session", default=None)  # (Session, turn)
_fallback = {"cur": None}  # used only if a code path loses the context (none known)


def set_current(session, turn):
    _fallback["cur"] = (session, turn)
    return CURRENT.set((session, turn))


def current():
    cur = CURRENT.get()
    if cur is None:
        cur = _fallback["cur"]
    if cur is None:
        raise RuntimeError("vf.fakes: an action or the LLM was invoked outside vf.pipeline (no current session)")
    return cur


class InjectedFault(RuntimeError):
    """Raised by a fake action at a planned invocation (C03)."""


# routes of the generated dialog: route -> (user intent, [bot message kinds])
#   P = predefined bot message, L = LLM-generated bot message; "next_*": no flow matches the intent,
#   the LLM is asked for the next step (generate_next_steps).
ROUTES = {
    "predef": ("express greeting", ["P"]),
    "llm": ("ask weather", ["L"]),
    "pl": ("ask joke", ["P", "L"]),
    "lp": ("ask story", ["L", "P"]),
    "ll": ("ask facts", ["L", "L"]),
    "next_llm": ("ask time", ["L"]),
    "next_predef": ("ask help", ["P"]),
    "act_llm": ("ask status", ["L"]),  # flow with a custom dialog action before the LLM message
    # (Colang 1.0, opt-in: not in pipeline.V1_ROUTES) the flow obtains the text from an LLM-backed action and sends it with `bot $answer`
    "act_var": ("ask answer", ["L"]),
}
NEXT_STEP = {"next_llm": "inform time", "next_predef": "offer help"}


class Session:
    """Tables of one conversation + everything observed while it runs.

    case["turns"][t] keys used here: "route" (see ROUTES; ignored when dialog rails are off),
    "in" / "out" / "ret" (verdict per rail: "accept" | "reject" | "rewrite"), "body" (tail of LLM texts),
    "repeat_llm" (s: the LLM's message texts of this turn repeat, verbatim, those it produced in turn s),
    "umark" (index of the marker `UM{umark}Z` carried by "user" when the turn repeats the text of an earlier turn).
    case["faults"]  : [[action_name, k], ...]  the k-th invocation (0-based, per conversation) raises.
    case["llm_override"] : [[turn, call_index, text], ...]  returned verbatim instead of the scripted answer.
    """

    def __init__(self, case, cfg=None):
        self.case = case
        self.cfg = cfg or case["config"]
        self.turns = case["turns"]
        self.trace = []
        self.llm_calls = []
        self.counts = Counter()
        self.faults = {(a, int(k)) for a, k in case.get("faults", [])}
        self.override = {(int(t), int(k)): text for t, k, text in case.get("llm_override", [])}
        self.in_flight = 0
        self.message_texts = {}  # turn -> message texts produced by the scripted LLM in that turn (see message_text)
        self.seq = 0  # global order of rail invocations and LLM calls ("seq" in trace entries / call records)

    # ---- policy (override points) -------------------------------------------------------------
    def rail_kind(self, cat, idx):
        return self.cfg[cat][idx]

    def rail_verdict(self, cat, idx, turn, text):
        """accept | reject | rewrite for this invocation."""
        if cat == "out" and not lineage(text) and not self.turns[turn].get("out_any_text"):
            return "accept"  # refusals / predefined messages are not the checked material (turn flag out_any_text: every text is)
        v = self.turns[turn].get(cat, [])
        return v[idx] if idx < len(v) else "accept"

    def rewritten(self, cat, idx, turn, text):
        return rw_in_text(idx, turn) if cat == "in" else rw_out_text(idx, text)

    def should_fail(self, action_name, k):
        return (action_name, k) in self.faults

    def llm_latency(self, turn, k, task):
        return 0

    def route(self, turn):
        if not self.cfg.get("dialog"):
            return "llm"
        return self.turns[turn].get("route", "llm")

    def llm_answer(self, task, prompt, turn, k):
        """Scripted completion for the k-th LLM call of `turn` (task recognised from the prompt)."""
        if (turn, k) in self.override:
            return self.override[(turn, k)]
        route = self.route(turn)
        body = self.turns[turn].get("body", "generated words")
        if task == "generate_user_intent":
            return "  " + ROUTES[route][0]
        if task == "generate_next_steps":
            return "bot " + NEXT_STEP.get(route, "inform something")
        if task == "v2_user_intent":
            return "user expressed greeting" if route == "predef" else "user asked something else"
        if task == "v2_flow_continuation":
            if route == "known":
                # (opt-in route, used by C11 only) the LLM names a bot intent for which the configuration defines a flow
                return f'bot express greeting\nbot action: bot say "{self.message_text(turn, k, body)}"'
            return f'bot provide answer\nbot action: bot say "{self.message_text(turn, k, body)}"'
        if task == "generate_bot_message":
            return f'  "{self.message_text(turn, k, body)}"'
        if task in ("self_check_input", "self_check_output"):
            cat = "in" if task == "self_check_input" else "out"
            idx = self.cfg[cat].index("self")
            seen = _between(prompt, 'Checked text: "', '"\nEnd of checked text')
            verdict = eff("self", self.rail_verdict(cat, idx, turn, seen))
            self.trace.append(
                {"rail": f"{cat}{idx}", "cat": cat, "idx": idx, "turn": turn, "text": seen, "ctx": seen, "verdict": verdict, "via": "llm", "seq": self.tick()}
            )
            return "Yes" if verdict == "reject" else "No"
        # general / passthrough / anything else that asks for a message
        return self.message_text(turn, k, body)

    def message_text(self, turn, k, body):
        """Bot message text the LLM produces at call k of `turn`: a fresh text `LM{turn}C{k}Z body`, or - case feature
        turns[turn]["repeat_llm"] = s - exactly the n-th message text produced in the earlier turn s (the LLM repeats
        itself; the text then carries the marker of its first production and is checked material of `turn` again)."""
        n = len(self.message_texts.get(turn, []))
        src = self.turns[turn].get("repeat_llm") if turn < len(self.turns) else None
        prev = self.message_texts.get(src, []) if src is not None else []
        text = prev[n] if n < len(prev) else f"{mk_llm(turn, k)} {body}"
        self.message_texts.setdefault(turn, []).append(text)
        return text

    # ---- bookkeeping ---------------------------------------------------------------------------
    def tick(self):
        self.seq += 1
        return self.seq

    def next_count(self, action_name):
        k = self.counts[action_name]
        self.counts[action_name] += 1
        return k

    def calls_of_turn(self, turn):
        return [c for c in self.llm_calls if c["turn"] == turn]

    def trace_of_turn(self, turn, cat=None):
        return [e for e in self.trace if e["turn"] == turn and (cat is None or e["cat"] == cat)]


def _between(text, a, b):
    i = text.find(a)
    if i < 0:
        return text
    j = text.find(b, i + len(a))
    return text[i + len(a): j if j >= 0 else len(text)]


# ------------------------------------------------------------------------------------------------
# scripted LLM

SELF_CHECK_PROMPTS = [
    {
        "task": "self_check_input",
        "content": 'VF-SELF-CHECK-INPUT\nChecked text: "{{ user_input }}"\nEnd of checked text\nShould it be blocked (Yes or No)?\nAnswer:',
    },
    {
        "task": "self_check_output",
        "content": 'VF-SELF-CHECK-OUTPUT\nUser said: "{{ user_input }}"\nChecked text: "{{ bot_response }}"\nEnd of checked text\nShould it be blocked (Yes or No)?\nAnswer:',
    },
]

GENERATION_TASKS = ("generate_user_intent", "generate_next_steps", "generate_bot_message", "general", "v2_user_intent", "v2_flow_continuation")
MESSAGE_TASKS = ("generate_bot_message", "general", "v2_flow_continuation")  # tasks whose answer carries a bot message text


def classify_prompt(prompt):
    """Task of a rendered prompt (shipped default templates + the two self-check templates above)."""
    if not isinstance(prompt, str):
        return "general"
    if prompt.startswith("VF-SELF-CHECK-INPUT"):
        return "self_check_input"
    if prompt.startswith("VF-SELF-CHECK-OUTPUT"):
        return "self_check_output"
    tail = prompt.rstrip()
    if tail.endswith("user intent:") and "# These are the most likely user intents:" in prompt:
        return "v2_user_intent"  # generate_user_intent_from_user_action (llm continuation)
    if tail.endswith("bot intent:"):
        return "v2_flow_continuation"  # generate_flow_continuation
    if "# This is how the user talks:" in prompt:
        return "generate_user_intent"
    if "# This is how the bot thinks:" in prompt:
        return "generate_next_steps"
    if "# This is how the bot talks:" in prompt:
        return "generate_bot_message"
    return "general"


_RAW_PROMPT = contextvars.ContextVar("vf_raw_prompt", default=None)


class ScriptedLLM(LLM):
    """LLM whose completion is `Session.llm_answer(task, prompt, turn, k)`; records every call."""

    temperature: float = 0.7
    max_tokens: int = 128
    n_calls: int = 0

    @property
    def _llm_type(self) -> str:
        return "vf-scripted"

    @property
    def _identifying_params(self):
        return {}

    async def agenerate_prompt(self, prompts, stop=None, callbacks=None, **kwargs):
        # keep the un-flattened prompt value (chat messages in passthrough mode) for the call record
        tok = _RAW_PROMPT.set(prompts[0] if prompts else None)
        try:
            return await super().agenerate_prompt(prompts, stop=stop, callbacks=callbacks, **kwargs)
        finally:
            _RAW_PROMPT.reset(tok)

    def _begin(self, prompt, stop):
        session, turn = current()
        k = len(session.calls_of_turn(turn))
        task = classify_prompt(prompt)
        rec = {"turn": turn, "k": k, "task": task, "prompt": prompt, "stop": stop, "t_start": self.temperature, "t_end": None, "answer": None, "seq": session.tick()}
        raw = _RAW_PROMPT.get()
        if raw is not None and hasattr(raw, "messages"):
            # the LLM input was a message list (v1 passthrough mode): "prompt" is its flattened text, this is the list
            rec["messages"] = [{"role": getattr(m, "type", "?"), "content": getattr(m, "content", None)} for m in raw.messages]
        session.llm_calls.append(rec)
        session.in_flight += 1
        return session, turn, k, task, rec

    def _finish(self, session, rec, answer):
        rec["answer"] = answer
        rec["t_end"] = self.temperature
        session.in_flight -= 1
        return answer

    def _call(self, prompt: str, stop: Optional[List[str]] = None, run_manager: Any = None, **kwargs: Any) -> str:
        session, turn, k, task, rec = self._begin(prompt, stop)
        return self._finish(session, rec, session.llm_answer(task, prompt, turn, k))

    async def _acall(self, prompt: str, stop: Optional[List[str]] = None, run_manager: Any = None, **kwargs: Any) -> str:
        session, turn, k, task, rec = self._begin(prompt, stop)
        lat = session.llm_latency(turn, k, task)
        if lat:
            await asyncio.sleep(lat)
        return self._finish(session, rec, session.llm_answer(task, prompt, turn, k))


# ------------------------------------------------------------------------------------------------
# actions


def _enter(action_name, entry):
    """Common prologue of every fake action: count, record, maybe raise the planned fault."""
    session, turn = current()
    k = session.next_count(action_name)
    entry.update(turn=turn, action=action_name, k=k, seq=session.tick())
    session.trace.append(entry)
    if session.should_fail(action_name, k):
        entry["verdict"] = "raise"
        raise InjectedFault(f"VF-FAULT {action_name}#{k}")
    return session, turn


def _system(fn, name):
    """Rail actions are registered as system actions (like the shipped self-check actions), which keeps their
    return values - e.g. the text a rewriting rail hands back - out of the Colang history rendered into prompts."""
    from nemoguardrails.actions import action

    return action(is_system_action=True, name=name)(fn)


def make_rail_action(cat, idx, action_name):
    """Action of input/output rail `idx`.

    kind check   -> returns True / False
    kind rewrite -> returns the (possibly rewritten) text
    kind both    -> returns False (blocked) or the (possibly rewritten) text
    """

    async def rail_action(text=None, context=None):
        entry = {"rail": f"{cat}{idx}", "cat": cat, "idx": idx, "text": text, "via": "action"}
        if context is not None:
            entry["ctx"] = context.get("user_message" if cat == "in" else "bot_message")
            if cat == "out":
                entry["user_ctx"] = context.get("user_message")
        session, turn = _enter(action_name, entry)
        kind = session.rail_kind(cat, idx)
        verdict = eff(kind, session.rail_verdict(cat, idx, turn, text))
        entry["verdict"] = verdict
        if kind == "check":
            return verdict != "reject"
        if verdict == "reject":
            return False
        if verdict == "rewrite":
            return session.rewritten(cat, idx, turn, text)
        return text

    rail_action.__name__ = action_name
    return _system(rail_action, action_name)


def make_retrieval_action(idx, action_name):
    """Retrieval rail action: sees $relevant_chunks, returns them (optionally tagged)."""

    async def retrieval_action(chunks=None, context=None):
        entry = {"rail": f"ret{idx}", "cat": "ret", "idx": idx, "text": chunks, "via": "action", "verdict": "accept"}
        _enter(action_name, entry)
        return chunks

    retrieval_action.__name__ = action_name
    return _system(retrieval_action, action_name)


def make_dialog_action(action_name):
    """Custom dialog action (fault-injection target for C03); returns a harmless value."""

    async def dialog_action(context=None):
        entry = {"rail": "dialog", "cat": "dialog", "idx": 0, "text": None, "via": "action", "verdict": "accept"}
        _enter(action_name, entry)
        return "DIALOGACTIONOK"

    dialog_action.__name__ = action_name
    return dialog_action


def make_llm_text_action(action_name):
    """LLM-backed custom action: asks the (scripted) LLM for a text and returns it; the flow sends it with `bot $answer`."""

    async def llm_text_action(llm=None, context=None):
        from nemoguardrails.actions.llm.utils import llm_call

        entry = {"rail": "dialog", "cat": "dialog", "idx": 1, "text": None, "via": "action", "verdict": "accept"}
        _enter(action_name, entry)
        return await llm_call(llm, "VF-ANSWER-ACTION: write the answer for the user.")

    llm_text_action.__name__ = action_name
    return llm_text_action


def make_route_action(action_name):
    """v2 only: the generated dialog logic asks this action which branch the case selected for the turn."""

    async def route_action():
        session, turn = current()
        return session.route(turn)

    route_action.__name__ = action_name
    return route_action
