"""C06 - flow and action lifetimes are bounded by the parent flow.

Domain : generated Colang 2 programs (vf/co2.py: start/await/activate of flows and actions, when/or when, and/or groups of
         awaits, abort, return, loops) x histories mixing alphabet events (incl. co-simulated 'hit' events) with Started /
         Finished of running actions arriving late, early or never x tie-break outcomes; optionally 2-3 'sharer' flows that
         co-win one identical action on a common event and end at different times (shared Action object); enumerated
         families: no-wait activated flows, same-event races, restart races, shared actions.
Oracle : history invariants checked after every processed event, from the outgoing events and a read-only look at State:
         (a) no Stop for an action that was never started, already stopped or already finished;
         (b) when a flow instance leaves the running set, every unfinished action it started that no still-running flow
             shares has received exactly one Stop by the end of that processing step;
         (c) no running non-activated flow has a non-running parent; every running activated flow has a running flow that
             contains an `activate` statement for it;
         (d) while the flow that first activated X (the parent of X's restart chain) is running, some instance of X is
             listening after every step;
         (e) is (c) applied to activated flows: after the last activator ended no instance of X is running.
"""
from hypothesis import strategies as st

from vf import co2, smh
from vf.core import Violation, ok

PID = "C06"
LEVEL = "exploration"
CASE_TIMEOUT = 40
RULE = (
    "enumerated: activated flows without any waiting statement (must run exactly once; 16 programs); a same-event race family (flow p queues start/activate/await of b, an action or a send while its parent q finishes/aborts/returns on the same "
    "event; both advancing orders; b pre-activated or not; p and q started or activated; 640 programs x 2 histories incl. idle time) and a restart-race family (an activated flow already restarted 0-2 times ends on the very event that ends its last activator; 36 programs) and a shared-action family (flows a, b and optionally c reach the identical action - start as $ref / anonymous start / await, "
    "in 5 pairings - on the same event in the same loop, so one Action object is shared; a more specific, b more specific, or equal scores with both tie-break outcomes; a started, started-and-aborting or activated; "
    "b and c ending in one step; every order of {a ends, b ends, Started, Finished} with and without idle time, then the common event again; 80 programs x 64 histories in the quick tier, 120 x 88 in the thorough tier); generated: "
    "program from the co2 grammar (hierarchies up to depth 4 through start/await/activate, when/or when, await groups, abort/return, "
    "actions with references); history of 1-30 items (events, guided 'hit' events, Started/Finished of the k-th running action - so "
    "Finished may arrive before the flow waits for it, late, or never); tie-break choices drawn; in about a third of the cases 2-3 extra 'sharer' flows are added to the program: each has its own drawn prefix, then the same "
    "`match Ev<e>` (with or without a parameter, i.e. equal or different matching scores) followed by the identical action (start as $ref / await), then a tail drawn from the same grammar (may call every helper, abort, return, wait for "
    "the shared reference or end at once); they are started or activated by main (at the top or at a drawn position) or by a wrapper flow that ends at some point, all in one loop - so one event makes them co-win one shared action and the "
    "history decides in which order the sharers end relative to its Started / Finished (labels sharer-flows-added, shared-action-observed, sharer-ended-while-shared, finished-after-a-sharer-ended, last-sharer-ended-after-finished / -unfinished). Non-trivial = during the history a flow "
    "instance that had a running child flow or an unfinished action left the running set; distinct by (program, history)."
)
ASSUMPTIONS = [
    "activators of X are approximated statically: a running flow whose body contains `activate X` (reference counts are not observable)",
    "every generated helper flow starts with a waiting statement; the 'finishes without ever waiting' exception is covered by the enumerated nowait family only",
    "actions are identified by the action_uid of their Start event; Finished events are only ever sent for started actions",
    "a history is cut (label history-cut-at-150-flow-instances, everything up to the cut is checked) once more than 150 flow instances exist (ordinary cases stay below 50; the cost per event grows quadratically): recursive programs in which every instance starts several new ones grow exponentially and would only run into the case timeout",
    "an action is 'shared with a still-running flow' when its uid is in the action list of a running flow (read-only look at FlowState.action_uids); which of the sharers the interpreter regards as the owner is not used by the oracle - both tie-break outcomes and both orders of ending are generated instead",
]
WALL = {"quick": 170, "thorough": 1500}
MAX_FLOW_INSTANCES = 150  # ordinary cases stay below 50; only self-multiplying recursive programs get here


def budget(tier):
    return 16000 if tier == "quick" else 200000


PROFILE = {"recursion": True, "boost": ["startact", "startact", "awaitact", "startflow", "startflow", "awaitflow", "activate", "return", "abort"]}
SHARE_REF = 90  # reference number of the common action / of the sharer flows (the grammar counts its own from 0)


@st.composite
def _with_sharers(draw, prog):
    """Adds 2-3 'sharer' flows to a generated program: each reaches, after its own drawn prefix, the same `match Ev<e>` followed by
    the identical action (start ... as $ref / await ...), so that one event makes them co-win ONE shared action; what follows
    (drawn from the same grammar, may call every helper of the program, abort, return, finish at once) decides when each of them
    ends. They are started / activated by main or by a wrapper flow that ends itself at some point (all sharers end in one step)."""
    flows = prog["flows"]
    main = flows[-1]
    nh = len(flows) - 1
    helper_params = [bool(f["params"]) for f in flows[:-1]]
    prof = dict(co2.DEFAULT_PROFILE)
    prof.update(PROFILE)
    k = draw(st.sampled_from([2, 2, 3]))
    ev = draw(st.integers(0, co2.EVENTS - 1))
    act = draw(st.integers(0, len(co2.ACTIONS) - 1))
    loop = draw(st.sampled_from([None, None, None, "L1"]))
    inits = [{"k": "assign", "var": v, "expr": 0} for v in co2.VARS]
    new = []
    for i in range(k):
        ctx = co2.Ctx(-1, nh, [], prof)
        pre = draw(st.sampled_from([[], [], [], [{"k": "send", "n": 7}], [{"k": "match", "ev": (ev + 1) % co2.EVENTS, "v": None}]]))
        wait = {"k": "match", "ev": ev, "v": draw(st.sampled_from([None, None, 1]))}
        if draw(st.integers(0, 2)) == 0:
            common = {"k": "awaitact", "a": act}
        else:
            common = {"k": "startact", "a": act, "ref": SHARE_REF}
            ctx.vis_a = [SHARE_REF]
        tail = draw(co2._stmts(ctx, 1, helper_params, 0, 3, need_wait_first=draw(st.sampled_from([True, True, False]))))
        new.append({"name": f"h{nh + i}", "params": [], "loop": loop, "body": inits + pre + [wait, common] + tail})
    how = [draw(st.sampled_from(["startflow", "startflow", "startflow", "activate"])) for _ in range(k)]
    calls = [{"k": "activate", "f": nh + i} if how[i] == "activate" else {"k": "startflow", "f": nh + i, "arg": None, "ref": SHARE_REF + i} for i in range(k)]
    host = draw(st.sampled_from(["main", "main", "wrapper"]))
    if host == "wrapper":
        ctx = co2.Ctx(-1, nh, [], prof)
        tail = draw(co2._stmts(ctx, 1, helper_params, 0, 2, need_wait_first=True))
        new.append({"name": f"h{nh + k}", "params": [], "loop": None, "body": inits + calls + tail})
        calls = [{"k": draw(st.sampled_from(["startflow", "startflow", "activate"])), "f": nh + k, "arg": None, "ref": SHARE_REF + k}]
    at = draw(st.sampled_from([len(co2.VARS), len(co2.VARS), None]))
    if at is None:
        at = draw(st.integers(len(co2.VARS), len(main["body"]) - 1))
    body = main["body"][:at] + calls + main["body"][at:]
    return {"flows": flows[:-1] + new + [dict(main, body=body)]}, {"n": k, "host": host, "activated": how.count("activate")}


@st.composite
def _case(draw):
    prog = draw(co2.programs(profile=PROFILE, max_helpers=4, depth=2))
    case = {}
    if draw(st.integers(0, 9)) < 3:
        prog, case["share"] = draw(_with_sharers(prog))
    case.update({"prog": prog, "hist": draw(co2.histories(30)), "choices": draw(st.lists(st.integers(0, 3), max_size=3))})
    return case


def strategy(tier):
    return _case()


# Same-event races (enumerated): flow p advances on an event and queues an internal event (start / activate / await of b, an
# action, a plain send) while, on the very same external event, its parent q ends (finish / abort / return). Both orders of
# advancing (p more specific than q, or less), b already activated by main or not, p/q started or activated.
RACE_X = ["activate b", "start b as $rb", "await b", 'start UtteranceBotAction(script="x") as $ax', "send OutP()"]
RACE_EXIT = ["", "  abort\n", "  return\n", "  send OutQ()\n"]


def _race_text(x, p_specific, exit_stmt, main_activates_b, start_p, start_q):
    pm, qm = ("match E(v=1)", "match E()") if p_specific else ("match E()", "match E(v=1)")
    lines = ["flow b", "  match Eb()", "  send OutB()", "", "flow p", f"  {pm}", f"  {x}", "  match NeverP()", ""]
    lines += ["flow q", f"  {start_p} p", f"  {qm}"] + ([exit_stmt.rstrip("\n")] if exit_stmt else []) + [""]
    lines += ["flow keeper", "  activate b", "  match StopKeeper()", ""]
    lines += ["flow main"] + (["  start keeper"] if main_activates_b else []) + [f"  {start_q} q", "  match Other()", "  match Never()", ""]
    return "\n".join(lines)


NOWAIT_BODIES = {
    "send": ["send OnceOut()"],
    "assign-send": ["$k = 1", "send OnceOut()"],
    "action": ['start UtteranceBotAction(script="once")', "send OnceOut()"],
    "if-send": ["$k = 1", "if $k == 1", "  send OnceOut()"],
}


def _nowait_cases():
    """An activated flow that finishes without ever waiting runs once and stays activated (statement, second sentence)."""
    for name, body in NOWAIT_BODIES.items():
        for twice in (False, True):
            for other in (False, True):
                lines = ["flow once"] + ["  " + b for b in body] + [""]
                lines += ["flow keeper2", "  activate once", "  match StopKeeper2()", ""]
                lines += ["flow main", "  activate once"] + (["  activate once"] if twice else []) + (["  start keeper2"] if other else [])
                lines += ["  match Ev0()", "  send MainOut()", "  match Never()", ""]
                hist = [["raw", "Ev1", None], ["raw", "Ev0", None], ["raw", "StopKeeper2", None], ["age"], ["raw", "Ev0", None], ["raw", "Ev1", None]]
                yield {"leg": "nowait", "text": "\n".join(lines), "hist": hist, "choices": [], "body": name}


def _restart_race_cases():
    """An activated flow that has already been restarted r times ends (more specific match) on the very event that also ends
    its last activator: the restart it queues must not survive the deactivation."""
    for r in (0, 1, 2):
        for b_mid in ("send OutB()", 'start UtteranceBotAction(script="b reacted")'):
            for a_exit in ("", "  abort\n", "  send OutA()\n"):
                for b_more_specific in (True, False):
                    bm, am = ('match Msg(text="bye", lang="en")', 'match Msg(speaker="alice")') if b_more_specific else ('match Msg(text="bye")', 'match Msg(speaker="alice", lang="en")')
                    text = "\n".join(["flow b", "  match Ping()", f"  {b_mid}", f"  {bm}", "", "flow a", "  activate b", f"  {am}"] + ([a_exit.rstrip("\n")] if a_exit else []) + ["", "flow main", "  start a", "  match Never()", ""])
                    msg = lambda who: ["rawkw", "Msg", {"text": "bye", "lang": "en", "speaker": who}]  # noqa: E731
                    hist = []
                    for _ in range(r):
                        hist += [["raw", "Ping", None], msg("bob")]
                    hist += [["raw", "Ping", None], msg("alice"), ["raw", "Ping", None], ["age"], ["raw", "Ping", None], msg("bob"), ["raw", "Ping", None]]
                    yield {"leg": "race", "text": text, "hist": hist, "choices": [], "activators": {"b": ["a"], "a": []}}


# Shared actions (enumerated): flows a and b (optionally c) reach the identical action on the same event in the same loop, so the
# interpreter starts it once and all of them hold the one Action; which flow's action object survives depends on the order of
# the matching scores and, for equal scores, on the tie-break. Then the sharers end at different times (or b and c in one
# step), in every order relative to the Started / Finished events of the action.
SHARE_FORMS = {
    "as": 'start UtteranceBotAction(script="same") as $x',
    "anon": 'start UtteranceBotAction(script="same")',
    "await": 'await UtteranceBotAction(script="same")',
}
SHARE_PAIRS = [("as", "as"), ("anon", "anon"), ("await", "as"), ("as", "await"), ("await", "await")]
# (match of a, match of b, tie-break choices): a more specific, b more specific, equal scores with either outcome of the tie-break
SHARE_SCORES = [("E(v=1)", "E()", []), ("E()", "E(v=1)", []), ("E()", "E()", []), ("E()", "E()", [1])]
SHARE_A = [("start", ""), ("start", "  abort"), ("activate", "")]


def _shared_text(fa, fb, ma, mb, a_mode, a_exit, third):
    lines = ["flow a", f"  match {ma}", "  " + SHARE_FORMS[fa], "  match Ea()"] + ([a_exit] if a_exit else []) + [""]
    lines += ["flow b", f"  match {mb}", "  " + SHARE_FORMS[fb], "  match Eb()", "  send OutB()", ""]
    if third:
        lines += ["flow c", "  match E()", "  " + SHARE_FORMS[fb], "  match Eb()", ""]
    lines += ["flow main", f"  {a_mode} a", "  start b"] + (["  start c"] if third else []) + ["  match Never()", ""]
    return "\n".join(lines)


def _shared_cases(tier):
    import itertools

    items = [["raw", "Ea", None], ["raw", "Eb", None], ["finished", 0], ["started", 0]]
    hists = []
    # the invariants are checked after every step, so a history also covers its prefixes: short orders are only listed for the
    # sake of what follows them (the common event again), in the quick tier up to length 2
    for n in range(1, len(items) + 1):
        for perm in itertools.permutations(items, n):
            if n == len(items):
                hists.append(list(perm))
                hists.append(list(perm[:-1]) + [["age"], perm[-1]])
            elif n <= 2 or tier != "quick":
                hists.append(list(perm))
    for fa, fb in SHARE_PAIRS:
        for ma, mb, choices in SHARE_SCORES:
            for a_mode, a_exit in SHARE_A:
                for third in (False, True):
                    if third and tier == "quick" and (a_mode, a_exit) != SHARE_A[0]:
                        continue
                    text = _shared_text(fa, fb, ma, mb, a_mode, a_exit, third)
                    for h in hists:
                        # the same event again at the end: a restarted (activated) sharer starts a fresh action of its own
                        hist = [["raw", "E", 1]] + [list(x) for x in h] + [["raw", "E", 1], ["raw", "Ea", None], ["finished", 0]]
                        yield {"leg": "race", "family": "shared", "text": text, "hist": hist, "choices": list(choices), "activators": {"a": ["main"], "b": [], "c": []}}


def enumerate_cases(tier):
    yield from _nowait_cases()
    yield from _restart_race_cases()
    yield from _shared_cases(tier)
    hists = [
        [["raw", "E", 1], ["raw", "Eb", None], ["raw", "StopKeeper", None], ["raw", "Eb", None], ["raw", "E", 1], ["raw", "Eb", None]],
        [["raw", "E", 1], ["age"], ["raw", "Eb", None], ["raw", "Other", None], ["raw", "StopKeeper", None], ["raw", "Eb", None], ["raw", "E", 1]],
    ]
    for x in RACE_X:
        for p_specific in (True, False):
            for ex in RACE_EXIT:
                for mab in (False, True):
                    for sp in ("start", "activate"):
                        for sq in ("start", "activate"):
                            for h in hists:
                                yield {"leg": "race", "text": _race_text(x, p_specific, ex, mab, sp, sq), "hist": h, "choices": [], "activators": {"b": ["keeper", "p"] if mab else ["p"], "p": ["q"], "q": ["main"]}}


def _activators(prog):
    """flow name -> set of flow names that contain `activate <name>`."""
    out = {}

    def walk(stmts, owner):
        for s in stmts:
            if s["k"] == "activate":
                out.setdefault(f"h{s['f']}", set()).add(owner)
            for key in ("then", "else", "body"):
                if isinstance(s.get(key), list):
                    walk(s[key], owner)
            for c in s.get("cases", []):
                walk(c["body"], owner)

    for fl in prog["flows"]:
        walk(fl["body"], fl["name"])
    return out


class Ledger:
    def __init__(self):
        self.started = {}  # action uid -> type
        self.stops = {}  # action uid -> count
        self.finished = set()
        self.activation_pairs = set()  # (activator uid, flow id)
        self.shared = set()  # action uids seen in the action list of two running flows at once
        self.lost_sharer = set()  # shared, unfinished action uids of which one holder ended while another one kept running
        self.flags = set()  # which shapes of the shared-action life cycle the history went through (labels only)


def _snapshot(state):
    s = smh.sm()
    snap = {}
    for fs in state.flow_states.values():
        snap[fs.uid] = {
            "flow_id": fs.flow_id,
            "running": s.is_active_flow(fs),
            "listening": s.is_listening_flow(fs),
            "status": fs.status.value,
            "parent": fs.parent_uid,
            "loop": fs.loop_id,
            "children": list(fs.child_flow_uids),
            "actions": list(fs.action_uids),
            "activated": fs.activated,
        }
    return snap


def _check_step(prev, cur, ledger, outs, activators, text, where):
    # (a) Stop events
    for e in outs:
        t = e["type"]
        if t.startswith("Start") and t.endswith("Action") and "action_uid" in e:
            ledger.started[e["action_uid"]] = t[5:]
        elif t.startswith("Stop") and t.endswith("Action") and "action_uid" in e:
            uid = e["action_uid"]
            if uid not in ledger.started:
                raise Violation("stop-for-unstarted-action", f"{where}: {t} for an action that was never started\n{text}")
            if uid in ledger.finished:
                raise Violation("stop-for-finished-action", f"{where}: {t} for an action whose Finished event was already processed\n{text}")
            ledger.stops[uid] = ledger.stops.get(uid, 0) + 1
            if ledger.stops[uid] > 1:
                raise Violation("double-stop", f"{where}: {t} sent {ledger.stops[uid]} times for the same action\n{text}")
    running_now = {u for u, f in cur.items() if f["running"]}
    started_now = {e["action_uid"] for e in outs if e["type"].startswith("Start") and e["type"].endswith("Action") and "action_uid" in e}
    # (b) flows that left the running set
    ended_with_dependants = False
    for uid, f in prev.items():
        if not f["running"] or uid in running_now:
            continue
        acts = set(f["actions"]) | set(cur.get(uid, {}).get("actions", []))
        kids = [k for k in f["children"] if prev.get(k, {}).get("running")]
        live_acts = [a for a in acts if a in ledger.started and a not in ledger.finished]
        if kids or live_acts:
            ended_with_dependants = True
        for a in live_acts:
            shared = any(a in cur[r]["actions"] for r in running_now)
            if shared:
                ledger.lost_sharer.add(a)
            elif a in ledger.shared:
                ledger.flags.add("last-sharer-ended-unfinished")
            if not shared and ledger.stops.get(a, 0) != 1:
                kind = "action-not-stopped"
                if ledger.stops.get(a, 0) == 0 and a in started_now and _crosses_loops(uid, prev):
                    # root-cause bucket of its own: the Start was emitted in the very step in which the flow (a flow in another
                    # interaction loop than one of its ancestors) was ended - same clause of the statement, same verdict
                    kind = "action-started-for-flow-ended-in-same-step-other-loop"
                raise Violation(
                    kind,
                    f"{where}: flow {f['flow_id']} ended ({cur.get(uid, {}).get('status', 'removed')}) but its unfinished action {ledger.started[a]} got {ledger.stops.get(a, 0)} Stop events\n{text}",
                )
        for a in acts:
            if a in ledger.finished and a in ledger.lost_sharer and not any(a in cur[r]["actions"] for r in running_now):
                ledger.flags.add("last-sharer-ended-after-finished")
    holders = {}
    for uid in running_now:
        for a in cur[uid]["actions"]:
            holders[a] = holders.get(a, 0) + 1
    ledger.shared.update(a for a, n in holders.items() if n > 1 and a in ledger.started)
    # (c)/(e) orphans
    for uid in running_now:
        f = cur[uid]
        if f["flow_id"] == "main" or f["parent"] is None:
            continue
        if f["activated"] > 0:
            acts = activators.get(f["flow_id"], set())
            if not any(cur[r]["flow_id"] in acts for r in running_now):
                raise Violation("activated-flow-outlives-activators", f"{where}: activated flow {f['flow_id']} is running but no flow containing `activate {f['flow_id']}` is\n{text}")
            # remember the activator that is observable: the parent of the first instance of the restart chain (for d);
            # further activators only increase a reference count and cannot be told apart from flows that merely
            # contain an `activate` statement they have not executed yet
            anc = f["parent"]
            while anc in cur and cur[anc]["flow_id"] == f["flow_id"]:
                anc = cur[anc]["parent"]
            if anc in cur and cur[anc]["running"] and cur[anc]["flow_id"] in acts:
                ledger.activation_pairs.add((anc, f["flow_id"]))
        else:
            p = cur.get(f["parent"])
            if p is None or not p["running"]:
                raise Violation(
                    "orphan-flow",
                    f"{where}: flow {f['flow_id']} is still running but its parent {p['flow_id'] if p else '<gone>'} is {p['status'] if p else 'gone'}\n{text}",
                )
    return ended_with_dependants


def _crosses_loops(uid, snap):
    """The flow runs in another interaction loop than one of its ancestors (diagnosis only)."""
    loop = snap[uid]["loop"]
    anc = snap[uid]["parent"]
    while anc in snap:
        if snap[anc]["loop"] != loop:
            return True
        anc = snap[anc]["parent"]
    return False


def _check_activation_liveness(cur, ledger, confirmed, text, where):
    for act_uid, fid in confirmed:
        a = cur.get(act_uid)
        if a is None or not a["running"]:
            continue
        if not any(f["flow_id"] == fid and f["listening"] for f in cur.values()):
            raise Violation("activated-flow-not-restarted", f"{where}: flow {a['flow_id']} activated {fid} and is still running, but no instance of {fid} is listening\n{text}")


class _StepBudget(BaseException):
    pass


_budget = {"n": 0, "installed": False}


def _install_budget():
    if _budget["installed"]:
        return
    m = smh.sm()
    orig = m._get_all_head_candidates

    def counted(*a, **k):
        _budget["n"] += 1
        if _budget["n"] > 5000:
            raise _StepBudget()
        return orig(*a, **k)

    m._get_all_head_candidates = counted
    _budget["installed"] = True


def _nowait_prop(case):
    text = case["text"]
    _install_budget()
    _budget["n"] = 0
    try:
        return _nowait_run(case, text)
    except _StepBudget:
        raise Violation("nowait-activated-flow-ran-again", f"more than 5000 internal events for one external event: the activated flow without a waiting statement keeps restarting\n{text}")
    finally:
        _budget["n"] = -10**12  # never trips outside this leg


def _nowait_run(case, text):
    try:
        s = smh.Session(text, case["choices"])
    except Exception as e:
        raise Violation("exception-at-start:" + type(e).__name__, f"{e!r}"[:300] + "\n" + text)
    events = list(s.start_events)
    for i, item in enumerate(case["hist"]):
        if item[0] == "age":
            smh.Clock.virtual += 6.0
            continue
        ev = {"type": item[1]}
        _budget["n"] = 0
        try:
            events += smh.feed(s.state, ev)
        except Exception as e:
            raise Violation("exception-escaped:" + type(e).__name__, f"event #{i} {ev}: {e!r}"[:300] + "\n" + text)
    n = sum(1 for e in events if e["type"] == "OnceOut")
    if n != 1:
        raise Violation("nowait-activated-flow-ran-%s" % ("never" if n == 0 else "again"), f"activated flow without any waiting statement emitted its marker {n} times over the history (expected exactly once)\n{text}")
    if sum(1 for e in events if e["type"] == "MainOut") != 1:
        raise Violation("nowait-activator-disturbed", f"main did not continue normally after activating a flow that finishes immediately\n{text}")
    return ok(nt=True, labels=["nowait-family", "body-" + case["body"]], view={"program": text})


def prop(case):
    if case.get("leg") == "nowait":
        return _nowait_prop(case)
    if case.get("leg") == "race":
        text = case["text"]
        activators = {k: set(v) for k, v in case["activators"].items()}
    else:
        text = co2.render(case["prog"])
        activators = _activators(case["prog"])
    try:
        s = smh.Session(text, case["choices"])
    except Exception as e:
        raise Violation("exception-at-start:" + type(e).__name__, f"{e!r}"[:300] + "\n" + text)
    ledger = Ledger()
    prev = {}
    cur = _snapshot(s.state)
    nt = _check_step(prev, cur, ledger, s.start_events, activators, text, "after start")
    # pairs (activator instance, X) for which X was seen running while the activator ran
    confirmed = set()

    def confirm():
        for act_uid, fid in ledger.activation_pairs:
            confirmed.add((act_uid, fid))

    confirm()
    fed = 0
    cut = False
    for i, item in enumerate(case["hist"]):
        if item[0] == "rawkw":
            ev = dict(item[2], type=item[1])
        elif item[0] == "raw":
            ev = {"type": item[1]}
            if item[2] is not None:
                ev["v"] = item[2]
        else:
            ev = s.concrete(item)
        if ev is None:
            continue
        if ev["type"].endswith("ActionFinished") and "action_uid" in ev:
            ledger.finished.add(ev["action_uid"])
            if ev["action_uid"] in ledger.lost_sharer and ledger.stops.get(ev["action_uid"], 0) == 0:
                ledger.flags.add("finished-after-a-sharer-ended")
        try:
            outs = smh.feed(s.state, ev)
        except Exception as e:
            raise Violation("exception-escaped:" + type(e).__name__, f"event #{i} {ev}: {e!r}"[:300] + "\n" + text)
        s._ledger(outs)
        fed += 1
        prev, cur = cur, _snapshot(s.state)
        where = f"after event #{i} {ev['type']} of {case['hist'][: i + 1]}"
        # only activators that were already confirmed BEFORE this step are required to still have a listening instance
        _check_activation_liveness(cur, ledger, set(confirmed), text, where)
        if _check_step(prev, cur, ledger, outs, activators, text, where):
            nt = True
        confirm()
        if len(cur) > MAX_FLOW_INSTANCES:
            cut = True  # a recursive program that multiplies itself on every event: the rest of the history would only time out
            break
    from collections import Counter

    kinds = co2.count_kinds(case["prog"]) if case.get("leg") != "race" else Counter()
    labels = ["shared-family" if case.get("family") == "shared" else "race-family"] if case.get("leg") == "race" else []
    if case.get("share"):
        labels.append("sharer-flows-added")
    if ledger.shared:
        labels.append("shared-action-observed")
    if ledger.lost_sharer:
        labels.append("sharer-ended-while-shared")
    labels += sorted(ledger.flags)
    if nt:
        labels.append("flow-ended-with-dependants")
    if ledger.stops:
        labels.append("stop-events-seen")
    if confirmed:
        labels.append("activation-observed")
    if kinds["when"]:
        labels.append("when")
    if kinds["awaitg"]:
        labels.append("await-group")
    if kinds["abort"] + kinds["return"]:
        labels.append("abort/return")
    if ledger.finished:
        labels.append("action-finished-events")
    if cut:
        labels.append("history-cut-at-%d-flow-instances" % MAX_FLOW_INSTANCES)
    labels.append("len>=10" if fed >= 10 else "len<10")
    return ok(nt=nt, labels=labels, view={"program": text, "history": case["hist"][:12], "stops": len(ledger.stops)}, counters={"events_fed": fed, "stop_events": sum(ledger.stops.values())})
