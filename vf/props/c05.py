"""C05 - competing flows: exactly one most-specific action wins per interaction loop.

Domain : 2-6 flows, each `match Ev(<subset of the event's 3 parameters>)` (specificity = #unmentioned), optional
         `priority p`, then `start <action>`; action identities drawn so that equal actions occur; loop per flow
         (parent loop / @loop("L1") / @loop("NEW")); flows whose pattern does not fit; a wrapper variant where the
         match sits one level down (`await inner_i`); tie-break outcomes drawn (statemachine.random replaced).
Oracle : per loop, winners = flows whose action equals the action of ONE top-scoring flow (score = 0.9^unmentioned
         x priority; exact ties -> any of them, validity predicate); each winning action started exactly once,
         all other fitting flows of the loop are stopped, winners and non-fitting flows still running.
"""
from collections import Counter

from hypothesis import strategies as st

from vf import smh
from vf.core import Violation, ok

PID = "C05"
LEVEL = "exploration"
CASE_TIMEOUT = 30
RULE = (
    "n in 2..6 flows started by main; flow i: [@loop(L1|NEW)] [priority p in {1.0,0.5,0.1}] match Ev(subset of a=1,b=2,c=3 "
    "[one value wrong => does not fit]) then start UtteranceBotAction(script=A|B|C) or GestureBotAction(gesture=A|B); "
    "direct or wrapped one level down (all flows of a case use the same depth); some flows start their action through a head fork (`when <Action>`), in a quarter of those cases a supervisor flow in its own loop stops one competitor with `send StopFlow` on the same event; in one direct case of three a second round follows: the co-winners "
    "share one action object, its Finished event is fed and they compete again on `match $a.Finished()` (only priorities differ) with second actions; event Ev(a=1,b=2,c=3); tie-break index list "
    "drawn. Non-trivial = some loop has >=3 fitting flows with >=2 distinct scores, or an exact tie between different "
    "actions, or >=2 loops with fitting flows; distinct by case."
)
ASSUMPTIONS = [
    "scores within 1e-9 are treated as tied and any tied flow may win (validity predicate)",
    "in the wrapped variant the priority statement sits in the inner flow that performs the match, so the first element of the score chain is 0.9^u x p",
    "only action starts compete; the event carries exactly the three parameters a, b, c",
]
WALL = {"quick": 150, "thorough": 1500}
PARAMS = {"a": 1, "b": 2, "c": 3}
ACTIONS = [("UtteranceBotAction", "script", "A"), ("UtteranceBotAction", "script", "B"), ("UtteranceBotAction", "script", "C"), ("GestureBotAction", "gesture", "A"), ("GestureBotAction", "gesture", "B")]


def budget(tier):
    return 4000 if tier == "quick" else 60000


@st.composite
def _flow(draw):
    mentioned = draw(st.lists(st.sampled_from(["a", "b", "c"]), unique=True, max_size=3).map(sorted))
    wrong = None
    if mentioned and draw(st.integers(0, 5)) == 0:
        wrong = draw(st.sampled_from(mentioned))
    return {
        "mentioned": mentioned,
        "wrong": wrong,
        "priority": draw(st.sampled_from([None, None, 1.0, 0.5, 0.1])),
        "action": draw(st.integers(0, len(ACTIONS) - 1)),
        "loop": draw(st.sampled_from([None, None, None, "L1", "L1", "NEW"])),
    }


@st.composite
def _case(draw):
    flows = draw(st.lists(_flow(), min_size=2, max_size=6))
    if draw(st.booleans()):
        # force interesting shapes: copy the specificity of flow 0 to flow 1 (tie) with a different action
        flows[1] = dict(flows[1], mentioned=flows[0]["mentioned"], wrong=flows[0]["wrong"], priority=flows[0]["priority"], loop=flows[0]["loop"])
    wrapped = draw(st.integers(0, 3)) == 0
    stage2 = None
    if not wrapped and draw(st.integers(0, 2)) == 0:
        # second round: the co-winners of round 1 share ONE action object; when it finishes they compete again, now on a match
        # that is bound to the shared reference (`match $a.Finished()`), so only the declared priorities tell them apart
        for f in flows:
            f["loop"] = None
        stage2 = [draw(st.integers(0, len(ACTIONS) - 1)) for _ in flows]
    case = {"flows": flows, "wrapped": wrapped, "stage2": stage2, "choices": draw(st.lists(st.integers(0, 5), min_size=1, max_size=4))}
    if not wrapped and stage2 is None:
        # some flows reach their action through a head fork (`when <Action>`): the forked head must keep the score of the match
        case["via_when"] = [draw(st.integers(0, 2)) == 0 for _ in flows]
        # a supervisor (own loop) reacts to the same event by stopping one flow: a flow stopped in the same processing step
        # no longer takes part in the competition
        if draw(st.integers(0, 3)) == 0:
            case["stop"] = draw(st.integers(0, len(flows) - 1))
    return case


def strategy(tier):
    return _case()


def program(case):
    lines = []
    for i, f in enumerate(case["flows"]):
        args = ", ".join(f"{k}={PARAMS[k] + (10 if k == f['wrong'] else 0)}" for k in f["mentioned"])
        typ, key, val = ACTIONS[f["action"]]
        deco = [f'@loop("{f["loop"]}")'] if f["loop"] else []
        prio = [f"  priority {f['priority']}"] if f["priority"] is not None else []
        if case["wrapped"]:
            lines += [f"flow inner{i}"] + prio + [f"  match Ev({args})", ""]
            lines += deco + [f"flow c{i}", f"  await inner{i}", f'  start {typ}({key}="{val}")', f"  match Never{i}()", ""]
        else:
            second = []
            if case.get("stage2"):
                t2, k2, v2 = ACTIONS[case["stage2"][i]]
                second = ["  match $a.Finished()", f'  start {t2}({k2}="{v2}2")']
            if (case.get("via_when") or [False] * len(case["flows"]))[i]:
                lines += deco + [f"flow c{i}"] + prio + [f"  match Ev({args})", f'  when {typ}({key}="{val}")', f"    send ActionDone{i}()", f"  match Never{i}()", ""]
            else:
                lines += deco + [f"flow c{i}"] + prio + [f"  match Ev({args})", f'  start {typ}({key}="{val}") as $a'] + second + [f"  match Never{i}()", ""]
    if case.get("stop") is not None:
        lines += ['@loop("supervision")', "flow supervisor", "  match Ev()", f'  send StopFlow(flow_id="c{case["stop"]}")', "  match NeverSup()", ""]
    lines.append("flow main")
    for i in range(len(case["flows"])):
        lines.append(f"  start c{i}")
    if case.get("stop") is not None:
        lines.append("  start supervisor")
    lines += ["  match Never()", ""]
    return "\n".join(lines)


def score(f):
    if f["wrong"]:
        return 0.0
    s = 1.0
    s *= 0.9 ** (3 - len(f["mentioned"]))
    if f["priority"]:
        s *= f["priority"]
    return s


def prop(case):
    flows = case["flows"]
    text = program(case)
    smh.install()
    smh.CHOOSER.reset(case["choices"])
    state = smh.init(text)
    smh.CHOOSER.reset(case["choices"])
    out = smh.feed(state, smh.ev("Ev", **PARAMS))
    starts = Counter()
    for e in out:
        if e["type"].startswith("Start") and e["type"].endswith("BotAction"):
            typ = e["type"][5:]
            key = "script" if typ == "UtteranceBotAction" else "gesture"
            starts[(typ, e.get(key))] += 1
    status = {}
    for fs in state.flow_states.values():
        if fs.flow_id.startswith("c") and fs.flow_id[1:].isdigit():
            status.setdefault(int(fs.flow_id[1:]), []).append(fs.status.value)
    # loop groups
    groups = {}
    for i, f in enumerate(flows):
        key = f["loop"] if f["loop"] != "NEW" else f"NEW{i}"
        groups.setdefault(key or "main", []).append(i)
    desc = "; ".join(
        f"c{i}[loop={f['loop'] or 'main'} score={score(f):.4g} action={ACTIONS[f['action']][0][:3]}:{ACTIONS[f['action']][2]}]" for i, f in enumerate(flows)
    ) + (" wrapped" if case["wrapped"] else "")
    observed = {i: (status.get(i) or ["missing"])[-1] for i in range(len(flows))}
    for i in observed:
        if len(status.get(i, [])) != 1:
            raise Violation("instances", f"{desc}: flow c{i} has instances {status.get(i)}")
    expected_starts_options = []  # per group: list of (action, winners)
    nt = False
    fitting_groups = 0
    stopped_by_supervisor = case.get("stop")
    if stopped_by_supervisor is not None:
        desc += f" | supervisor stops c{stopped_by_supervisor} on the same event"
        if observed[stopped_by_supervisor] != "stopped":
            raise Violation("stopflow-ignored", f"{desc}: c{stopped_by_supervisor} is {observed[stopped_by_supervisor]}")
    for g, members in groups.items():
        fit = [i for i in members if score(flows[i]) > 0 and i != stopped_by_supervisor]
        for i in members:
            if i not in fit and i != stopped_by_supervisor and observed[i] != "started":
                raise Violation("nonfitting-touched", f"{desc}: c{i} did not fit the event but is {observed[i]}")
        if not fit:
            continue
        fitting_groups += 1
        top = max(score(flows[i]) for i in fit)
        tied = [i for i in fit if abs(score(flows[i]) - top) <= 1e-9]
        options = []
        for w in tied:
            a = flows[w]["action"]
            winners = sorted(i for i in fit if flows[i]["action"] == a)
            if (a, winners) not in options:
                options.append((a, winners))
        # which option does the observation correspond to?
        running = sorted(i for i in fit if observed[i] == "started")
        match = [o for o in options if o[1] == running]
        if not match:
            raise Violation(
                "wrong-winners",
                f"{desc}: loop {g}: flows still running {['c%d' % i for i in running]}, statuses {observed}; allowed winner sets {[['c%d' % i for i in o[1]] for o in options]}",
            )
        for i in fit:
            if i not in running and observed[i] != "stopped":
                raise Violation("loser-not-stopped", f"{desc}: loop {g}: losing flow c{i} is {observed[i]}")
        expected_starts_options.append(match[0][0])
        if (len(fit) >= 3 and len({round(score(flows[i]), 9) for i in fit}) >= 2) or len(options) >= 2:
            nt = True
    exp = Counter()
    for a in expected_starts_options:
        typ, key, val = ACTIONS[a]
        exp[(typ, val)] += 1
    if exp != starts:
        raise Violation("wrong-actions", f"{desc}: started actions {dict(starts)}, expected {dict(exp)} (each winning action exactly once per loop)")
    if fitting_groups >= 2:
        nt = True
    stage2_done = False
    if case.get("stage2") and fitting_groups == 1:
        # round 2: finish the (single, shared) action of round 1
        (g, members), = [(g, m) for g, m in groups.items() if any(score(flows[i]) > 0 for i in m)]
        winners1 = sorted(i for i in members if observed[i] == "started" and score(flows[i]) > 0)
        start_ev = [e for e in out if e["type"].startswith("Start") and e["type"].endswith("BotAction")]
        if len(start_ev) == 1 and winners1:
            e0 = start_ev[0]
            smh.CHOOSER.reset(case["choices"][::-1])
            out2 = smh.feed(state, smh.ev(e0["type"][5:] + "Finished", action_uid=e0["action_uid"], is_success=True))
            prio = lambda i: flows[i]["priority"] if flows[i]["priority"] else 1.0  # noqa: E731
            top = max(prio(i) for i in winners1)
            tied = [i for i in winners1 if abs(prio(i) - top) <= 1e-9]
            options = []
            for w in tied:
                a2 = case["stage2"][w]
                ws = sorted(i for i in winners1 if case["stage2"][i] == a2)
                if (a2, ws) not in options:
                    options.append((a2, ws))
            status2 = {}
            for fs in state.flow_states.values():
                if fs.flow_id.startswith("c") and fs.flow_id[1:].isdigit():
                    status2[int(fs.flow_id[1:])] = fs.status.value
            running2 = sorted(i for i in winners1 if status2.get(i) == "started")
            match2 = [o for o in options if o[1] == running2]
            d2 = desc + " | round 2 on the shared action's Finished event: " + "; ".join(f"c{i}[priority={prio(i)} action2={ACTIONS[case['stage2'][i]][0][:3]}:{ACTIONS[case['stage2'][i]][2]}2]" for i in winners1)
            if not match2:
                raise Violation("wrong-winners-round2", f"{d2}: still running {['c%d' % i for i in running2]}, allowed winner sets {[['c%d' % i for i in o[1]] for o in options]}")
            starts2 = Counter()
            for e in out2:
                if e["type"].startswith("Start") and e["type"].endswith("BotAction"):
                    typ = e["type"][5:]
                    starts2[(typ, e.get("script" if typ == "UtteranceBotAction" else "gesture"))] += 1
            t2, _, v2 = ACTIONS[match2[0][0]]
            if starts2 != Counter({(t2, v2 + "2"): 1}):
                raise Violation("wrong-actions-round2", f"{d2}: started {dict(starts2)}, expected exactly one {t2}:{v2}2")
            stage2_done = True
            if len(winners1) >= 2:
                nt = True
    labels = [f"n{len(flows)}", f"loops{len(groups)}", "wrapped" if case["wrapped"] else "direct"]
    if any(f["priority"] not in (None, 1.0) for f in flows):
        labels.append("priority")
    if any(f["wrong"] for f in flows):
        labels.append("has-nonfitting")
    if smh.CHOOSER.used:
        labels.append("tie-break-used")
    if stage2_done:
        labels.append("round2-on-shared-reference")
    if any(case.get("via_when") or []):
        labels.append("action-behind-head-fork")
    if case.get("stop") is not None:
        labels.append("competitor-stopped-in-same-step")
    if any(len([1 for o in [flows[i]["action"] for i in m]]) != len({flows[i]["action"] for i in m}) for m in groups.values()):
        labels.append("equal-actions")
    view = {"flows": desc, "started": {f"{k[0]}:{k[1]}": v for k, v in starts.items()}, "status": {f"c{i}": s for i, s in observed.items()}}
    return ok(nt=nt, labels=labels, view=view)
