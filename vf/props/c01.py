"""C01 - input rails gate every user message before anything else sees it.

Domain : configuration (Colang 1.0 / 2.x, 1-4 input rails drawn in order from the pool check / rewrite / both /
         shipped `self check input`, 0-2 output rails, 0-1 retrieval rail, dialog rails on/off,
         enable_rails_exceptions on/off, v1 passthrough mode on/off, v2: rails in config.yml or hand-written
         `flow input rails $input_text`; later turns may repeat an earlier user text verbatim)
         x conversation of 1-4 turns (hostile user texts around a per-turn marker, a dialog route and a verdict per
         (rail, turn)) x API (generate / generate_async)
         x exact variable references: user texts (and texts produced by rewriting rails) that are exactly `$name`
         with `name` a context variable defined at that point - no marker: the literal text is its own marker
         x (Colang 1.0) generation options per call: earlier calls with the input rails switched off / other options,
         later calls that leave them on.
         x (enable_rails_exceptions) the event type of the rail exception of every generated check rail: InputRailException,
         names of shipped rails (ContentSafetyCheckInputException, LlamaGuardInputRailException), custom `...Exception` names
         x (Colang 2.x) one or two more flows, in interaction loops of their own, that wait for the user utterance next to
         the main-loop dialog flow (any utterance / one text; then LLM call, generated value, dialog action or fixed message);
         optionally the main-loop flow is the one that waits for one text only.
         x (Colang 2.x) the waiting form of every flow that hears the user: nothing (`user said something`), a literal
         (`user said "text"`) or a PATTERN (`user said (regex("..."))` / `$p = regex("...")` + `user said $p`; prefix
         case-insensitive / whole text anchored / any text with the marker(s) of its turn(s)); optionally NO flow waits for
         just anything and the turns are dealt out to the flows.
         x (Colang 2.x) one call of the conversation hands over TWO different user messages (generate(messages=[a, b]) or two
         UtteranceUserActionFinished events in one process_events call of the state API): one event-processing cycle.
         x concurrent leg: 2-3 conversations served at the same time by ONE LLMRails instance (asyncio tasks on a virtual-time
         loop, start offsets, a latency per rail invocation and per LLM call: the rail actions really wait).
         x (Colang 1.0) what the action of a generated check / block-or-rewrite rail returns for 'not allowed': False, None, 0 or ""
         (rails of one kind share ONE verdict variable, as the shipped rails do: `$allowed` / `$vf_checked`).
         x (Colang 1.0) OTHER conversations served by the same LLMRails instance between two turns of the conversation: 0 / 1-3 /
         70-200 generate calls (one turn each, texts of their own).
         x (Colang 1.0) the rewrite KIND: a new marker text / an exact `$name` / a case or whitespace NORMALISATION of the text the
         rail was given (upper, lower, squeeze runs of spaces, trim): original and product are told apart by exact spelling only.
Oracle : reference model of the input chain (vf.pipeline.model_input) checked on three observation channels:
         (a) trace of rail-action invocations (order, text seen), (b) prompt log of the scripted LLM,
         (c) the value returned by generate.
Not asserted (DESIGN 4/C01 S): what output rails do with the refusal; retrieval rails running while the refusal is
         generated; Colang 2.x rewriting (v2 rails are check-only); the content of the reply of an un-blocked turn.
"""
import asyncio
import json
import re

from hypothesis import strategies as st

from vf import fakes, pipeline, vclock
from vf.core import Violation, ok
from vf.fakes import GENERATION_TASKS, block_message, refusal_text

PID = "C01"
BS = chr(92)  # backslash
LEVEL = "exploration"
CASE_TIMEOUT = 60
WALL = {"quick": 170, "thorough": 1500}
RULE = (
    "case = configuration (sequential leg, 5 cases in 6: v1 7 in 9 / v2 2 in 9; 1-4 ordered input rails from {check, rewrite(v1), block-or-rewrite(v1), shipped "
    "self check input}; 0-2 output rails; retrieval rail 0/1 (v1); dialog rails on/off; enable_rails_exceptions on/off; v2 rails "
    "declared in config.yml or hand-written `flow input rails $input_text`) x 1-4 turns, each with a user text = hostile "
    "characters/intents around a unique marker, a dialog route (predefined / LLM / mixed / LLM-chosen next step / custom action) "
    "and a verdict accept|reject|rewrite per (rail, turn); a third of the later turns re-send, character by character, the text of "
    "an earlier turn (same marker); a third of the v1 turns from the third on replace the previous turn (the history is re-sent without the last exchange: edit / regenerate); a quarter of the v1 configurations run in passthrough mode (with and without dialog rails; "
    "without them the LLM input is the chat message list, which the scripted LLM records); run through LLMRails.generate or generate_async with a scripted LLM. "
    "A third of the conversations carry exact variable references: half of their turns send a user text that is exactly `$name` (no marker; "
    "name = a context variable defined at that point: last_bot_message, bot_message, user_message, last_user_message, relevant_chunks, the rails' "
    "result variables, runtime variables; a few undefined names) and (v1) half of the rewriting verdicts produce such a text; the literal is what "
    "every rail, every later stage and every prompt must show. Three in seven v1 conversations pass generation options per call (plans: the same options "
    "in every call / drawn per call / one call with the input rails switched off - options.rails as dict or as list without 'input' - and every other "
    "call with options that leave them on or no options): a call that does not switch the input rails off is judged like any other, a call that does is not judged. "
    "Two thirds of the configurations with enable_rails_exceptions draw the event type of the rail exception per generated check / block-or-rewrite rail "
    "(InputRailException, ContentSafetyCheckInputException, LlamaGuardInputRailException, three custom names ending in `Exception`; the shipped rail keeps its own): "
    "the reply to a rejected message must be the rail-exception message of the rejecting rail under ITS event type (Colang 1.0: role `exception`). "
    "Two thirds of the Colang 2.x configurations without `llm continuation` add one or two flows in interaction loops of their own (two loop names, so two listeners "
    "may share a loop) that wait for the user utterance as well - `user said something` (2/3) or `user said \"<the plain text of one turn>\"` - and then call the LLM "
    "(PassthroughLLMAction), generate a value (`...`), run a dialog action or say a fixed text; in a third of those with an any-utterance listener the main-loop dialog flow "
    "waits for one text only. For a turn heard by k >= 2 flows the rail trace must be a merge of complete copies of the reference chain (each waiting flow hands the message to the rails), "
    "the first dialog/generation step of any flow comes after one complete accepting pass, and on a reject no flow makes an LLM call / runs a dialog action and the reply holds nothing but the refusal (at most once per pass) / the rail exception. "
    "The WAITING FORM is a dimension of these Colang 2.x conversations: a flow (listener or main-loop flow) that does not wait for just anything (1 listener in 2, the main-loop flow in a third of the configurations with an any-utterance listener) waits for the literal text of one turn (1 in 5) "
    "or with a PATTERN that the text of one turn matches (4 in 5; documented semantics: re.search) - `(?i)^<first two words, lower case>.*` / `^<whole text>$` (the turn then sends marker + plain words) or `(?s).*<marker>.*` (2 in 5: the hostile text of the turn stays) - "
    "spelled `user said (regex(\"...\"))` or `$vf_pat = regex(\"...\")` + `user said $vf_pat` (`user said regex(...)` without parentheses never matches on the unchanged tree: not generated); in a third of the listener configurations without a two-message call NO flow waits for just anything: "
    "the turns are dealt out to the flows (main-loop flow, listeners), each waits for its share (one turn: any specific form; several: `(?s).*(UM0Z|UM2Z).*`; none: a pattern nothing matches), so every message is heard by exactly ONE flow, through a pattern or a literal (no exact `$name` texts there: nobody would hear them); "
    "a third of the flows that take the expected text of a two-message call wait for it with a pattern. Who hears a text is computed from the forms (labels listener-awaits= / main-loop-flow-awaits= any-utterance|one-text|regex-paren|regex-var, turn-heard-through-regex-*, turn-heard-through-a-pattern:accepted|rejected, no-flow-awaits-any-utterance); "
    "the oracle is the unchanged reference chain, and for every Colang 2.x turn each rail action must be given the user message ITSELF: a str equal to the text the caller sent (rails are check-only there), also in the global $user_message it runs under. "
    "Two in five of the Colang 2.x conversations hand over TWO different user messages in the call of one drawn turn - the turn text and an expected text `UB{t}Z <words>` that the first listener "
    "(or the main-loop flow) waits for, expected text second (3 in 4) or first - through generate / generate_async(messages=[a, b]) or (2 in 4) the state API (all calls of the conversation through "
    "LLMRails.process_events_async, both UtteranceUserActionFinished events in ONE call, the harness answering StartUtteranceBotAction): one event-processing cycle. Such configurations use hand-written "
    "`flow input rails $input_text` with check rails that are given the text as a parameter, and flows that pass on the transcript they matched (`user said ... as $said`, `$said.transcript`, as the library's passthrough.co does). "
    "Each message has verdicts of its own and is judged on its own: the rail invocations on ITS text are a merge of complete copies of ITS chain (>= 1 when a flow must have heard it), no rail is given any other text, "
    "an LLM prompt that shows its text comes after a complete accepting pass of its chain - never if it was rejected -, no dialog/generation step at all if every message was rejected, and its refusal / rail exception is part of the reply. "
    "One case in six is the CONCURRENT leg: one LLMRails instance (Colang 1.0 4 in 5, 2.x 1 in 5; rails, dialog, exceptions + event types, retrieval, passthrough, v2 style drawn as above) serves 2-3 conversations of 1-2 turns "
    "(a quarter of the second turns re-send the first text) at the same time: one asyncio task per conversation on a virtual-time loop (vf.vclock), started at a drawn offset (0-40 ms), its turns one after the other through generate_async; "
    "every rail action really waits (await asyncio.sleep on the virtual clock, latency drawn per invocation from 0-50 ms: a cycled list of 1-5) and so does every LLM call (0-30 ms, list of 1-3), so that while conversation A waits inside a "
    "rail action conversation B starts and runs its rails. The conversations carry disjoint turn numbers, hence disjoint markers; each is judged on its own with the unchanged reference model (every rail sees ITS text, its verdicts apply to it only: "
    "a rejected one gets its refusal and no LLM call, an accepted one its prompts with its own text). LLM parameters are not looked at (C15). "
    "Two thirds of the Colang 1.0 configurations (both legs) draw, per generated check / block-or-rewrite rail, WHAT THE RAIL ACTION RETURNS FOR 'not allowed': False (1 in 6), None (1 in 2), 0 (1 in 6) or the empty string (1 in 6); "
    "the generated rail flows have the shape of the shipped ones (`$allowed = execute ...` / `if not $allowed` ... `stop`; all check rails and the shipped rail keep their verdict in ONE variable `$allowed`, all block-or-rewrite rails in `$vf_checked`), "
    "so a rail whose action returns no truthy value rejects: the reference model is unchanged (labels not-allowed-results=, rejected-with-result=, falsy-non-False-reject-after-a-rail-with-the-same-verdict-variable-accepted-in-this-turn / -after-an-earlier-turn-left-the-verdict-variable-truthy). "
    "One Colang 1.0 conversation in three has OTHER CONVERSATIONS served by the same LLMRails instance between two of its turns: before one drawn turn >= 2 the harness makes 1-3 (half of them) or 70 / 80 / 100 / 200 (half) generate calls "
    "through the same API, each an unrelated conversation of one turn with a text of its own (`OC{t}N{n}Z hello there`, every rail accepts, predefined-answer route) and a session of its own; a third of the conversations of >= 3 turns get 1-3 more before another turn. "
    "A conversation with 70+ of them is given a rewriting rail, general mode 3 in 4, and (2 in 3) a turn before them whose text that rail rewrites. The oracle is unchanged: the prompts of every later turn must not show the original of a text an input rail rewrote in an earlier turn "
    "(labels other-conversations-on-the-instance-before-this-turn=0|1-3|70+, few-/many-other-conversations-between-a-rewritten-turn-and-this-turn). "
    "One Colang 1.0 conversation in four (sequential leg; no exact `$name` texts there) uses the rewrite KIND 'CASE / WHITESPACE NORMALISATION OF THE USER'S OWN TEXT': the configuration gets a rewriting rail (rewrite / block-or-rewrite) and no shipped rail, "
    "general mode - no dialog rails, not passthrough - 2 in 3, the drawn mode (dialog / passthrough) otherwise as control; 2 in 3 of its turns send a tame text (mixed-case words, runs of 1-3 spaces around the marker, 0 / 2-3 spaces at either end) and give every rewriting rail an operation "
    "(upper 1 in 6, lower 2, squeeze = runs of white space to one space and none at the ends 2, trim 1), 2 in 3 of those force one rewriting rail to rewrite with no rejecting rail before it. A rail that rewrites such a turn hands back the text IT WAS GIVEN with the operation applied - no new marker: "
    "product and original differ only by letter case or white space, so the reference model carries the EXACT spellings (user text for UM{t}Z, the product of rail i for RWI{i}U{t}Z) and every clause of the unchanged oracle compares exact spellings: each rail is given exactly the text the chain says, "
    "no prompt of the turn shows the original spelling once it differs from the final one (check 4), no prompt of a later turn does (check 5), the last message of a passthrough message list IS the final text; presence of the final text in a prompt is asserted up to outer white space "
    "(labels rewrite-kind=normalisation-of-the-users-own-text, normalisation=upper|lower|squeeze|trim, normalised-text-differs-by=case|whitespace|case+whitespace|outer-whitespace-only|nothing, normalised-text-reached-a-prompt, prompts-of-a-later-turn-after-a-rail-normalised-the-text-of-turn). "
    "Enumerated families: (first, so that a cut wall budget keeps them) the normalisation kind: operation (lower / upper / squeeze / trim) x general / dialog / passthrough+dialog+exceptions / general+output rail+retrieval: turn 1 normalised by the first rewriting rail, turn 2 by the other one with another operation, turn 3 accepted as sent, turn 4 the text of turn 1 again normalised by both, turn 5 rejected; other conversations between two turns: 70 / 0 / 1 / 200 of them x general / dialog / passthrough+dialog x which rail rewrites (turn 1 rewritten, the others, turn 2 accepted, one more, turn 3 rewritten by the other rail, turn 4 rejected); "
    "'not allowed' result None / 0 / \"\" / False x six rail chains (check+check, check alone, both+both, shipped+check, check+both+check, rewrite+check+shipped) x refusal / rail exception: accepted, rejected by the last rail, by the first, accepted, same text rejected again; the waiting form: pattern shape x rail style x refusal/exception x who waits with the pattern (a listener next to a main flow that waits for one literal text: every message heard by one flow / the main flow next to an any-utterance listener / a listener next to the main flow that takes anything), both spellings, "
    "the matching text accepted, sent again and rejected by the last rail, another turn rejected by the first rail; every reference name x four v1 and three v2 configurations; input-off spelling x later options x position of the input-off call; "
    "every exception event type x two v1 and two v2 configurations with each rail rejecting once; listener action x awaited text x rail style x refusal/exception (one or two listeners, main flow waiting for anything / one text); "
    "concurrent leg: five configurations (v1 general / dialog+exceptions+shipped rail / raw passthrough, v2 hand / config) x five schedules (who waits where while the other one runs its rails) x which conversation is rejected by which rail, 2-3 conversations; "
    "two messages in one call: listener action x six verdict pairs x who waits for what (main flow anything + listener the expected text / main flow the expected text + listener anything / expected text first and a listener per text) x refusal/exception x generate sync/async/state API, with and without an output rail. "
    "Non-trivial = at least 2 input rails and (a reject after an accepting/rewriting rail, or a rewrite followed by a later "
    "rail) in some turn, or a reject in a turn >= 2, or an exact `$name` user text in a turn >= 2, or a judged call after a call that switched the input rails off, "
    "or a turn >= 2 that follows other conversations on the instance and a turn whose text was rewritten, "
    "or a turn whose text a normalising rail changed (final spelling != original) that made an LLM call, or a later turn with an LLM call after such a turn, "
    "or a turn heard by flows in >= 2 interaction loops with >= 2 rails or a reject, or a turn heard by a flow that waits with a pattern with >= 2 rails or a reject, or a call with two user messages and >= 2 rails or a reject; "
    "concurrent leg: a rail invocation or LLM call of ANOTHER conversation ran between two consecutive steps (rail, rail) or (last rail, first generation call) of a turn's input chain; distinct by the whole case."
)
ASSUMPTIONS = [
    "rail actions are fakes registered with register_action (system actions, like the shipped self-check actions); the shipped `self check input` rail is driven by the scripted LLM's yes/no",
    "Colang 2.x input rails are generated in the library's check shape only: rewriting is asserted for Colang 1.0 only, as the statement says",
    "the caller keeps the conversation the way the server does: previous user messages and returned replies are passed back as `messages` (v1) / the returned `state` (v2); a turn marked redo re-sends that list without the last exchange",
    "the LLM text generated for un-blocked turns and what output rails do with refusals are not asserted here (C02)",
    "raw passthrough mode (passthrough without dialog rails) hands the caller's own message list to the LLM: there only the message of the current turn (last list element) is asserted to be the rewritten one, earlier turns are the caller's business",
    "a call made with the input rails switched off by its generation options (options.rails.input false / a rails list without 'input') is not judged at all here (C16 owns what such a call does); its user text counts as sent un-rewritten",
    "the library can put the rewritten text of EARLIER turns into later prompts only while it recognises the conversation (same options + same messages); when the options differ between the calls of a conversation the history is rebuilt from the caller's own messages, so what earlier turns look like in later prompts is asserted only while all calls so far used identical options",
    "a user text / rewrite product that is exactly `$name` is its own marker: presence checks use the literal, and the must-not-appear checks are skipped for a literal that is also a substring of another text of the same conversation or of a predefined user/bot message of the loaded configuration (the library shows those to the LLM as examples; the shipped `bot response untrustworthy` text starts with `$bot_message`)",
    "rail-exception event types are generated with names that end in `Exception` only (the shipped rails' convention and what the documentation shows); which other events a reply may carry is not asserted",
    "Colang 2.x flows in several interaction loops that wait for the same utterance each hand it to the input rails (the library's `user said` does): how OFTEN the chain runs for one message is not asserted (>= 1 complete pass, every pass complete and in order), nor in which order the flows' replies appear; a turn nobody in the main loop waits for is judged like any other turn",
    "a flow that waits with a pattern hears the texts Python's re.search finds the pattern in (docs/colang_2/language_reference/event-generation-and-matching.rst); the generated patterns are anchored or wrapped in `.*` so that match / search / fullmatch agree on every generated text, carry no quotes, backslashes or braces, and name the marker(s) of the turn(s) they are meant for, so a pattern matches exactly one of the two messages of a two-message call",
    "Colang 2.x rails are check-only (see above), so the text a rail action is given must EQUAL the user message (type str), and so must the global $user_message it runs under, whatever the flow that heard the message waits with; for the shipped `self check input` (driven through its prompt) only containment is asserted",
    "every generated message is heard by at least one flow (some flow waits for any utterance, or the turns are dealt out to the waiting flows): what the library does with a message NO flow waits for is not C01's subject",
    "listeners are not combined with the library's `llm continuation` (its handling of utterances no main-loop flow waits for is C11's subject)",
    "several generate_async calls may be in flight on one LLMRails instance (the server works that way); the conversations served at the same time carry different texts; the fake rail actions wait on the event loop's (virtual) clock after they recorded what they were given; which LLM parameters overlapping calls see is C15's subject (two open findings) and is not looked at here",
    "two user messages in one call (Colang 2.x): a flow that waits for any utterance takes the FIRST message of the call; for the second one only flows that wait for exactly its text are required to hear it (a message no flow hears gets no rails and reaches nothing: counted, label second-heard-by-no-flow). The reply of such a call is the list of all bot utterances: only the presence of the refusal / rail exception of a rejected message is asserted, and that nothing else is in it when every message was rejected",
    "two user messages in one call are generated with rails that are given the text as a parameter (hand-written `flow input rails $input_text`, check rails) and with flows that pass on the transcript they matched: the global `$user_message` holds the NEWEST utterance from the moment it arrives, before its rails have run - rails that read the global (config.yml style, the shipped `self check input`) and flows that read it after an earlier message passed get the newer text on the unchanged tree (reported to the coordinator as an observation; not generated, so not judged)",
    "a generated rail flow tests its verdict variable for truth (`if not $allowed`, the shipped rails' shape), so every falsy action result - False, None, 0, the empty string - is a rejection; a rail action that returns None is an action without a return statement on the 'not allowed' path",
    "one LLMRails instance serves many conversations (the server keeps one per configuration): the calls made between two turns of the conversation under test are sequential, carry other texts, no generation options, and are not judged themselves; the conversation under test passes its own history back unchanged, so the library still recognises it however many other conversations it served meanwhile (no documented limit on their number)",
    "a turn that needs more than 100 internal events makes the Colang 1.0 runtime raise `Too many events.` (safety limit); such cases (many rails + long routes) are counted as skipped, not judged",
    "rewrite kind 'normalisation of the user's own text' (Colang 1.0): the texts are tame (letters, digits, hyphens, spaces), so that a prompt template has no reason to escape them and exact spellings can be compared; outer white space of the original is '' or 2-3 spaces, so that a template's own single space before the trimmed text never spells the untrimmed one; "
    "a rail whose operation leaves the text as it was counts as not having rewritten it; the shipped `self check input` rail is not combined with this kind (how its prompt spells the text is not asserted); whether a prompt keeps the outer white space of the FINAL text is not asserted",
    "two messages in one call (Colang 2.x): when an output rail of that turn does not accept, the refusal an input rail utters for a rejected message is itself judged by the output rails (and a parallel bot message meets the open finding C02-F23); what the reply then holds is not asserted by C01 (label two-utterances:refusal-not-judged...), the rail-chain, order and no-LLM-call clauses still are",
]


def budget(tier):
    return 480 if tier == "quick" else 6600


# Exact variable references: names of context variables that are defined when the input rails of a turn have run
# (Colang 1.0: `create event UserMessage(text=$user_message)` in llm_flows.co; Colang 2.x: the globals and the
# parameters / locals of the rail flows), plus two names nothing defines.
V1_REF_NAMES = ["last_bot_message", "bot_message", "user_message", "last_user_message", "relevant_chunks", "allowed", "vf_checked", "triggered_input_rail", "input_flows", "i", "config", "event", "generation_options"]
V2_REF_NAMES = ["bot_message", "user_message", "last_bot_message", "last_user_message", "text", "input_text", "allowed", "system", "event"]
UNDEF_REF_NAMES = ["nothing", "5"]

# Generation options of one call (Colang 1.0).  ON: the input rails stay on; OFF: the call switches them off.
OPTS_ON = [
    None,
    {"log": {"activated_rails": True}},
    {"rails": {"input": True}},
    {"rails": ["input", "dialog", "retrieval", "output"]},
    {"rails": ["input", "dialog"]},
    {"rails": {"output": False}},
]
OPTS_OFF = [
    {"rails": {"input": False}},
    {"rails": ["dialog", "output"]},
    {"rails": ["dialog", "retrieval", "output"]},
    {"rails": {"input": False, "output": False}},
    {"rails": ["dialog"]},
]


# Event type of the rail exception a generated check rail raises when it rejects (enable_rails_exceptions).  The shipped
# rails use names of their own (`self check input`: InputRailException, `content safety check input`:
# ContentSafetyCheckInputException, `llama guard check input`: LlamaGuardInputRailException ...), custom rails any name.
EXC_DEFAULT = "InputRailException"
EXC_TYPES = [EXC_DEFAULT, "VfCheckInputException", "ContentSafetyCheckInputException", "VfCustomException", "LlamaGuardInputRailException", "VfPolicyViolationException"]

# Colang 2.x: extra flows, each in an interaction loop of its own, that wait for the user utterance next to the main-loop
# dialog flow `vf turn`.  "on": "any" (`user said something`) or {"text": literal} (`user said "<literal>"`);
# "do": what the flow does once `user said` has finished.
LOOPS = ["answers", "vfside"]
LISTEN_DO = ["llm", "gen", "act", "say"]
LISTEN_TEXTS = ["hi there", "what can you do", "tell me more"]
NLD_TAG = "VF-NLD"


# The waiting form of a flow ("on" of a listener / cfg["main_on"]): "any" (`user said something`), {"text": literal}
# (`user said "<literal>"`) or {"regex": pattern, "form": f} - the flow waits with a PATTERN (docs, event-generation-and-matching:
# a regex() parameter value matches like Python's re.search): form "paren" `user said (regex("<pattern>"))`,
# form "var" `$vf_pat = regex("<pattern>")` + `user said $vf_pat`.  (`user said regex("...")` without the parentheses is
# not a spelling the unchanged tree accepts - such a flow never hears anything - and is not generated.)
REGEX_FORMS = ["paren", "var"]
# how the pattern is made of the text of the turn it is meant for: prefix (case-insensitive, text = marker + plain words),
# the whole text anchored (plain words), any text that contains the marker of the turn (the hostile text of the turn stays)
REGEX_SHAPES = ["prefix-ci", "exact", "contains"]


def mk_pattern(shape, t, text=None, marker=None):
    """Pattern (no quotes, no backslashes, no braces: it is pasted into a Colang string literal) for the text of turn t.
    match / search / fullmatch agree on every text the generator produces, so the reference does not depend on which of
    them the implementation uses (the documentation says search)."""
    marker = marker or fakes.mk_user(t)
    if shape == "contains":
        return f"(?s).*{marker}.*"
    if shape == "prefix-ci":
        return "(?i)^" + " ".join(text.lower().split(" ")[:2]) + ".*"
    if shape == "exact":
        return f"^{text}$"
    raise ValueError(shape)


def hears(on, text):
    """Does a flow with this waiting form hear the user text?"""
    if on == "any":
        return True
    if "regex" in on:
        return re.search(on["regex"], text) is not None
    return on["text"] == text


def on_label(on):
    return "any-utterance" if on == "any" else "regex-" + on.get("form", "paren") if "regex" in on else "one-text"


def _wait_lines(on, suffix=""):
    """The statement(s) a flow waits for the user with."""
    if on == "any":
        return [f"  user said something{suffix}"]
    if "regex" in on:
        if '"' in on["regex"] or BS in on["regex"]:
            raise ValueError(on)
        if on.get("form", "paren") == "var":
            return [f'  $vf_pat = regex("{on["regex"]}")', f"  user said $vf_pat{suffix}"]
        return [f'  user said (regex("{on["regex"]}")){suffix}']
    return [f'  user said "{on["text"]}"{suffix}']


def mk_listen(j):
    return f"LISTEN{j}Z"


def mk_burst(t):
    """Marker of the expected text handed over next to the turn text in the call of turn t (that one carries UM{t}Z)."""
    return f"UB{t}Z"


T0_STEP = 3  # concurrent leg: conversation i uses the turn numbers 3i, 3i+1 (its markers are UM{3i}Z, RWI{r}U{3i}Z ...)


def _listener_flow(j, spec):
    lines = [f'@loop("{spec["loop"]}")', f"flow vf listener l{j}", "  global $user_message"]
    lines += _wait_lines(spec["on"])
    if spec["do"] == "llm":
        lines += ["  $text = await PassthroughLLMAction(user_message=$user_message)", "  bot say $text"]
    elif spec["do"] == "gen":
        lines += [f'  $text = ..."{NLD_TAG} a short and helpful answer to the last user message"', "  bot say $text"]
    elif spec["do"] == "act":
        lines += ["  await VfDialogAction()", f'  bot say "{mk_listen(j)} noted"']
    elif spec["do"] == "say":
        lines += [f'  bot say "{mk_listen(j)} noted"']
    else:
        raise ValueError(spec["do"])
    return "\n".join(lines) + "\n"


def _ext_build(cfg, co, y):
    """Post-processing of the configuration vf.pipeline generates (opt-in through cfg["ext"] == "c01"):
    cfg["in_exc"][i] = event type of the rail exception of generated input rail i (None: InputRailException);
    cfg["listeners"] = [{"loop", "on", "do"}, ...] (Colang 2.x, dialog False/True); cfg["main_on"] = {"text": literal}."""
    word = "create event" if cfg["v"] == 1 else "send"
    for i, typ in enumerate(cfg.get("in_exc") or []):
        if typ is None or typ == EXC_DEFAULT or cfg["in"][i] == "rewrite":
            # (a pure rewriting rail never rejects: it raises no rail exception whose type could be changed)
            continue
        old = f'{word} {EXC_DEFAULT}(message="{block_message("in", i, cfg["in"][i])}")'
        if co.count(old) != 1:
            raise RuntimeError(f"c01 extension: rail in{i} of {cfg} has no single {old!r}")
        co = co.replace(old, f'{word} {typ}(message="{block_message("in", i, cfg["in"][i])}")')
    listeners = cfg.get("listeners") or []
    if listeners:
        head = "flow main\n  activate vf turn\n"
        if cfg["v"] != 2 or co.count(head) != 1:
            raise RuntimeError("c01 extension: listeners need the generated Colang 2.x `flow main`")
        co = co.replace(head, head + "".join(f"  activate vf listener l{j}\n" for j in range(len(listeners))))
        co += "\n" + "\n".join(_listener_flow(j, spec) for j, spec in enumerate(listeners))
    if cfg.get("main_on"):
        # the main-loop dialog flow waits for one text / with a pattern; the listeners (other loops) hear the other messages
        head = "flow vf turn\n  global $user_message\n  user said something\n"
        if co.count(head) != 1 or not listeners:
            raise RuntimeError("c01 extension: main_on needs the generated `flow vf turn` and a listener (the generator sees to it that some flow hears every message)")
        co = co.replace(head, "flow vf turn\n  global $user_message\n" + "\n".join(_wait_lines(cfg["main_on"])) + "\n")
    if cfg.get("own"):
        # every flow that waits for an utterance passes on the transcript IT matched (the library's passthrough.co does the
        # same: `$user_message = $event.final_transcript`), not the global `$user_message`, which holds the newest utterance
        if cfg["v"] != 2 or cfg.get("dialog") == "llmc":
            raise RuntimeError("c01 extension: own-transcript flows are generated for the Colang 2.x `flow vf turn` / listeners")
        co, n = re.subn(r'(?m)^  (user said (?:something|"[^"\n]*"|\(regex\("[^"\n]*"\)\)|\$vf_pat))$', r"  \1 as $said", co)
        old = "flow vf llm reply\n  global $user_message\n  $text = await PassthroughLLMAction(user_message=$user_message)\n"
        if n != 1 + len(listeners) or co.count(old) != 1:
            raise RuntimeError("c01 extension: own-transcript flows need the generated `flow vf turn` / `flow vf llm reply`")
        co = co.replace(old, "flow vf llm reply $own\n  $text = await PassthroughLLMAction(user_message=$own)\n")
        co = re.sub(r"(?m)^(\s+)vf llm reply$", r"\1vf llm reply $said.transcript", co)
        co = co.replace("PassthroughLLMAction(user_message=$user_message)", "PassthroughLLMAction(user_message=$said.transcript)")
    return co, y


_G = {"tick": 0}  # order of the stamped observation points of ALL conversations on one instance (concurrent leg)


def _tick():
    _G["tick"] += 1
    return _G["tick"]


def _slow_rail_action(cat, i, name):
    """The standard fake rail action (vf.fakes.make_rail_action: records what it is given, applies the verdict of the
    conversation it runs for) that then really WAITS - `await asyncio.sleep(latency)` on the (virtual) clock - before it
    hands its result back: other requests served by the same LLMRails instance run meanwhile.  The latency of every
    invocation comes from the session (`rail_latency()`: drawn per invocation in the case)."""
    inner = fakes.make_rail_action(cat, i, name)

    async def rail_action(text=None, context=None):
        session, _turn = fakes.current()
        res = await inner(text=text, context=context)  # (no suspension point inside: the entry just appended is this call's)
        entry = session.trace[-1]
        entry["g"], entry["vt"] = _tick(), asyncio.get_running_loop().time()
        lat = session.rail_latency() if hasattr(session, "rail_latency") else 0
        if lat:
            await asyncio.sleep(lat)
        return res

    rail_action.__name__ = name
    return fakes._system(rail_action, name)


# Colang 1.0: what the action of a generated input rail hands back for "not allowed".  The generated rail flows are of the
# shape the shipped rails have (`$allowed = execute ...` / `if not $allowed` ... `stop`): a rail whose action does not return
# a truthy value rejects.  "false" is the standard fake (vf.fakes.make_rail_action); the others return another falsy value.
REJECT_VALUES = {"false": False, "none": None, "zero": 0, "empty": ""}
REJECT_HOW = ["false", "none", "none", "none", "zero", "empty"]


def _falsy_variant(fn, name, value):
    """The rail action `fn` (standard or waiting variant) with `value` in the place of False as its 'not allowed' result."""

    async def rail_action(text=None, context=None):
        res = await fn(text=text, context=context)
        return value if res is False else res

    rail_action.__name__ = name
    return fakes._system(rail_action, name)


def reject_how(cfg, i):
    how = cfg.get("in_rej") or []
    return (how[i] if i < len(how) else None) or "false"


def _ext_actions(cfg):
    """cfg["slow"]: the rail actions of the configuration are the waiting variants (registered under the same names);
    cfg["in_rej"][i]: what the action of generated input rail i returns for 'not allowed' (None / "false": False)."""
    out = []
    for cat in ("in", "out"):
        for i, kind in enumerate(cfg.get(cat, [])):
            how = reject_how(cfg, i) if cat == "in" else "false"
            if kind == "self" or not (cfg.get("slow") or how != "false"):
                continue
            name = pipeline.rail_action_name(cat, i, cfg["v"])
            fn = _slow_rail_action(cat, i, name) if cfg.get("slow") else fakes.make_rail_action(cat, i, name)
            out.append(_falsy_variant(fn, name, REJECT_VALUES[how]) if how != "false" else fn)
    return out


pipeline.register_extension("c01", build_config=_ext_build, actions=_ext_actions)


def waiting(cfg, spec):
    """Interaction loops of the flows whose `user said ...` matches the user text of this turn: the dialog flow `vf turn`
    (loop "main"; it waits for any utterance unless cfg["main_on"] names one text) and the listeners."""
    on = [("main", cfg.get("main_on") or "any")] + [(l["loop"], l["on"]) for l in cfg.get("listeners") or []]
    return [loop for loop, w in on if hears(w, spec["user"])]


def exc_type(cfg, i):
    types = cfg.get("in_exc") or []
    return (types[i] if i < len(types) else None) or EXC_DEFAULT


def ref_names(v):
    return (V1_REF_NAMES if v == 1 else V2_REF_NAMES) + UNDEF_REF_NAMES


def input_on(options):
    """Does a call with these generation options leave the input rails on?  (docs: generation-options.md)"""
    r = (options or {}).get("rails")
    if r is None:
        return True
    if isinstance(r, list):
        return "input" in r
    return r.get("input", True) is not False


LAT_RAIL = [0, 0.005, 0.01, 0.01, 0.02, 0.03, 0.05]  # seconds on the virtual clock a rail action waits before it answers
LAT_LLM = [0, 0.005, 0.01, 0.03]
STARTS = [0, 0, 0.004, 0.005, 0.01, 0.015, 0.02, 0.04]


@st.composite
def _conc_case(draw):
    """Concurrent leg: 2-3 conversations of 1-2 turns served at the same time by ONE instance (server-style use)."""
    v = draw(st.sampled_from([1, 1, 1, 1, 2]))
    n_in = draw(st.sampled_from([1, 2, 2, 3, 3, 4]))
    cfg = {"v": v, "in": draw(pipeline.st_rail_kinds(v, n_in, n_in, "in")), "out": draw(pipeline.st_rail_kinds(v, 0, 1, "out"))}
    cfg["dialog"] = draw(st.booleans())
    cfg["exc"] = draw(st.sampled_from([False, False, True]))
    if v == 1:
        cfg["ret"] = draw(st.sampled_from([0, 0, 1]))
        if draw(st.sampled_from([False, False, False, False, True])):
            cfg["passthrough"] = True
    else:
        cfg["style"] = draw(st.sampled_from(["config", "hand"]))
    if cfg["exc"] and draw(st.booleans()):
        types = [draw(st.sampled_from(EXC_TYPES)) if k in ("check", "both") else None for k in cfg["in"]]
        if any(x not in (None, EXC_DEFAULT) for x in types):
            cfg["in_exc"] = types
    if v == 1:
        _draw_reject_values(draw, cfg)
    cfg["ext"], cfg["slow"] = "c01", True
    routes = pipeline.routes_for(cfg)
    convs = []
    for i in range(draw(st.sampled_from([2, 2, 3]))):
        turns = []
        for j in range(draw(st.sampled_from([1, 1, 2]))):
            t = T0_STEP * i + j
            turn = {
                "user": draw(pipeline.st_user_text(t)),
                "route": draw(st.sampled_from(routes)),
                "in": [draw(pipeline.st_verdict(k)) for k in cfg["in"]],
                "out": [draw(pipeline.st_verdict(k, p_accept=8)) for k in cfg["out"]],
                "body": draw(pipeline.st_body()),
            }
            if j >= 1 and draw(st.sampled_from([False, False, False, True])):
                turn["user"], turn["umark"] = turns[0]["user"], T0_STEP * i  # the same text again
            turns.append(turn)
        lat = {"rail": draw(st.lists(st.sampled_from(LAT_RAIL), min_size=1, max_size=5)), "llm": draw(st.lists(st.sampled_from(LAT_LLM), min_size=1, max_size=3))}
        convs.append({"start": draw(st.sampled_from(STARTS)), "lat": lat, "turns": turns})
    return {"config": cfg, "conc": convs, "api": "async"}


def _draw_reject_values(draw, cfg):
    """dimension (Colang 1.0): what the action of each generated check / block-or-rewrite rail returns for 'not allowed' -
    False (1 configuration in 3 throughout; 1 in 6 per rail otherwise), None (1 in 2), 0, the empty string."""
    if draw(st.sampled_from([False, True, True])):
        how = [draw(st.sampled_from(REJECT_HOW)) if k in ("check", "both") else None for k in cfg["in"]]
        if any(x not in (None, "false") for x in how):
            cfg["in_rej"], cfg["ext"] = how, "c01"


@st.composite
def _case(draw):
    if draw(st.sampled_from([False] * 5 + [True])):
        return draw(_conc_case())
    v = draw(st.sampled_from([1] * 7 + [2] * 2))
    n_in = draw(st.sampled_from([1, 2, 2, 3, 3, 4]))
    cfg = {"v": v, "in": draw(pipeline.st_rail_kinds(v, n_in, n_in, "in")), "out": draw(pipeline.st_rail_kinds(v, 0, 2, "out"))}
    cfg["dialog"] = draw(st.booleans()) if v == 1 else draw(st.sampled_from([False, True, "llmc"]))
    # dimension (Colang 1.0): OTHER generate calls on the same instance between two turns of the conversation (0 / 1-3 / 70-200);
    # a conversation with many of them gets a rewriting rail (that is what later prompts can give away) and, 3 in 4, general mode
    gap = draw(st.sampled_from([0] * 16 + GAP_SMALL + GAP_MANY)) if v == 1 else 0  # 4 in 6 none, 1 in 6 a few, 1 in 6 many
    if gap >= 70:
        if not any(k in ("rewrite", "both") for k in cfg["in"]):
            cfg["in"][draw(st.integers(0, n_in - 1))] = draw(st.sampled_from(["rewrite", "both"]))
        if draw(st.sampled_from([True, True, True, False])):
            cfg["dialog"] = False
    if v == 1:
        _draw_reject_values(draw, cfg)
    cfg["exc"] = draw(st.sampled_from([False, False, True]))
    if v == 1:
        cfg["ret"] = draw(st.sampled_from([0, 0, 1]))
        if draw(st.sampled_from([False, False, False, True])):
            cfg["passthrough"] = True
    else:
        cfg["style"] = draw(st.sampled_from(["config", "hand"]))
    # dimension (Colang 2.x): one call of the conversation hands over TWO different user messages (one event-processing cycle);
    # the second listener such a call needs, the rails that are given their text as a parameter and flows that pass on the
    # transcript they matched come with it
    burst = v == 2 and draw(st.sampled_from([False, False, False, True, True]))
    if burst:
        cfg["style"], cfg["own"] = "hand", True
        cfg["in"] = ["check" if k == "self" else k for k in cfg["in"]]
        if cfg["dialog"] == "llmc":
            cfg["dialog"] = draw(st.booleans())
    if cfg["exc"] and draw(st.sampled_from([False, True, True])):
        # dimension: the event type of the rail exception, per generated check rail (the shipped rail keeps its own)
        types = [draw(st.sampled_from(EXC_TYPES)) if k in ("check", "both") else None for k in cfg["in"]]
        if any(x not in (None, EXC_DEFAULT) for x in types):
            cfg["in_exc"] = types
            cfg["ext"] = "c01"
    # dimension (Colang 1.0): the rewrite KIND "case / whitespace normalisation of the user's own text" (1 conversation in 4):
    # a rewriting rail is there, no shipped rail (its prompt is not asserted to spell the text exactly), general mode 2 in 3
    norm_conv = v == 1 and draw(st.sampled_from([False, False, False, True]))
    if norm_conv:
        cfg["in"] = ["check" if k == "self" else k for k in cfg["in"]]
        if not any(k in ("rewrite", "both") for k in cfg["in"]):
            cfg["in"][draw(st.integers(0, n_in - 1))] = draw(st.sampled_from(["rewrite", "both"]))
        if draw(st.sampled_from([True, True, False])):
            cfg["dialog"] = False
            cfg.pop("passthrough", None)
    routes = pipeline.routes_for(cfg)
    n_turns = draw(st.sampled_from([1, 2, 2, 3, 3, 4]))
    if norm_conv:
        n_turns = max(n_turns, draw(st.sampled_from([1, 2, 2])))
    # dimension (Colang 2.x): one or two more flows, in interaction loops of their own, wait for the user utterance as well
    said = {}  # turn -> the literal text a listener waits for
    burst_t = draw(st.integers(0, n_turns - 1)) if burst else None
    burst_text = f"{mk_burst(burst_t)} {draw(st.sampled_from(LISTEN_TEXTS))}" if burst else None
    if v == 2 and cfg["dialog"] != "llmc" and (burst or draw(st.sampled_from([False, True, True]))):
        listeners = []

        def specific(s_t=None):
            # dimension: the waiting form of a flow that does not wait for just anything - the literal text of one turn
            # (1 in 5) or a PATTERN that the text of one turn matches (4 in 5: prefix, case-insensitive / whole text
            # anchored / any text with the marker of that turn - then the hostile text of the turn stays), in either spelling
            s_t = draw(st.integers(0, n_turns - 1)) if s_t is None else s_t
            shape = draw(st.sampled_from(["literal"] + REGEX_SHAPES + REGEX_SHAPES[-1:]))
            if shape != "contains":
                said.setdefault(s_t, f"{fakes.mk_user(s_t)} {draw(st.sampled_from(LISTEN_TEXTS))}")
            if shape == "literal":
                return {"text": said[s_t]}
            return {"regex": mk_pattern(shape, s_t, said.get(s_t)), "form": draw(st.sampled_from(REGEX_FORMS))}

        for j in range(draw(st.sampled_from([1, 1, 2]))):
            on = "any"
            if burst and j == 0:
                on = {"text": burst_text}  # the flow that is free to take the second message of the call
                if draw(st.sampled_from([False, False, True])):
                    # ... waiting for it with a pattern (that only the expected text matches: its marker)
                    on = {"regex": mk_pattern(draw(st.sampled_from(REGEX_SHAPES)), burst_t, burst_text, marker=mk_burst(burst_t)), "form": draw(st.sampled_from(REGEX_FORMS))}
            elif draw(st.sampled_from([False, False, True, True])):
                on = specific()
            listeners.append({"loop": draw(st.sampled_from(LOOPS)) if j else LOOPS[0], "on": on, "do": draw(st.sampled_from(LISTEN_DO))})
        cfg["listeners"] = listeners
        cfg["ext"] = "c01"
        if any(l["on"] == "any" for l in listeners) and draw(st.sampled_from([False, False, True])):
            # ... and it is the main-loop flow that waits for one text only / with a pattern
            cfg["main_on"] = specific()
    shared = False
    if cfg.get("listeners") and not burst and draw(st.sampled_from([False, False, True])):
        # ... or NO flow waits for just anything: the turns are dealt out to the flows (main-loop flow, listeners), each flow
        # waits for the turns of its share - one turn: any specific form; several: a pattern with their markers as
        # alternatives; none: a pattern no text matches -, so every message is heard by exactly one flow
        shared = True
        owner = [draw(st.integers(0, len(cfg["listeners"]))) for _ in range(n_turns)]
        for f in range(1 + len(cfg["listeners"])):
            ts = [t for t in range(n_turns) if owner[t] == f]
            if len(ts) == 1:
                on = specific(ts[0])
            else:
                on = {"regex": mk_pattern("contains", 0, marker="(" + "|".join(fakes.mk_user(t) for t in ts) + ")" if ts else fakes.mk_user(9)), "form": draw(st.sampled_from(REGEX_FORMS))}
            if f == 0:
                cfg["main_on"] = on
            else:
                cfg["listeners"][f - 1]["on"] = on
    # dimension: exact variable references (a third of the conversations); the names are used in the drawn order
    # (not when the turns are dealt out to flows that wait with patterns: such a text has no marker, nobody would hear it)
    refs = draw(st.permutations(ref_names(v))) if draw(st.sampled_from([False, False, True])) and not shared and not norm_conv else None
    used = [0]

    def next_ref():
        used[0] += 1
        return refs[(used[0] - 1) % len(refs)]

    # dimension: generation options per call (Colang 1.0; the options select rail categories there)
    plan = draw(st.sampled_from([None, None, None, None, "same", "mixed", "off-then-on"])) if v == 1 else None
    if plan == "off-then-on":
        n_turns = max(n_turns, 2)
        off_turn = draw(st.integers(0, n_turns - 2))
    elif plan == "same":
        same = draw(st.sampled_from(OPTS_ON[1:]))
    turns = []
    for t in range(n_turns):
        turn = {
            "user": draw(pipeline.st_user_text(t)),
            "route": draw(st.sampled_from(routes)),
            "in": [draw(pipeline.st_verdict(k)) for k in cfg["in"]],
            "out": [draw(pipeline.st_verdict(k, p_accept=8)) for k in cfg["out"]],
            "body": draw(pipeline.st_body()),
        }
        if t == burst_t:
            turn["burst"] = {"user": burst_text, "in": [draw(pipeline.st_verdict(k)) for k in cfg["in"]], "first": draw(st.sampled_from([False, False, False, True]))}
        if refs is not None and t != burst_t:
            if draw(st.booleans()):
                # the user text is exactly `$name`: no marker, the literal is what every stage must see
                turn["user"] = "$" + next_ref()
                turn["ref"] = True
            if v == 1:
                # a rewriting rail may produce such a text as well
                rw = [next_ref() if fakes.eff(k, w) == "rewrite" and draw(st.booleans()) else None for k, w in zip(cfg["in"], turn["in"])]
                if any(rw):
                    turn["rw_ref"] = rw
        if norm_conv and draw(st.sampled_from([True, True, False])):
            # a turn of the normalisation kind: a tame text in mixed case with runs of spaces (around the marker of the turn); every
            # rewriting rail gets an operation; 2 in 3: one of them does rewrite and no rail before it rejects
            turn["user"] = mk_norm_text(
                t,
                draw(st.lists(st.sampled_from(NORM_WORDS), min_size=0, max_size=3)),
                draw(st.lists(st.sampled_from(NORM_WORDS), min_size=1, max_size=3)),
                draw(st.lists(st.sampled_from(NORM_GAPS), min_size=1, max_size=3)),
                draw(st.sampled_from(NORM_ENDS)),
                draw(st.sampled_from(NORM_ENDS)),
            )
            turn["norm"] = [draw(st.sampled_from(NORM_NAMES)) if k in ("rewrite", "both") else None for k in cfg["in"]]
            if draw(st.sampled_from([True, True, False])):
                i = draw(st.sampled_from([i for i, k in enumerate(cfg["in"]) if k in ("rewrite", "both")]))
                turn["in"] = ["accept" if w == "reject" else w for w in turn["in"][:i]] + ["rewrite"] + turn["in"][i + 1:]
        if t in said:
            # the text one of the listeners waits for (plain words around the marker of the turn)
            turn["user"] = said[t]
            turn.pop("ref", None)
        if t >= 1 and draw(st.sampled_from([False, False, True])):
            # the user sends, character by character, the text of an earlier turn again (usually the previous one)
            s = draw(st.sampled_from([t - 1, t - 1, draw(st.integers(0, t - 1))]))
            if not (t == burst_t and turns[s].get("ref")):  # (the two messages of one call carry markers)
                turn["user"] = turns[s]["user"]
                turn["umark"] = turns[s].get("umark", s)
                turn.pop("ref", None)
                if turn.get("norm") and not turns[s].get("norm"):
                    turn.pop("norm")  # (exact spellings are asserted for tame texts only)
                elif turns[s].get("norm") and not turn.get("norm"):
                    # the text of a normalisation turn again: its normalised spelling (same marker) may be in the history, so this
                    # turn is judged by exact spellings as well - its rewriting rails normalise, too
                    turn["norm"] = list(turns[s]["norm"])
                if turns[s].get("ref"):
                    turn["ref"] = True
        if v == 1 and t >= 2 and draw(st.sampled_from([False, False, True])):
            # the user edits the previous message / regenerates: this turn is sent with the history BEFORE the previous turn
            turn["redo"] = True
        if plan == "same":
            opts = same
        elif plan == "mixed":
            opts = draw(st.sampled_from(OPTS_ON + OPTS_OFF))
        elif plan == "off-then-on":
            opts = draw(st.sampled_from(OPTS_OFF)) if t == off_turn else draw(st.sampled_from(OPTS_ON))
        else:
            opts = None
        if opts is not None:
            turn["options"] = opts
        turns.append(turn)
    if gap and len(turns) >= 2:
        g = draw(st.integers(1, len(turns) - 1))
        turns[g]["between"] = gap
        rw = [i for i, k in enumerate(cfg["in"]) if k in ("rewrite", "both")]
        if gap >= 70 and rw and draw(st.sampled_from([True, True, False])):
            # ... and, 2 in 3, the turn before them is one whose text a rail rewrites (no rail before that one rejects it)
            i = draw(st.sampled_from(rw))
            turns[g - 1]["in"] = ["accept"] * i + ["rewrite"] + turns[g - 1]["in"][i + 1:]
        if len(turns) >= 3 and draw(st.sampled_from([False, False, True])):
            turns[draw(st.integers(1, len(turns) - 1))].setdefault("between", draw(st.sampled_from(GAP_SMALL)))
    return {"config": cfg, "turns": turns, "api": draw(st.sampled_from(["sync", "async"] + (["events", "events"] if burst else [])))}


def strategy(tier):
    return _case()


def enumerate_cases(tier):
    """Deterministic core: every ordered verdict pattern of a 3-rail chain in turn 2 of a 2-turn conversation."""
    # (first: under load the wall budget cuts the end of the enumeration and the generated part)
    # Colang 2.x, the waiting form: a flow waits for the user with a PATTERN - shape of the pattern x rail style x refusal /
    # rail exception x who waits with it (the main-loop flow next to an any-utterance listener / a listener next to the main
    # flow that takes anything / a listener next to the main flow that waits for one literal text: every message heard by
    # ONE flow), both spellings; the matching text accepted, sent again and rejected by the last rail, then another turn
    # rejected by the first rail
    # Colang 1.0, OTHER conversations served by the same instance between two turns (0 / 1 / 70 / 200 of them) x mode (general /
    # dialog / passthrough+dialog) x which rail rewrites: turn 1 rewritten, the other conversations, turn 2 accepted, turn 3
    # rewritten by the other rewriting rail after one more foreign call, turn 4 rejected
    # Colang 1.0, the rewrite kind "normalisation of the user's own text": operation x mode (general / dialog / passthrough+dialog /
    # general with an output rail) - turn 1 normalised by the first rewriting rail, turn 2 by the other one with the next
    # operation, turn 3 accepted as it is, turn 4 the text of turn 1 again, normalised by both, turn 5 rejected
    ops = ["lower", "upper", "squeeze", "trim"]
    for a, op in enumerate(ops):
        for b, cfg in enumerate((
            {"v": 1, "in": ["rewrite", "check", "both"], "out": [], "dialog": False, "exc": False, "ret": 0},
            {"v": 1, "in": ["check", "both", "rewrite"], "out": [], "dialog": True, "exc": False, "ret": 0},
            {"v": 1, "in": ["both", "rewrite", "check"], "out": [], "dialog": True, "exc": True, "ret": 0, "passthrough": True},
            {"v": 1, "in": ["check", "rewrite", "both"], "out": ["check"], "dialog": False, "exc": True, "ret": 1},
        )):
            rw = [i for i, kind in enumerate(cfg["in"]) if kind in ("rewrite", "both")]
            n_out = len(cfg["out"])
            pat = lambda *on: [("rewrite" if i in on else "accept") for i in range(3)]  # noqa: E731
            norm = lambda x, y: [(x if i == rw[0] else y if i == rw[1] else None) for i in range(3)]  # noqa: E731
            op2 = ops[(a + 1 + b) % 4]
            text0 = mk_norm_text(0, ["My", "Badge"], ["is", "QX-Secret-77"], ["  ", " ", "   "], ("", "  ")[b % 2] if op in ("squeeze", "trim") else "", "   " if op in ("squeeze", "trim") else "")
            text1 = mk_norm_text(1, ["and"], ["What", "now"], [" ", "   "], "  " if op2 in ("squeeze", "trim") else "", "")
            turns = [
                {"user": text0, "route": "llm", "in": pat(rw[0]), "norm": norm(op, op2), "out": ["accept"] * n_out, "body": "first answer"},
                {"user": text1, "route": ("llm", "predef", "pl")[(a + b) % 3], "in": pat(rw[1]), "norm": norm(op, op2), "out": ["accept"] * n_out, "body": "second answer"},
                {"user": mk_norm_text(2, ["Tell"], ["me", "PLEASE"], ["  "], "", ""), "route": "llm", "in": pat(), "norm": norm(op, op2), "out": ["accept"] * n_out, "body": "third answer"},
                {"user": text0, "umark": 0, "route": "llm", "in": pat(*rw), "norm": norm(op2, op), "out": ["accept"] * n_out, "body": "fourth answer"},
                {"user": mk_norm_text(4, ["no"], ["never"], [" "], "", ""), "route": "llm", "in": ["accept"] * cfg["in"].index("check") + ["reject"] + ["accept"] * (2 - cfg["in"].index("check")), "out": ["accept"] * n_out, "body": "fifth answer"},
            ]
            yield {"config": cfg, "turns": turns, "api": ("sync", "async")[(a + b) % 2]}
    for a, n_other in enumerate((70, 0, 1, 200)):
        for b, cfg in enumerate((
            {"v": 1, "in": ["rewrite", "check", "both"], "out": [], "dialog": False, "exc": False, "ret": 0},
            {"v": 1, "in": ["check", "both", "rewrite"], "out": ["check"], "dialog": True, "exc": False, "ret": 0},
            {"v": 1, "in": ["both", "self", "rewrite"], "out": [], "dialog": True, "exc": True, "ret": 1, "passthrough": True},
        )):
            if n_other == 200 and b:
                continue
            first = [i for i, kind in enumerate(cfg["in"]) if kind in ("rewrite", "both")]
            n_out = len(cfg["out"])
            pat = lambda i: ["accept"] * i + ["rewrite"] + ["accept"] * (2 - i)  # noqa: E731
            turns = [
                {"user": f"{fakes.mk_user(0)} my secret is x", "route": "llm", "in": pat(first[0]), "out": ["accept"] * n_out, "body": "first answer"},
                {"user": f"and {fakes.mk_user(1)} what did I say", "route": ("llm", "predef", "pl")[(a + b) % 3], "in": ["accept"] * 3, "out": ["accept"] * n_out, "body": "second answer", "between": n_other},
                {"user": f"{fakes.mk_user(2)} tell me more", "route": "llm", "in": pat(first[1]), "out": ["accept"] * n_out, "body": "third answer", "between": 1},
                {"user": f"no {fakes.mk_user(3)} never", "route": "llm", "in": ["accept", "reject", "accept"], "out": ["accept"] * n_out, "body": "fourth answer", "between": min(n_other, 2)},
            ]
            yield {"config": cfg, "turns": turns, "api": ("sync", "async")[(a + b) % 2]}
    # Colang 1.0, what a rail action returns for 'not allowed' (False / None / 0 / "") x rail kinds that share a verdict variable
    # ($allowed: check rails and the shipped rail; $vf_checked: block-or-rewrite rails) x refusal / rail exception: accepted turn,
    # rejected by the last rail (the rails before it accept), rejected by the first rail, accepted again, rejected by the last again
    for a, how in enumerate(("none", "zero", "empty", "false")):
        for b, kinds in enumerate((["check", "check"], ["check"], ["both", "both"], ["self", "check"], ["check", "both", "check"], ["rewrite", "check", "self"])):
            cfg = {"v": 1, "in": kinds, "out": [], "dialog": bool((a + b) % 3 == 2), "exc": bool((a + b) % 2), "ret": 0, "in_rej": [how if kind in ("check", "both") else None for kind in kinds], "ext": "c01"}
            n = len(kinds)
            last = max(i for i, kind in enumerate(kinds) if kind in ("check", "both"))
            R_last, R_first = ["accept"] * last + ["reject"] + ["accept"] * (n - last - 1), ["reject"] + ["accept"] * (n - 1)
            turns = [
                {"user": f"{fakes.mk_user(0)} hello there", "route": "llm", "in": ["accept"] * n, "out": [], "body": "first answer"},
                {"user": f"and {fakes.mk_user(1)} now", "route": "llm", "in": R_last, "out": [], "body": "second answer"},
                {"user": f"no {fakes.mk_user(2)} never", "route": "predef", "in": R_first, "out": [], "body": "third answer"},
                {"user": f"{fakes.mk_user(3)} tell me more", "route": "llm", "in": ["accept"] * n, "out": [], "body": "fourth answer"},
                {"user": f"and {fakes.mk_user(1)} now", "umark": 1, "route": "llm", "in": R_last, "out": [], "body": "fifth answer"},
            ]
            yield {"config": cfg, "turns": turns, "api": ("sync", "async")[b % 2]}
    k = 0
    for style in ("config", "hand"):
        for exc in (False, True):
            for shape in REGEX_SHAPES:
                for who in ("single", "main", "listener"):
                    k += 1
                    text0 = f"{fakes.mk_user(0)} hello there"
                    text1 = f'say "{fakes.mk_user(1)}" $now' if shape == "contains" else f"{fakes.mk_user(1)} {LISTEN_TEXTS[k % 3]}"
                    rx = {"regex": mk_pattern(shape, 1, text1), "form": REGEX_FORMS[k % 2]}
                    cfg = {"v": 2, "in": ["check", "check"], "out": [], "dialog": bool(k % 4 >= 2), "exc": exc, "style": style, "ext": "c01"}
                    if who == "main":
                        cfg["listeners"], cfg["main_on"] = [{"loop": LOOPS[0], "on": "any", "do": LISTEN_DO[k % 4]}], rx
                    elif who == "listener":
                        cfg["listeners"] = [{"loop": LOOPS[0], "on": rx, "do": LISTEN_DO[k % 4]}]
                    else:
                        cfg["listeners"], cfg["main_on"] = [{"loop": LOOPS[0], "on": rx, "do": LISTEN_DO[k % 4]}], {"text": text0}
                    A, R0, R1 = ["accept", "accept"], ["reject", "accept"], ["accept", "reject"]
                    last = {"user": text0, "umark": 0} if who == "single" else {"user": f"no {fakes.mk_user(3)} never"}
                    turns = [
                        {"user": text0, "route": "llm", "in": A, "out": [], "body": "first answer"},
                        {"user": text1, "route": ("llm", "predef", "act_llm")[k % 3], "in": A, "out": [], "body": "second answer"},
                        {"user": text1, "umark": 1, "route": "llm", "in": R1, "out": [], "body": "third answer"},
                        dict(last, route="llm", body="fourth answer", **{"in": R0, "out": []}),
                    ]
                    yield {"config": cfg, "turns": turns, "api": ("sync", "async")[k % 2]}
    for v, kinds in ((1, ["check", "both", "self"]), (1, ["rewrite", "check", "both"]), (2, ["check", "self", "check"])):
        for exc in (False, True):
            for dialog in (False, True) if v == 1 else (False, True, "llmc"):
                cfg = {"v": v, "in": kinds, "out": ["check"], "dialog": dialog, "exc": exc}
                if v == 2:
                    cfg["style"] = "hand" if exc else "config"
                else:
                    cfg["ret"] = 0
                pats = [["accept"] * 3, ["reject", "accept", "accept"], ["accept", "reject", "accept"], ["accept", "accept", "reject"], ["rewrite", "rewrite", "reject"], ["rewrite", "accept", "rewrite"]]
                for pat in pats:
                    turns = [
                        {"user": f"{fakes.mk_user(0)} hello there", "route": "llm", "in": ["accept"] * 3, "out": ["accept"], "body": "first answer"},
                        {"user": f'say "{fakes.mk_user(1)}" $now', "route": "llm", "in": pat, "out": ["accept"], "body": "second answer"},
                    ]
                    yield {"config": cfg, "turns": turns, "api": "sync"}
    # the same text again: (verdicts of turn 1, verdicts of turn 2 on the identical text), both Colang versions
    for v in (1, 2):
        for dialog in (False, True) if v == 1 else (False, True, "llmc"):
            for exc in (False, True):
                cfg = {"v": v, "in": ["check", "check"], "out": [], "dialog": dialog, "exc": exc}
                if v == 2:
                    cfg["style"] = "hand" if dialog is True else "config"
                else:
                    cfg["ret"] = 0
                A, R1, R2 = ["accept", "accept"], ["reject", "accept"], ["accept", "reject"]
                for first, again in ((R1, R1), (R2, R2), (R2, A), (A, R1), (A, R2), (A, A)):
                    text = f"please {fakes.mk_user(0)} tell me"
                    turns = [
                        {"user": text, "route": "llm", "in": first, "out": [], "body": "first answer"},
                        {"user": text, "umark": 0, "route": "llm", "in": again, "out": [], "body": "second answer"},
                        {"user": text, "umark": 0, "route": "llm", "in": again, "out": [], "body": "third answer"},
                    ]
                    yield {"config": cfg, "turns": turns, "api": "sync"}
    # Colang 1.0 passthrough mode (the LLM gets the raw request) with rewriting rails
    for dialog in (False, True):
        for kinds in (["rewrite", "check"], ["both"], ["check", "rewrite", "both"]):
            cfg = {"v": 1, "in": kinds, "out": ["check"], "dialog": dialog, "exc": False, "ret": 0, "passthrough": True}
            for pat in (["rewrite"] * len(kinds), ["accept"] * len(kinds), ["rewrite"] * (len(kinds) - 1) + ["reject"]):
                turns = [
                    {"user": f"{fakes.mk_user(0)} my secret is x", "route": "llm", "in": pat, "out": ["accept"], "body": "first answer"},
                    {"user": f"and {fakes.mk_user(1)} again", "route": "next_llm", "in": ["rewrite"] * len(kinds), "out": ["accept"], "body": "second answer"},
                    {"user": f"and {fakes.mk_user(1)} again", "umark": 1, "route": "llm", "in": pat, "out": ["accept"], "body": "third answer"},
                ]
                yield {"config": cfg, "turns": turns, "api": "sync"}
    # hostile user texts, one per conversation, followed by a plain turn (a text must not poison the conversation)
    for v in (1, 2):
        for dialog in (False, True):
            cfg = {"v": v, "in": ["check", "check"], "out": [], "dialog": dialog, "exc": False}
            if v == 2:
                cfg["style"] = "config"
            else:
                cfg["ret"] = 0
            for noise in HOSTILE_TEXTS:
                for second in (["accept", "accept"], ["accept", "reject"]):
                    turns = [
                        {"user": f"{fakes.mk_user(0)} {noise}", "route": "llm", "in": ["accept", "accept"], "out": [], "body": "first answer"},
                        {"user": f"{fakes.mk_user(1)} and now", "route": "llm", "in": second, "out": [], "body": "second answer"},
                    ]
                    yield {"config": cfg, "turns": turns, "api": "sync"}
    # exact variable references, Colang 1.0: every name as the whole user text (turn 2, after a plain turn) and as the
    # product of the first rewriting rail (turn 3), in general / dialog / raw passthrough / passthrough+dialog mode
    for cfg in (
        {"v": 1, "in": ["check", "rewrite", "both", "self"], "out": ["check", "self"], "dialog": False, "exc": False, "ret": 1},
        {"v": 1, "in": ["check", "both"], "out": ["check"], "dialog": True, "exc": False, "ret": 0},
        {"v": 1, "in": ["rewrite", "check"], "out": [], "dialog": False, "exc": False, "ret": 0, "passthrough": True},
        {"v": 1, "in": ["both"], "out": ["check"], "dialog": True, "exc": True, "ret": 0, "passthrough": True},
    ):
        n, n_out = len(cfg["in"]), len(cfg["out"])
        j = min(i for i, k in enumerate(cfg["in"]) if k in ("rewrite", "both"))
        routes = pipeline.routes_for(cfg)
        for k, name in enumerate(ref_names(1)):
            turns = [
                {"user": f"{fakes.mk_user(0)} hello there", "route": "llm", "in": ["accept"] * n, "out": ["accept"] * n_out, "body": "first answer"},
                {"user": "$" + name, "ref": True, "route": routes[k % len(routes)], "in": ["accept"] * n, "out": ["accept"] * n_out, "body": "second answer"},
                {"user": f"and {fakes.mk_user(2)} now", "route": "llm", "in": ["accept"] * j + ["rewrite"] + ["accept"] * (n - j - 1), "rw_ref": [None] * j + [name] + [None] * (n - j - 1), "out": ["accept"] * n_out, "body": "third answer"},
            ]
            yield {"config": cfg, "turns": turns, "api": "sync"}
    # exact variable references, Colang 2.x: the literal text is what every rail is given; sent again it is checked again
    for cfg in (
        {"v": 2, "in": ["check", "self", "check"], "out": ["check"], "dialog": False, "exc": False, "style": "config"},
        {"v": 2, "in": ["check", "check"], "out": [], "dialog": True, "exc": True, "style": "hand"},
        {"v": 2, "in": ["check", "check"], "out": [], "dialog": "llmc", "exc": False, "style": "config"},
    ):
        n, n_out = len(cfg["in"]), len(cfg["out"])
        for k, name in enumerate(ref_names(2)):
            turns = [
                {"user": f"{fakes.mk_user(0)} hello there", "route": "llm", "in": ["accept"] * n, "out": ["accept"] * n_out, "body": "first answer"},
                {"user": "$" + name, "ref": True, "route": ("llm", "predef")[k % 2], "in": ["accept"] * n, "out": ["accept"] * n_out, "body": "second answer"},
                {"user": "$" + name, "ref": True, "umark": 1, "route": "llm", "in": ["accept"] * (n - 1) + ["reject"], "out": ["accept"] * n_out, "body": "third answer"},
            ]
            yield {"config": cfg, "turns": turns, "api": "sync"}
    # generation options per call (Colang 1.0): one call switches the input rails off (every spelling), the calls around it
    # leave them on (every spelling / no options); the input-off call is the first or the second of three
    PATS = (["accept", "rewrite", "accept"], ["reject", "accept", "accept"], ["accept", "rewrite", "reject"])
    for cfg in (
        {"v": 1, "in": ["check", "both", "check"], "out": ["check"], "dialog": False, "exc": False, "ret": 0},
        {"v": 1, "in": ["check", "rewrite", "self"], "out": [], "dialog": True, "exc": True, "ret": 1},
    ):
        n_out = len(cfg["out"])
        for a, off in enumerate(OPTS_OFF):
            for b, on in enumerate(OPTS_ON):
                for pos in (0, 1):
                    turns = []
                    for t in range(3):
                        turn = {"user": f"{fakes.mk_user(t)} tell me more", "route": "llm", "in": PATS[(a + b + t) % 3] if t > pos else PATS[0], "out": ["accept"] * n_out, "body": f"answer {t}"}
                        opts = off if t == pos else (on if t == pos + 1 else OPTS_ON[(a + b) % 2])
                        if opts is not None:
                            turn["options"] = opts
                        turns.append(turn)
                    yield {"config": cfg, "turns": turns, "api": "sync"}
    # the event type of the rail exception: every type x rail shape (Colang 1.0: check / block-or-rewrite, next to the shipped
    # rail; Colang 2.x: config.yml / hand-written style); the rejecting rail is the first, the second, the shipped one
    for typ in EXC_TYPES[1:]:
        for cfg in (
            {"v": 1, "in": ["check", "both", "self"], "out": [], "dialog": False, "exc": True, "ret": 0, "in_exc": [typ, EXC_TYPES[(EXC_TYPES.index(typ) + 1) % len(EXC_TYPES)], None], "ext": "c01"},
            {"v": 1, "in": ["both", "check"], "out": ["check"], "dialog": True, "exc": True, "ret": 0, "in_exc": [typ, typ], "ext": "c01"},
            {"v": 2, "in": ["check", "check", "self"], "out": [], "dialog": False, "exc": True, "style": "config", "in_exc": [typ, EXC_TYPES[(EXC_TYPES.index(typ) + 2) % len(EXC_TYPES)], None], "ext": "c01"},
            {"v": 2, "in": ["check", "check"], "out": ["check"], "dialog": True, "exc": True, "style": "hand", "in_exc": [None, typ], "ext": "c01"},
        ):
            n, n_out = len(cfg["in"]), len(cfg["out"])
            turns = [{"user": f"{fakes.mk_user(0)} hello there", "route": "llm", "in": ["accept"] * n, "out": ["accept"] * n_out, "body": "first answer"}]
            for t in range(1, n + 1):
                turns.append({"user": f"and {fakes.mk_user(t)} now", "route": "llm", "in": ["accept"] * (t - 1) + ["reject"] + ["accept"] * (n - t), "out": ["accept"] * n_out, "body": f"answer {t}"})
            yield {"config": cfg, "turns": turns, "api": "sync"}
    # Colang 2.x, flows in other interaction loops waiting for the utterance as well: what the listener does x what it
    # waits for x rail style x refusal / rail exception; accepted, rejected by the last / the first rail, accepted again
    for style in ("config", "hand"):
        for exc in (False, True):
            for a, do in enumerate(LISTEN_DO):
                for b, on in enumerate(("any", {"text": f"{fakes.mk_user(1)} hi there"})):
                    cfg = {"v": 2, "in": ["check", "check"], "out": [], "dialog": bool((a + b) % 2), "exc": exc, "style": style, "ext": "c01"}
                    cfg["listeners"] = [{"loop": LOOPS[0], "on": on, "do": do}]
                    if a == 3:
                        cfg["listeners"].append({"loop": LOOPS[1], "on": "any", "do": LISTEN_DO[b]})
                    if on == "any" and a % 2 == 1:
                        cfg["main_on"] = {"text": f"{fakes.mk_user(1)} hi there"}
                    rj = [["accept", "reject"], ["reject", "accept"]]
                    turns = [
                        {"user": f"{fakes.mk_user(0)} hello there", "route": "llm", "in": ["accept", "accept"], "out": [], "body": "first answer"},
                        {"user": f"{fakes.mk_user(1)} hi there", "route": "predef", "in": rj[b], "out": [], "body": "second answer"},
                        {"user": f"no {fakes.mk_user(2)} never", "route": "llm", "in": rj[1 - b], "out": [], "body": "third answer"},
                        {"user": f"{fakes.mk_user(1)} hi there", "umark": 1, "route": "act_llm", "in": ["accept", "accept"], "out": [], "body": "fourth answer"},
                    ]
                    yield {"config": cfg, "turns": turns, "api": "sync"}
    # concurrent leg: two / three conversations on one instance; configuration x schedule (who waits where while the other
    # one runs its rails) x which conversation is rejected by which rail
    SCHED = (
        ([0.01], [0.01], 0),
        ([0.03, 0.01], [0.01], 0.004),
        ([0.01, 0.03], [0.02, 0.01], 0.005),
        ([0.01, 0.01, 0.04], [0.01], 0.015),
        ([0.02], [0.005, 0.005, 0.03], 0.01),
    )
    for cfg in (
        {"v": 1, "in": ["check", "rewrite", "check"], "out": [], "dialog": False, "exc": False, "ret": 0},
        {"v": 1, "in": ["check", "both", "self"], "out": ["check"], "dialog": True, "exc": True, "ret": 1},
        {"v": 1, "in": ["rewrite", "check"], "out": [], "dialog": False, "exc": False, "ret": 0, "passthrough": True},
        {"v": 2, "in": ["check", "check"], "out": [], "dialog": True, "exc": False, "style": "hand"},
        {"v": 2, "in": ["check", "self"], "out": [], "dialog": False, "exc": True, "style": "config"},
    ):
        cfg = dict(cfg, ext="c01", slow=True)
        n, n_out = len(cfg["in"]), len(cfg["out"])
        last = ["accept", "rewrite", "accept", "accept"][: n - 1] + ["reject"]
        for a, (lat_a, lat_b, start_b) in enumerate(SCHED if cfg["v"] == 1 else SCHED[:3]):
            for b, (pat_a, pat_b) in enumerate(((last, ["accept", "rewrite", "accept"][:n]), (["accept"] * n, ["reject"] + ["accept"] * (n - 1)))):
                def turn(t, pat, k):
                    return {"user": f"{fakes.mk_user(t)} my secret is x", "route": ("llm", "predef", "pl")[k % 3], "in": pat, "out": ["accept"] * n_out, "body": f"answer {t}"}
                convs = [
                    {"start": 0, "lat": {"rail": lat_a, "llm": [0.005]}, "turns": [turn(0, pat_a, a)]},
                    {"start": start_b, "lat": {"rail": lat_b, "llm": [0.005, 0.02]}, "turns": [turn(T0_STEP, pat_b, a + 1), turn(T0_STEP + 1, ["accept"] * n, a + 2)]},
                ]
                if (a + b) % 3 == 2:
                    convs.append({"start": 0.01, "lat": {"rail": [0.015], "llm": [0]}, "turns": [turn(2 * T0_STEP, pat_a, b)]})
                yield {"config": cfg, "conc": convs, "api": "async"}
    # Colang 2.x, two different user messages in one call: what the flow that takes the expected text does x refusal / rail
    # exception x generate / state API x (verdicts of the turn text, verdicts of the expected text); who waits for what:
    # main flow anything + listener the expected text / main flow the expected text + listener anything / expected text first
    # and a listener for each text
    A, R0, R1 = ["accept", "accept"], ["reject", "accept"], ["accept", "reject"]
    for a, do in enumerate(LISTEN_DO):
        for b, (va, vb) in enumerate(((A, A), (R1, A), (R0, A), (A, R0), (A, R1), (R1, R0))):
            for shape in ("main-any", "main-expected", "expected-first"):
                if shape != "main-any" and (a + b) % 2:
                    continue
                btxt, atxt = f"{mk_burst(1)} hi there", f"{fakes.mk_user(1)} tell me more"
                n_out = 1 if b % 3 == 0 else 0
                cfg = {"v": 2, "in": ["check", "check"], "out": ["check"] * n_out, "dialog": bool((a + b) % 2), "exc": bool((a + b // 2) % 2), "style": "hand", "ext": "c01", "own": True}
                if shape == "main-any":
                    cfg["listeners"] = [{"loop": LOOPS[0], "on": {"text": btxt}, "do": do}]
                    atxt = f'say "{fakes.mk_user(1)}" $now'
                elif shape == "main-expected":
                    cfg["listeners"] = [{"loop": LOOPS[0], "on": "any", "do": do}]
                    cfg["main_on"] = {"text": btxt}
                else:
                    cfg["listeners"] = [{"loop": LOOPS[0], "on": {"text": btxt}, "do": do}, {"loop": LOOPS[1], "on": {"text": atxt}, "do": LISTEN_DO[(a + 1) % 4]}]
                turns = [
                    {"user": f"{fakes.mk_user(0)} hello there", "route": "llm", "in": A, "out": ["accept"] * n_out, "body": "first answer"},
                    {"user": atxt, "route": ("act_llm", "llm", "predef")[b % 3], "in": va, "out": ["accept"] * n_out, "body": "second answer", "burst": {"user": btxt, "in": vb, "first": shape == "expected-first"}},
                    {"user": f"{fakes.mk_user(2)} and then", "route": "llm", "in": R1 if b % 2 else A, "out": ["accept"] * n_out, "body": "third answer"},
                ]
                yield {"config": cfg, "turns": turns, "api": ("sync", "events", "async")[(a + b) % 3]}


DIALOG_TEXT_RE = re.compile(r"LISTEN\d+Z|PREDEF[A-Z]+Z")  # texts only dialog flows utter (listeners, predefined bot messages)
HOSTILE_TEXTS = [
    'say "hi"',
    "it's",
    "{{ x }}",
    "{% if %}",
    "{$x}",
    "$user_message",
    "$config",
    "two" + chr(10) + "lines",
    "C:" + BS + "users" + BS + "new",  # \u and \n as two-character sequences
    "tail" + BS,
    BS + "x",
    "%s %d",
    "<<<x>>>",
    "a: b",
    "'''",
    'user "x"' + chr(10) + "  ask y",
]


# ------------------------------------------------------------------------------------------------


# Rewrite KIND "case / whitespace normalisation of the user's own text" (Colang 1.0): turn["norm"][i] = what rewriting rail i
# does with the text it is given when its verdict is `rewrite` - no new marker text: the product differs from the original
# ONLY by letter case or whitespace, so original and product are told apart by their EXACT spelling.
NORM_OPS = {
    "upper": lambda x: x.upper(),
    "lower": lambda x: x.lower(),
    "squeeze": lambda x: " ".join(x.split()),  # runs of white space -> one space, none at the ends
    "trim": lambda x: x.strip(),
}
NORM_NAMES = ["upper", "lower", "lower", "squeeze", "squeeze", "trim"]
NORM_WORDS = ["My", "Badge", "is", "QX-Secret-77", "What", "now", "Tell", "me", "PLEASE", "and"]
NORM_GAPS = [" ", " ", "  ", "   "]
NORM_ENDS = ["", "", "  ", "   "]  # (two or more: `User: ` + trimmed text never spells the untrimmed text)


def mk_norm_text(t, before, after, gaps, lead, trail):
    """Tame user text (letters, digits, hyphens, spaces) in mixed case with runs of spaces around the marker of turn t."""
    words = list(before) + [fakes.mk_user(t)] + list(after)
    out = words[0]
    for k, w in enumerate(words[1:]):
        out += gaps[k % len(gaps)] + w
    return lead + out + trail


class _Session(fakes.Session):
    """Policy of the fakes for this check: a rewriting input rail may hand back an exact variable reference, or the text it
    was given in another letter case / with other white space."""

    def rewritten(self, cat, idx, turn, text):
        names = self.turns[turn].get("rw_ref") or []
        if cat == "in" and idx < len(names) and names[idx] is not None:
            return "$" + names[idx]
        ops = self.turns[turn].get("norm") or []
        if cat == "in" and idx < len(ops) and ops[idx] is not None and isinstance(text, str):
            return NORM_OPS[ops[idx]](text)  # the user's own text (as this rail was given it), normalised
        return super().rewritten(cat, idx, turn, text)

    def rail_verdict(self, cat, idx, turn, text):
        # two utterances in one call: each has verdicts of its own - the text a rail is given says which one it is judging
        b = self.turns[turn].get("burst") if turn < len(self.turns) else None
        if cat == "in" and b and text == b["user"] and text != self.turns[turn]["user"]:
            return b["in"][idx] if idx < len(b["in"]) else "accept"
        return super().rail_verdict(cat, idx, turn, text)

    def llm_answer(self, task, prompt, turn, k):
        if NLD_TAG in str(prompt) and (turn, k) not in self.override:
            # a listener's `$text = ..."..."` (generate a value): the completion must be a Python literal
            return json.dumps(self.message_text(turn, k, self.turns[turn].get("body", "generated words")))
        return super().llm_answer(task, prompt, turn, k)


def burst_messages(spec, t):
    """The user messages of one call, in the order they are handed over: [{"user", "in", "mark", "which"}]."""
    a = {"user": spec["user"], "in": spec["in"], "mark": fakes.mk_user(spec.get("umark", t)), "which": "turn text"}
    b = spec.get("burst")
    if not b:
        return [a]
    b = {"user": b["user"], "in": b["in"], "mark": mk_burst(t), "which": "expected text"}
    return [b, a] if spec["burst"].get("first") else [a, b]


async def _events_call(rails, state, texts):
    """One call through the state API: the utterances are handed to LLMRails.process_events_async as
    UtteranceUserActionFinished events of ONE call; the caller plays the bot's utterances (answers every
    StartUtteranceBotAction with its Finished event, the way generate() does with its instant actions)."""
    events = [{"type": "UtteranceUserActionFinished", "final_transcript": x} for x in texts]
    scripts, others = [], []
    for _ in range(40):
        out, state = await rails.process_events_async(events, state or None, blocking=True)
        events = []
        for ev in out:
            if ev.get("type") == "StartUtteranceBotAction":
                scripts.append(ev["script"])
                events.append({"type": "UtteranceBotActionFinished", "final_script": ev["script"], "action_uid": ev["action_uid"], "is_success": True})
            else:
                others.append(ev)
        if not events:
            break
    msg = {"role": "assistant", "content": chr(10).join(scripts)}
    if others:
        msg["events"] = others
    return msg, state


def _turn_v2(p, s, t):
    """A Colang 2.x call that vf.pipeline.Pipeline.turn does not make: several user messages in one call and / or the
    state API instead of generate."""
    spec = s.turns[t]
    texts = [m["user"] for m in burst_messages(spec, t)]
    api = s.case.get("api", "sync")
    n_trace, n_llm = len(s.trace), len(s.llm_calls)
    lp = pipeline.loop()
    tok = fakes.set_current(s, t)
    obs = {"reply": None, "raised": None, "log": None}
    try:
        if api == "events":
            obs["reply"], s.state = lp.run_until_complete(_events_call(p.rails, s.state, texts))
        else:
            kw = {"messages": [{"role": "user", "content": x} for x in texts], "state": s.state}
            res = lp.run_until_complete(p.rails.generate_async(**kw)) if api == "async" else p.rails.generate(**kw)
            obs["reply"], obs["log"] = pipeline._norm_reply(res)
            if getattr(res, "state", None) is not None:
                s.state = res.state
    except Exception as e:
        obs["raised"] = f"{type(e).__name__}: {e}"
    finally:
        fakes.CURRENT.reset(tok)
    obs["trace"], obs["llm"] = s.trace[n_trace:], s.llm_calls[n_llm:]
    return obs


OTHER_T0 = 40  # turn number the fakes use for an interposed conversation (its LLM texts carry LM40C..Z)
GAP_SMALL, GAP_MANY = [1, 1, 2, 3], [70, 80, 100, 200]


def mk_other(t, n):
    """Marker of the n-th unrelated conversation served between turn t - 1 and turn t."""
    return f"OC{t}N{n}Z"


def _other_call(p, case, t, n):
    """One unrelated conversation of one turn (a text of its own, every rail accepts, the cheapest route) served by the
    SAME LLMRails instance through the same API, with a session of its own: nothing of it shows in the observations of
    the conversation under test."""
    cfg = case["config"]
    spec = {"user": f"{mk_other(t, n)} hello there", "route": "predef", "in": ["accept"] * len(cfg["in"]), "out": ["accept"] * len(cfg.get("out") or []), "body": "other answer"}
    s = _Session({"config": cfg, "turns": [spec], "api": case.get("api", "sync")}, cfg)
    s.turns = [{} for _ in range(OTHER_T0)] + [spec]
    s.messages, s.state = [], None
    o = p.turn(s, OTHER_T0)
    if o["raised"]:
        raise RuntimeError(f"generate raised in interposed conversation {n} before turn {t}: {o['raised']}")


def _run_gaps(case, fresh):
    """Colang 1.0: turn t of the conversation is preceded by spec["between"] other generate calls on the same instance."""
    try:
        p = pipeline.get_pipeline(case["config"], fresh=fresh)
        s = p.new_session(case, _Session)
        turns = []
        for t, spec in enumerate(case["turns"]):
            for n in range(spec.get("between") or 0):
                _other_call(p, case, t, n)
            turns.append(p.turn(s, t))
        return pipeline.Observations(case, s, turns, p)
    except BaseException:
        pipeline.reset_runtime()
        raise


def _run_seq(case, fresh=False):
    """vf.pipeline.run_conversation with `_turn_v2` for the calls it has no shape for."""
    special = case["config"]["v"] == 2 and (case.get("api") == "events" or any(x.get("burst") for x in case["turns"]))
    if case["config"]["v"] == 1 and any(x.get("between") for x in case["turns"]):
        return _run_gaps(case, fresh)
    if not special:
        return pipeline.run_conversation(case, fresh=fresh, session_cls=_Session)
    try:
        p = pipeline.get_pipeline(case["config"], fresh=fresh)
        s = p.new_session(case, _Session)
        if case.get("api") == "events":
            s.state = None
        turns = [_turn_v2(p, s, t) for t in range(len(case["turns"]))]
        return pipeline.Observations(case, s, turns, p)
    except BaseException:
        pipeline.reset_runtime()
        raise


def _judge_burst(cfg, spec, o, t, what):
    """Two different user messages handed over in ONE call (one event-processing cycle).  The statement is about every
    user message: each of them, X, has its own reference chain (its verdicts); judged per message:
      chain   the rail invocations on X's text are a merge of complete copies of X's chain (>= 1 copy when a flow must have
              heard X: every waiting flow for the first message of the call, the flows that wait for exactly X's text for the second);
              no rail is given a text that is neither message;
      order   an LLM call whose prompt shows X's text comes after a complete accepting pass of X's chain - never, if X was rejected;
              steps that show no text (dialog actions, other LLM calls) come after a complete accepting pass for SOME message,
              and there are none if every message that was heard was rejected;
      reply   the refusal / rail exception of the rail that rejected X is part of the reply; nothing but refusals if all were rejected."""
    msgs = burst_messages(spec, t)
    flows = [cfg.get("main_on") or "any"] + [l["on"] for l in cfg.get("listeners") or []]
    entries = [e for e in o["trace"] if e["cat"] == "in"]
    labels = ["two-utterances-in-one-call", "two-utterances:expected-text-" + ("first" if spec["burst"].get("first") else "second")]
    stray = [e for e in entries if all(e["text"] != m["user"] for m in msgs)]
    if stray:
        raise Violation("input-rail-chain", f"{what}: {stray[0]['rail']} was given {str(stray[0]['text'])[:80]!r}, which is none of the user messages of the call {[m['user'][:60] for m in msgs]}", {"turn": t, "v": 2})
    gen = [c for c in o["llm"] if c["task"] in GENERATION_TASKS]
    dialog = [e for e in o["trace"] if e["cat"] == "dialog"]
    passed, refused = [], []  # (message, seq of its first complete accepting pass) / (message, rejecting rail, copies)
    for n, m in enumerate(msgs):
        # (a flow that waits with a pattern is generated with one that matches exactly one of the two messages: it waits for that one)
        must = sum(1 for w in flows if (w == "any" and n == 0) or (w != "any" and hears(w, m["user"]) and not any(hears(w, x["user"]) for x in msgs[:n])))
        mod = pipeline.model_input(cfg, {"in": m["in"]}, t)
        calls = [dict(c, sees=m["mark"], **{"not": None}) for c in mod["calls"]]
        mine = [{k: v for k, v in e.items() if k != "ctx"} for e in entries if e["text"] == m["user"]]  # (the rails are given the text as a parameter)
        w = f"{what[:-1]}; message {n + 1} of {len(msgs)} in the call, the {m['which']} {m['user'][:60]!r}, verdicts {m['in']})"
        if not mine and not must:
            labels.append("two-utterances:second-heard-by-no-flow")
            continue
        prob, copies = _merged_chain_problem(calls, mine, w)
        if prob:
            raise Violation("input-rail-chain", prob, {"turn": t, "v": 2, "no_rail_ran": not mine})
        # (a prompt that carries the conversation so far - a listener's `...` - also shows an earlier turn that sent the same text)
        shown = [c for c in gen if m["mark"] in str(c["prompt"]) and not ("umark" in spec and m["which"] == "turn text" and NLD_TAG in str(c["prompt"]))]
        labels.append(f"two-utterances:message-{n + 1}-" + ("rejected" if mod["blocked"] is not None else "accepted"))
        if mod["blocked"] is not None:
            if shown:
                raise Violation("llm-call-after-block", f"{w}: rail in{mod['blocked']} rejected the message but an LLM prompt ({shown[0]['task']}) shows its text", {"turn": t})
            refused.append((m, mod["blocked"], copies))
        else:
            done = min(e["seq"] for e in mine if e["rail"] == calls[-1]["rail"])
            if shown and min(c["seq"] for c in shown) < done:
                raise Violation("step-before-input-rails", f"{w}: an LLM prompt ({shown[0]['task']}) shows the text before all the input rails had accepted it", {"turn": t})
            passed.append((m, done))
    # (output rails also run on the refusal of a rejected message - not asserted, as in the single-message case)
    later = [c["seq"] for c in gen] + [e["seq"] for e in o["trace"] if e["cat"] in (("dialog",) if refused else ("dialog", "out", "ret"))]
    if passed:
        if later and min(later) < min(d for _m, d in passed):
            raise Violation("step-before-input-rails", f"{what}: a dialog/generation step ran before all the input rails had accepted any of the messages", {"turn": t})
    else:
        if gen:
            raise Violation("llm-call-after-block", f"{what}: every message of the call was rejected but the LLM was still called for {[c['task'] for c in gen]}", {"turn": t})
        if dialog:
            raise Violation("dialog-step-after-block", f"{what}: a dialog action ran although every message of the call was rejected", {"turn": t})
    text = pipeline.reply_text(o)
    lines = [x.strip() for x in text.split(chr(10)) if x.strip()]
    # In Colang 2.x a refusal uttered by an input rail is itself a bot message that the output rails judge (`_bot_say`); when an
    # output rail of this turn does not accept, what becomes of the refusal is the output rails' business (C02), not asserted here
    out_interferes = bool(cfg.get("out")) and any(v != "accept" for v in (spec.get("out") or []))
    if out_interferes and refused:
        labels.append("two-utterances:refusal-not-judged(output-rails-of-the-turn-do-not-all-accept)")
        refused_for_reply = []
    else:
        refused_for_reply = refused
    for m, i, copies in refused_for_reply:
        kind = cfg["in"][i]
        if cfg["exc"]:
            want, typ = block_message("in", i, kind), exc_type(cfg, i)
            if not any(e.get("type") == typ and e.get("message") == want for e in pipeline.reply_exceptions(o)):
                raise Violation("refusal-missing", f"{what}: message {m['user'][:60]!r} was rejected by in{i}: expected the rail exception {typ} with message {want!r}, reply was {o['reply']!r}"[:700], {"turn": t})
        else:
            want = refusal_text("in", i, kind)
            room = sum(c for _m, k, c in refused if refusal_text("in", k, cfg["in"][k]) == want)
            if not 1 <= lines.count(want) <= room:
                raise Violation("refusal-missing", f"{what}: message {m['user'][:60]!r} was rejected by in{i}: its refusal {want!r} must be in the reply (once per pass of the chain at most), got {o['reply']!r}"[:700], {"turn": t})
    if refused_for_reply and not passed:
        allowed = set() if cfg["exc"] else {refusal_text("in", i, cfg["in"][i]) for _m, i, _c in refused}
        if any(x not in allowed for x in lines):
            raise Violation("refusal-missing" if not cfg["exc"] else "llm-text-after-block" if fakes.lineage(text) else "dialog-text-after-block", f"{what}: every message of the call was rejected, the reply must hold nothing but the refusals / rail exceptions, got {o['reply']!r}"[:700], {"turn": t})
    if refused:
        labels.append("blocked")
    nt = len(cfg["in"]) >= 2 or bool(refused)
    return labels, nt


class _ConcSession(_Session):
    """One of several conversations served at the same time by one instance: turn numbers start at t0, every rail
    invocation and every LLM call waits for the next latency of the conversation's drawn lists."""

    def __init__(self, case, cfg, t0, lat):
        super().__init__(case, cfg)
        self.t0 = t0
        self.turns = [{} for _ in range(t0)] + list(case["turns"])
        self.lat = {"rail": list(lat.get("rail") or [0]), "llm": list(lat.get("llm") or [0])}
        self.n_lat = {"rail": 0, "llm": 0}

    def _next(self, what):
        self.n_lat[what] += 1
        return self.lat[what][(self.n_lat[what] - 1) % len(self.lat[what])]

    def rail_latency(self):
        return self._next("rail")

    def llm_latency(self, turn, k, task):
        if self.llm_calls:
            self.llm_calls[-1]["g"] = _tick()  # (called by the scripted LLM right after it recorded the call)
        return self._next("llm")


def _virtual(coro_fn):
    loop = vclock.VirtualLoop(max_steps=400_000)
    interrupted = True
    try:
        with loop.alarm_relay():
            out = loop.run_until_complete(coro_fn(loop))
        interrupted = False
        return out
    except Exception:
        interrupted = False
        raise
    finally:
        loop.shutdown(run_cancelled=not interrupted)


def _run_conc(case, fresh):
    """Serves the conversations of case["conc"] at the same time with ONE LLMRails instance: one asyncio task each (start
    offset, then its turns one after the other through generate_async) on a virtual-time loop."""
    cfg = case["config"]
    try:
        p = pipeline.get_pipeline(cfg, fresh=fresh)
        p.rails.events_history_cache.clear()
        _G["tick"] = 0
        subs, sessions, obs = [], [], []
        for i, conv in enumerate(case["conc"]):
            sub = {"config": cfg, "turns": conv["turns"], "api": "async"}
            s = _ConcSession(sub, cfg, T0_STEP * i, conv.get("lat") or {})
            s.messages = []
            s.state = {} if cfg["v"] == 2 else None
            subs.append(sub)
            sessions.append(s)
            obs.append([])

        async def one(i):
            if case["conc"][i].get("start"):
                await asyncio.sleep(case["conc"][i]["start"])
            for j in range(len(subs[i]["turns"])):
                obs[i].append(await p.turn_async(sessions[i], sessions[i].t0 + j))

        async def main(loop):
            await asyncio.gather(*[loop.create_task(one(i)) for i in range(len(subs))])

        _virtual(main)
        return p, subs, sessions, obs
    except BaseException:
        pipeline.reset_runtime()
        raise


def _check_conc(case, fresh=False):
    """Every conversation is judged on its own with the reference model of the sequential leg (`_check`): what the other
    conversations on the instance do meanwhile must not show in its rail trace, its prompts, its replies."""
    p, subs, sessions, obs = _run_conc(case, fresh)
    labels, views = set(), []
    for i, sub in enumerate(subs):
        try:
            res = _check(sub, pipeline.Observations(sub, sessions[i], obs[i], p), t0=sessions[i].t0)
        except Violation as e:
            others = [[c["start"], [t["user"][:40] for t in c["turns"]]] for k, c in enumerate(case["conc"]) if k != i]
            raise Violation(e.kind, f"[{len(subs)} conversations served at the same time by one LLMRails instance; conversation {i}, start offset {case['conc'][i].get('start', 0)}, latencies {case['conc'][i].get('lat')}; the others (start, texts): {others}] {e.msg}"[:1500], dict(e.detail or {}, conversation=i, leg="concurrent"))
        if res.get("skip"):
            return res
        labels.update(res["labels"])
        views.append(res["view"])
    # schedule facts: what ran, of ANOTHER conversation, between two consecutive steps of the input chain of a turn
    points = []  # (g, conversation, turn, kind)
    for i, s in enumerate(sessions):
        points += [(e["g"], i, e["turn"], "rail") for e in s.trace if "g" in e]
        points += [(c["g"], i, c["turn"], "llm") for c in s.llm_calls if "g" in c]
    points.sort()
    cfg = case["config"]
    between_rails = between_rail_and_llm = overlap = False
    for i, s in enumerate(sessions):
        for t in range(s.t0, len(s.turns)):
            own = [(e["g"], "rail") for e in s.trace if e["turn"] == t and e["cat"] == "in" and "g" in e]
            first_llm = [c["g"] for c in s.llm_calls if c["turn"] == t and c["task"] in GENERATION_TASKS and "g" in c][:1]
            steps = own + [(g, "llm") for g in first_llm]
            for (a, _ka), (b, kb) in zip(steps, steps[1:]):
                if any(a < g < b and k != i for g, k, _t, _kind in points):
                    if kb == "rail":
                        between_rails = True
                    else:
                        between_rail_and_llm = True
            all_own = [g for g, k, tt, _kind in points if k == i and tt == t]
            if all_own and any(min(all_own) < g < max(all_own) and k != i for g, k, _t, _kind in points):
                overlap = True
    labels = {l for l in labels if not l.startswith("turns=")}
    labels.update(["leg=concurrent", f"conversations={len(subs)}", "turns-per-conversation=" + "/".join(sorted({str(len(x["turns"])) for x in subs}))])
    if between_rails:
        labels.add("another-conversation-ran-between-two-input-rails-of-a-turn")
    if between_rail_and_llm:
        labels.add("another-conversation-ran-between-the-last-input-rail-and-the-first-generation-call")
    labels.add("requests-overlap" if overlap else "requests-do-not-overlap")
    return ok(nt=between_rails or between_rail_and_llm, labels=sorted(labels), view={"config": cfg, "conversations": [{"start": c.get("start", 0), "lat": c.get("lat"), "turns": v["turns"]} for c, v in zip(case["conc"], views)]})


def _model(cfg, spec, t):
    """pipeline.model_input with the literal texts of exact references in the place of the markers they have none of:
    the user text `$name` of a reference turn stands for `UM{t}Z`, the product `$name` of rewriting rail i for `RWI{i}U{t}Z`.
    "literal": the texts that must be seen exactly (not just contained).  (A pre-rewrite literal that is part of the text a
    rail must see - `$i` in `$input_flows` - cannot be told from it: no must-not-carry check for that call.)"""
    m = pipeline.model_input(cfg, spec, t)
    sub = {}
    if spec.get("ref"):
        sub[m["orig"]] = spec["user"]
    for i, name in enumerate(spec.get("rw_ref") or []):
        if name is not None:
            sub[fakes.mk_rw_in(i, t)] = "$" + name
    ops = spec.get("norm") or []
    if any(ops):
        # case / whitespace normalisation: the texts are their own markers, spelled exactly - the user text stands for `UM{t}Z`,
        # what rail i makes of the text it is given for `RWI{i}U{t}Z`
        cur = sub[m["orig"]] = spec["user"]
        for i, c in enumerate(m["calls"]):
            if c["verdict"] == "rewrite":
                cur = sub[fakes.mk_rw_in(i, t)] = NORM_OPS[ops[i]](cur) if i < len(ops) and ops[i] else fakes.rw_in_text(i, t)
    f = lambda x: sub.get(x, x)  # noqa: E731
    calls = [{"rail": c["rail"], "sees": f(c["sees"]), "not": (f(c["not"]) if c["not"] and f(c["not"]) not in f(c["sees"]) else None), "verdict": c["verdict"]} for c in m["calls"]]
    final = f(m["final"])
    # "shown": what a prompt must show of the final text (a template may put it at the end of a line: outer white space is not asserted)
    return {"calls": calls, "blocked": m["blocked"], "final": final, "orig": f(m["orig"]), "literal": set(sub.values()), "shown": final.strip() if any(ops) else final, "norm": any(ops)}


def _merged_chain_problem(calls, entries, what):
    """Several flows (one per interaction loop) waited for the utterance: each of them hands the message to the input rails,
    so the recorded invocations must be a merge of k >= 1 complete copies of the reference chain - only rails of the chain,
    never rail i+1 more often than rail i at any point, all equally often at the end - and every invocation sees the text
    the chain says.  Returns (problem | None, k)."""
    exp = [c["rail"] for c in calls]
    got = [e["rail"] for e in entries]
    running = {r: 0 for r in exp}
    for r in got:
        if r not in running:
            return f"{what}: rail actions invoked {got}, reference model says (copies of) {exp}", 0
        running[r] += 1
        i = exp.index(r)
        if i > 0 and running[exp[i - 1]] < running[r]:
            return f"{what}: rail actions invoked {got}: {r} ran before {exp[i - 1]} had seen the message; reference model says (copies of) {exp}", 0
    if not got or len(set(running.values())) != 1:
        return f"{what}: rail actions invoked {got}, reference model says complete copies of {exp}", 0
    for e in entries:
        prob = pipeline.chain_problem([calls[exp.index(e["rail"])]], [e], what)
        if prob:
            return prob, 0
    return None, running[exp[0]]


def _ambiguous_literals(case, config=None):
    """Literal texts (`$name`) that are also part of ANOTHER text of the conversation (`$i` in `$input_flows`, `$user_message`
    inside a hostile text ...) or of a predefined message of the loaded configuration, which the library shows to the LLM as
    an example (shipped: bot response untrustworthy = "$bot_message \nCAUTION: ..."): finding such a literal somewhere says
    nothing about where it came from."""
    texts, lits = set(), set()
    for table in (getattr(config, "bot_messages", None), getattr(config, "user_messages", None)):
        for vals in (table or {}).values():
            texts.update(str(y) for y in (vals if isinstance(vals, (list, tuple)) else [vals]))
    for t, spec in enumerate(case["turns"]):
        texts.add(spec["user"])
        if spec.get("ref") or any(spec.get("norm") or []):
            lits.add(spec["user"])
        if any(spec.get("norm") or []):
            texts.update(x for x in _model(case["config"], spec, t)["literal"] if x != spec["user"])
        for i, name in enumerate(spec.get("rw_ref") or []):
            if name is not None:
                texts.add("$" + name)
                lits.add("$" + name)
            else:
                texts.add(fakes.rw_in_text(i, t))
    return {x for x in lits if any(x != y and x in y for y in texts)}


def _check(case, obs, t0=0):
    """Judges one conversation.  t0: number of the first turn (0 but in the concurrent leg, where the conversations on one
    instance get disjoint turn numbers - the markers are made of them); j = position of a turn in ITS conversation."""
    cfg = case["config"]
    v = cfg["v"]
    labels = [f"v{v}", ("llm-continuation" if cfg["dialog"] == "llmc" else "dialog") if cfg["dialog"] else "general-mode", f"in-rails={len(cfg['in'])}", f"turns={len(case['turns'])}", case.get("api", "sync")]
    if cfg["exc"]:
        labels.append("rails-exceptions")
    if v == 2:
        labels.append("v2-" + cfg.get("style", "config"))
    for l in cfg.get("listeners") or []:
        labels += [f"v2-listeners={len(cfg['listeners'])}", "listener-does=" + l["do"], "listener-awaits=" + on_label(l["on"])]
    if len({l["loop"] for l in cfg.get("listeners") or []}) == 2:
        labels.append("three-interaction-loops")
    if cfg.get("main_on") and all(l["on"] != "any" for l in cfg.get("listeners") or []):
        labels.append("no-flow-awaits-any-utterance")
    if cfg.get("main_on"):
        labels.append("main-loop-flow-awaits=" + on_label(cfg["main_on"]))
    if cfg.get("in_exc"):
        labels.append("exception-types=" + ("mixed" if len({exc_type(cfg, i) for i, k in enumerate(cfg["in"]) if k != "rewrite"}) > 1 else "one"))
    if "self" in cfg["in"]:
        labels.append("shipped-self-check-input")
    if cfg.get("in_rej"):
        labels.append("not-allowed-results=" + "+".join(sorted({reject_how(cfg, i) for i, k in enumerate(cfg["in"]) if k in ("check", "both")})))
    family = {"check": "$allowed", "self": "$allowed", "both": "$vf_checked"}  # the verdict variable of the rail flow
    truthy_before = set()  # verdict variables that an earlier judged turn left holding a truthy value
    if cfg.get("passthrough"):
        labels.append("passthrough" + ("+dialog" if cfg["dialog"] else ""))
    nt = False
    rewritten_before = []  # (turn, original marker) of earlier turns whose text was rewritten
    norm_origs = set()  # ... the exact spellings of those a rail normalised (case / white space)
    dead_after = None
    raw_mode = bool(cfg.get("passthrough")) and not cfg["dialog"]  # the LLM is handed the caller's message list
    sent_plain, sent_any = set(), set()  # markers of texts that went through un-rewritten / that were sent at all
    ambiguous = _ambiguous_literals(case, getattr(obs.pipeline, "config", None))
    varied = False  # some call so far used other generation options than the first one: the history may be the caller's messages
    off_before = False  # an earlier call of the conversation switched the input rails off
    for j, (spec, o) in enumerate(zip(case["turns"], obs.turns)):
        t = t0 + j
        if o["raised"]:
            if pipeline.EVENT_BUDGET in o["raised"]:
                return ok(skip="v1 runtime gave up: more than 100 new events in one turn (documented safety limit)", labels=["event-budget-exceeded"])
            raise RuntimeError(f"generate raised in turn {t}: {o['raised']}")
        if spec.get("burst"):
            lb, n = _judge_burst(cfg, spec, o, t, f"v{v} turn {t} (two user messages in one {'process_events' if case.get('api') == 'events' else 'generate'} call)")
            labels += lb + ["route=" + (spec["route"] if cfg["dialog"] else "general")]
            nt = nt or n
            continue
        m = _model(cfg, spec, t)
        opts = spec.get("options")
        varied = varied or opts != case["turns"][0].get("options")
        if opts is not None:
            labels.append("options:" + ("input-off" if not input_on(opts) else "log" if "rails" not in opts else "input-on") + ("" if "rails" not in opts else "-list" if isinstance(opts["rails"], list) else "-dict"))
        if not input_on(opts):
            # this call switched the input rails off itself: not judged (C16); its text went through as it was sent
            off_before = True
            sent_plain.add(m["orig"])
            sent_any.add(m["orig"])
            continue
        if off_before:
            labels.append("input-on-after-input-off-call")
            nt = True
        if varied:
            labels.append("options-differ-between-calls")
        if spec.get("ref"):
            labels.append("user-text=$" + ("defined-variable" if spec["user"][1:] not in UNDEF_REF_NAMES else "undefined-name"))
            nt = nt or j >= 1
        if any(spec.get("rw_ref") or []):
            labels.append("rewrite-product=$variable")
        if m["norm"]:
            done = sorted({op for op, c in zip(spec["norm"], m["calls"]) if op and c["verdict"] == "rewrite"})
            if done and m["blocked"] is None:
                a, b = m["orig"], m["final"]
                if a == b:
                    diff = "nothing"
                elif "".join(a.split()) == "".join(b.split()):
                    diff = "outer-whitespace-only" if a.strip() == b.strip() else "whitespace"
                else:
                    diff = "case" if b in (a.upper(), a.lower()) else "case+whitespace"
                labels += ["rewrite-kind=normalisation-of-the-users-own-text", "normalised-text-differs-by=" + diff] + ["normalisation=" + op for op in done]
                if m["final"] != m["orig"] and any(c["task"] != "self_check_input" for c in o["llm"]):
                    labels.append("normalised-text-reached-a-prompt")
                    nt = True
        entries = [e for e in o["trace"] if e["cat"] == "in"]
        what = f"v{v} turn {t} (verdicts {spec['in']}" + (f", options {opts}" if opts is not None else "") + ")"
        loops = waiting(cfg, spec) if v == 2 else ["main"]  # interaction loops of the flows that wait for this text
        heard = len(loops) >= 2
        copies = 1
        if v == 2 and cfg.get("listeners"):
            labels.append(f"heard-by={len(loops)}-flows" + ("" if "main" in loops else "-none-in-main-loop"))
        if heard:
            what = f"{what[:-1]}, heard by {len(loops)} flows in {len(set(loops))} interaction loops)"
            prob, copies = _merged_chain_problem(m["calls"], entries, what)
            nt = nt or len(cfg["in"]) >= 2
        else:
            prob = pipeline.chain_problem(m["calls"], entries, what)
        if prob:
            raise Violation("input-rail-chain", prob, {"turn": t, "v": v, "no_rail_ran": not entries, "dead_after_backslash_turn": dead_after})
        if v == 2:
            # Colang 2.x rails are check-only: what a rail action is given IS the user message - its transcript, a str equal to
            # the text the caller sent - whatever the flow that heard it waits with (a literal, a pattern, nothing)
            for e in entries:
                if e.get("via") == "action" and (not isinstance(e["text"], str) or e["text"] != spec["user"] or (e.get("ctx") is not None and e["ctx"] != spec["user"])):
                    raise Violation("input-rail-chain", f"{what}: {e['rail']} was given {str(e['text'])[:80]!r} ({type(e['text']).__name__}; global $user_message {str(e.get('ctx'))[:80]!r}), it must be given the user message {spec['user'][:80]!r} itself", {"turn": t, "v": v})
            through = sorted({on_label(w) for w in [cfg.get("main_on") or "any"] + [l["on"] for l in cfg.get("listeners") or []] if w != "any" and "regex" in w and hears(w, spec["user"])})
            if through:
                labels += ["turn-heard-through-" + x for x in through] + ["turn-heard-through-a-pattern:" + ("rejected" if m["blocked"] is not None else "accepted")]
                nt = nt or len(cfg["in"]) >= 2 or m["blocked"] is not None
        by_rail = {c["rail"]: c for c in m["calls"]}
        for c, e in ((by_rail[e["rail"]], e) for e in entries):
            # a text that is exactly `$name` must be handed to the rail as it is (not the value of that variable, not a part of it)
            if c["sees"] in m["literal"] and (e["text"] != c["sees"] or (e.get("ctx") is not None and e["ctx"] != c["sees"])):
                raise Violation("input-rail-chain", f"{what}: {c['rail']} was given {str(e['text'])[:80]!r} (context variable {str(e.get('ctx'))[:80]!r}), the text to check is exactly {c['sees']!r}", {"turn": t, "v": v})
        if BS in spec["user"] and dead_after is None and not o["llm"] and not pipeline.reply_text(o) and m["blocked"] is None:
            dead_after = t  # F14 signature: the turn of a text with a backslash produced neither an LLM call nor a reply
        gen = [c for c in o["llm"] if c["task"] in GENERATION_TASKS]
        # (1) rails come first: every input-rail invocation precedes the first dialog/generation step
        later = [c["seq"] for c in gen] + [e["seq"] for e in o["trace"] if e["cat"] in ("dialog", "out", "ret")]
        if heard:
            # each waiting flow may go on once the rails accepted the message for it: the earliest step of any of them comes
            # after one complete pass of the chain (what a blocked turn may run is checked under (2))
            if m["blocked"] is None and entries and later:
                done = min(e["seq"] for e in entries if e["rail"] == m["calls"][-1]["rail"])
                if min(later) < done:
                    raise Violation("step-before-input-rails", f"{what}: a dialog/generation step ran before all the input rails had accepted the message", {"turn": t})
        elif entries and later and max(e["seq"] for e in entries) > min(later):
            raise Violation("step-before-input-rails", f"{what}: a dialog/generation step ran before the input rails had finished", {"turn": t})
        if len(cfg["in"]) and not entries:
            raise Violation("input-rail-chain", f"{what}: no input rail ran", {"turn": t})
        verdicts = [c["verdict"] for c in m["calls"]]
        if m["blocked"] is not None:
            i = m["blocked"]
            kind = cfg["in"][i]
            labels.append("blocked")
            if i > 0:
                labels.append("reject-after-" + ("rewrite" if "rewrite" in verdicts[:i] else "accept"))
                nt = nt or len(cfg["in"]) >= 2
            if j >= 1:
                labels.append("block-in-turn>=2")
                nt = True
            if heard:
                labels.append("blocked-while-heard-by>=2-flows")
                nt = True
            if v == 1 and kind in ("check", "both"):
                how = reject_how(cfg, i)
                labels.append("rejected-with-result=" + how)
                if how != "false":
                    if any(family.get(cfg["in"][k]) == family[kind] for k in range(i)):
                        labels.append("falsy-non-False-reject-after-a-rail-with-the-same-verdict-variable-accepted-in-this-turn")
                    if family[kind] in truthy_before:
                        labels.append("falsy-non-False-reject-after-an-earlier-turn-left-the-verdict-variable-truthy")
            # (2) nothing else sees the message
            if gen:
                raise Violation(
                    "llm-call-after-block",
                    f"{what}: rail in{i} rejected the message but the LLM was still called for {[c['task'] for c in gen]}",
                    {"turn": t},
                )
            if any(e["cat"] == "dialog" for e in o["trace"]):
                raise Violation("dialog-step-after-block", f"{what}: a dialog action ran although rail in{i} rejected the message", {"turn": t})
            # (3) the reply is that rail's refusal / rail exception
            text = pipeline.reply_text(o)
            if cfg["exc"]:
                want = block_message("in", i, kind)
                typ = exc_type(cfg, i)  # the event type this rail raises (shipped / default: InputRailException)
                labels.append("blocked-exception-type=" + (typ if typ == EXC_DEFAULT else "other-...RailException" if typ.endswith("RailException") else "other-...Exception"))
                evs = [e for e in pipeline.reply_exceptions(o) if e.get("type") == typ]
                if not any(e.get("message") == want for e in evs):
                    raise Violation("refusal-missing", f"{what}: expected the rail exception {typ} with message {want!r}, reply was {o['reply']!r}"[:600], {"turn": t})
                if v == 1 and (not isinstance(o["reply"], dict) or o["reply"].get("role") != "exception"):
                    raise Violation("refusal-missing", f"{what}: the reply to a message rejected with {typ} must have the role 'exception', got {o['reply']!r}"[:600], {"turn": t})
                if fakes.lineage(text):
                    raise Violation("llm-text-after-block", f"{what}: reply carries LLM text {text[:80]!r}", {"turn": t})
                if DIALOG_TEXT_RE.search(text):
                    raise Violation("dialog-text-after-block", f"{what}: reply carries a dialog message {text[:80]!r} although rail in{i} rejected the message", {"turn": t})
            else:
                want = refusal_text("in", i, kind)
                rep = o["reply"]
                # (every flow that waited for the message is refused by the rail: the refusal, once per pass of the chain at most)
                lines = text.strip().split(chr(10)) if copies > 1 else [text.strip()]
                if not isinstance(rep, dict) or rep.get("role") != "assistant" or len(lines) > copies or any(x.strip() != want for x in lines):
                    raise Violation("refusal-missing", f"{what}: rail in{i} rejected, the reply must be its refusal {want!r}, got {rep!r}"[:600], {"turn": t})
        else:
            if "rewrite" in verdicts:
                jr = verdicts.index("rewrite")  # (not `j`: that is the position of the turn in its conversation)
                if jr < len(verdicts) - 1:
                    labels.append("rewrite-then-" + ("rewrite" if "rewrite" in verdicts[jr + 1:] else "accept"))
                    nt = True
                else:
                    labels.append("rewrite-last")
            elif len(verdicts) >= 1:
                labels.append("all-accept")
            if v == 1:
                # (4) every later stage sees only the rewritten text (statement: Colang 1.0).  The original marker may
                # legitimately be around when an earlier turn sent the same text and it was not rewritten then
                # (history), or - raw passthrough - when an earlier turn sent it at all (the caller's own messages).
                # With generation options that differ between the calls the history is the caller's messages as well.
                orig_elsewhere = m["orig"] in sent_plain or ((raw_mode or varied) and m["orig"] in sent_any) or m["orig"] in ambiguous
                for c in o["llm"]:
                    if c["task"] == "self_check_input":
                        continue  # its text is checked as part of the chain above
                    if m["final"] != m["orig"] and not orig_elsewhere and m["orig"] in str(c["prompt"]):
                        raise Violation(
                            "original-text-in-prompt",
                            f"{what}: the {c['task']} prompt contains the pre-rewrite user text ({m['orig']}); rewritten text carries {m['final']}",
                            {"turn": t},
                        )
                    if c["task"] in ("generate_user_intent", "generate_bot_message", "general", "self_check_output") and m["shown"] not in str(c["prompt"]):
                        raise Violation("user-text-missing-in-prompt", f"{what}: the {c['task']} prompt does not contain the current user text ({m['final']})", {"turn": t})
                    if c.get("messages"):
                        # the LLM input was a message list (passthrough): its last message is this turn's user message
                        last = str(c["messages"][-1].get("content"))
                        if m["final"] not in last or (m["final"] != m["orig"] and m["orig"] in last and m["orig"] not in m["final"]) or (m["final"] in m["literal"] and last != m["final"]):
                            raise Violation(
                                "original-text-in-prompt",
                                f"{what}: the last message handed to the LLM is {last[:100]!r}; the input rails left the text carrying {m['final']}",
                                {"turn": t},
                            )
                        labels.append("llm-input-is-message-list")
                for e in o["trace"]:
                    if e["cat"] == "out" and e.get("user_ctx") is not None and (m["final"] not in str(e["user_ctx"]) or (m["final"] in m["literal"] and e["user_ctx"] != m["final"])):
                        raise Violation("original-text-in-context", f"{what}: an output rail saw $user_message = {str(e['user_ctx'])[:80]!r}", {"turn": t})
        if v == 1:
            for k, c in zip(cfg["in"], m["calls"]):
                if k in family:
                    (truthy_before.add if c["verdict"] != "reject" else truthy_before.discard)(family[k])
            n_other = spec.get("between") or 0
            if n_other:
                labels.append("other-conversations-on-the-instance-before-this-turn=" + ("1-3" if n_other <= 3 else "70+"))
                if not raw_mode and not varied and any(orig not in sent_plain and orig != m["orig"] and orig not in ambiguous for _s, orig in rewritten_before):
                    labels.append(("few" if n_other <= 3 else "many") + "-other-conversations-between-a-rewritten-turn-and-this-turn")
                    nt = True
            elif j >= 1 and any(x.get("between") for x in case["turns"]):
                labels.append("other-conversations-on-the-instance-before-this-turn=0")
        # (5) later turns never see the original of a rewritten earlier message (Colang 1.0; not in raw passthrough
        #     mode, where the LLM is handed the caller's own message list)
        if m["final"] == m["orig"]:
            sent_plain.add(m["orig"])
        sent_any.add(m["orig"])
        if v == 1 and not raw_mode:
            for s, orig in rewritten_before if not varied else ():
                if orig in sent_plain or orig == m["orig"] or orig in ambiguous:
                    continue  # (this turn carries the same text itself: check (4) and the chain check speak for it)
                if orig in norm_origs and o["llm"]:
                    labels.append("prompts-of-a-later-turn-after-a-rail-normalised-the-text-of-turn")
                    nt = True
                for c in o["llm"]:
                    if orig in str(c["prompt"]):
                        raise Violation(
                            "original-text-in-later-prompt",
                            f"v1 turn {t}: the {c['task']} prompt contains the original text of turn {s} ({orig}) that an input rail had rewritten",
                            {"turn": t},
                        )
            if "rewrite" in verdicts:
                rewritten_before.append((t, m["orig"]))
                if m["norm"]:
                    norm_origs.add(m["orig"])
        if spec.get("redo"):
            labels.append("turn-replaces-previous-turn")
            nt = nt or bool(rewritten_before)
        if "umark" in spec:
            labels.append("repeated-user-text")
            prev = _model(cfg, case["turns"][j - 1], t - 1)
            if spec["user"] == case["turns"][j - 1]["user"]:
                labels.append("same-text-as-previous-turn:" + ("unchecked" if not input_on(case["turns"][j - 1].get("options")) else "rejected" if prev["blocked"] is not None else "passed") + "-then-" + ("rejected" if m["blocked"] is not None else "passed"))
                nt = True
        labels.append("route=" + (spec["route"] if cfg["dialog"] else "general"))
    return ok(nt=nt, labels=sorted(set(labels)), view=pipeline.view(case, obs))


def prop(case):
    if "conc" in case:
        try:
            return _check_conc(case, fresh=False)
        except Violation as first:
            # as vf.pipeline.run_checked: a violation seen on a reused instance must reproduce on a fresh one
            try:
                _check_conc(case, fresh=True)
            except Violation:
                raise
            raise RuntimeError(f"harness: violation seen only on a reused LLMRails instance, not on a fresh one: {first}")
    try:
        return _check(case, _run_seq(case, fresh=False))
    except Violation as first:
        # (vf.pipeline.run_checked) a violation seen on a reused instance must reproduce on a fresh one
        try:
            _check(case, _run_seq(case, fresh=True))
        except Violation:
            raise
        raise RuntimeError(f"harness: violation seen only on a reused LLMRails instance, not on a fresh one: {first}")
    except Exception as e:
        pipeline._dump(case, e)
        raise


def known(case, violation):
    """C01-F14 (found by this check, fixed in /repo since; the classifier only matters if it is listed as open again): Colang 2.x, a user text with a backslash sequence that is not a valid escape of a Python literal
    (backslash-u, backslash-x, a trailing backslash ...) raises in `_log_action_or_intents` when `user said ...`
    finishes; the exception escapes run_to_completion, the turn gets no reply and every later turn is dead: no input
    rail runs any more."""
    d = violation.detail or {}
    if violation.kind == "input-rail-chain" and d.get("v") == 2 and d.get("no_rail_ran") and d.get("dead_after_backslash_turn") is not None:
        return "C01-F14"
    return None
