"""C17 - arbitrary LLM output never breaks a turn and is treated as data.

Domain : mode (Colang 1.0: three-step dialog pipeline, single-call mode `rails.dialog.single_call.enabled`, multi-step
         generation `enable_multi_step_generation`, passthrough with and without dialog rails, general mode, three-step with
         the shipped self-check rails; Colang 2.x: `llm continuation` = intent detection + flow continuation, the one-call
         variant `continuation on unhandled user utterance`, value generation `$x = ..."instruction"` uttered as `bot say $x`,
         value generation of 2-3 values uttered through ONE interpolated string `"P0: {$v0} / P1: {$v1}"` (mode v2interp: the
         placeholders in every order / repeated, through `bot say` or the UtteranceBotAction itself), PassthroughLLMAction)
         x conversation of 1-3 turns + one benign closing turn x for every turn a dialog route x a set of *placements*
         `[turn, k, spec]`: the k-th LLM call of that turn returns, instead of the well-formed completion,
           raw   - a text of the hostile corpus (RAW below: empty, whitespace, quotes, prefixes, Colang 1/2 fragments, Jinja,
                   `$var`, control characters, 50k characters, non-ASCII, wrong-format single-call answers, backslashes, Python
                   expressions for value generation ...),
           msg   - a *message payload*: template/variable syntax next to the call's marker, wrapped in whatever format the
                   task at that position expects (`  "<marker> {{ 7*7 }} ..."`, `bot action: bot say "<marker> ..."`, a Python
                   string literal for value generation), so that the syntax arrives at a message-text position,
           mut   - edit operations (drawn as data) applied at run time to the well-formed completion of that position,
           ctl   - a *control string*: a literal message text the tree treats specially (CTL below: `(remove last message)`,
                   `...`, the `<<STREAMING[..]>>` placeholder, the fixed fallback texts) as the exact message text - no marker -
                   in the format of the task; a fifth of the Colang 1.0 cases put one at the FIRST bot utterance of a turn,
           int   - (Colang 1.0 dialog modes) a *hostile bot intent* (INTENTS below) in the format of the task that names the bot
                   intent: `bot <intent>` at the next-step call, the first or a later step of a multi-step flow, the second line
                   of a single-call completion: nothing before a message / a comma (`bot "text"`, `bot ,`: the documented
                   clean-up leaves an empty intent), `bot $<variable>` naming a context variable whose value is not a string
                   (`$event` - always a dict -, `$relevant_chunks_sep`, `$retrieved_for`, `$skip_output_rails`, or a variable
                   of type int / float / bool / list / dict / null that the caller's context message plants: case["ctx"]).
           dat   - a *plain-data message text* (DATA below): no template and no Colang syntax, but awkward for code that
                   post-processes or stores a completion: a LONE UTF-16 SURROGATE (half of an escaped emoji, what a JSON decoder
                   yields for a completion cut in the middle of one; high / low / reversed pair / doubled / alone) and the
                   REASONING-TRACE TOKENS `<think>` / `</think>` in every arrangement that is not one well-formed block (opened and
                   never closed = truncated, closed before opened, only mentioned, closed block followed by an open one, a
                   partial token) - as the message text in the format of the task (bare at a non-message task), with the call's
                   marker; the same two families are raw corpus classes (`surrogate-*`, `think-*`: any task, as they are) and
                   insertion tokens of the mutations.  Texts with a surrogate travel ESCAPED in the case (`\\ud83d` as six
                   ASCII characters, spec flag `esc`) and are decoded when the answer is returned: a case is plain ASCII JSON.
         Plain-data shape (a quarter of the cases without another shape, every mode): the FINAL bot message of one, two or all
         turns is a dat text (the same in every turn or another in each; two fifths surrogates only, two fifths think tokens
         only), the turn taking a route whose message the LLM writes.  User texts and markers contain no ':' and start with a
         letter, the caller passes no `state` in Colang 1.0: such conversations take the plain form of the implicit history
         cache key (measured: labels `lone-surrogate-replies=<n>`, `lone-surrogate-reply:history-key-plain|json`).
         Repeated shape (a third of the multi-turn Colang 1.0 cases): the SAME hostile answer at the same call position of two
         or three turns of the conversation (consecutive, around a well-formed turn, after one), half of them drawn from the
         classes that leave no usable bot intent - the answers that make the generation action itself fail, so that the
         conversation continues after a turn that was answered with the fixed internal-error reply and hidden from the history,
         and fails in the same way again (label `internal-error-turns=<n>:<mode>`, measured from the replies).
         In mode v2interp two thirds of the cases let the answer for value k spell out the placeholder of value j (`{$vj}`,
         `$vj`, `{vj}`; j later / earlier / k itself) exactly as the flow's string writes it (classes peer-placeholder-*).
         Literal dimension (two thirds of the v2value / v2interp cases, an eighth of the Colang 1.0 dialog cases, one alternative
         of every free placement): the value-generation call answers with a BUILT Python container literal = leaf (bytes /
         complex / Ellipsis - values no flow variable can hold - or str / int / float / None / bool / inf / `()`) x 0-2 tuples
         around the leaf x the slot it takes (list item, tuple item, set item, dict value, dict KEY, second dict key) x 0-3
         outer wrappers (list, tuple, dict value): classes `py-lit:<family>@<slot>[-in-tuple]`, labels `literal:...`,
         `literal-depth=<n>`.  Only the general oracle applies (generate returns a well-formed message, here and in later turns).
         Value-message dimension (cfg key valmsg, two fifths of the Colang 1.0 dialog cases): the flow of route `value` utters the generated
         value through a PREDEFINED bot message that mentions the variable (`"Your value is $val."`, variant val-last: also
         `$last_bot_message`) instead of `bot $val`; half of them with a template payload as the generated value (and, half of those,
         another payload in the LLM-written bot message of the turn before); enumerated first over mode x payload (x payload).
         A `context` message plants `secret_var = "S3CR3T"` in every conversation.
Harness: vf.fakes (ScriptedLLM, fake embeddings, Session) + a subclass of vf.pipeline.Pipeline that builds the extra
         configurations (single-call, multi-step, passthrough, value generation), plants the context message and keeps the
         traceback of an escaping exception.  Everything goes through LLMRails.generate / generate_async.
Oracle : every turn: `generate` returns (no exception; no hang confirmed at 3x the limit); the value is
         {"role": "assistant", "content": str} or {"role": "exception", "content": {"type": str, ...}}; the benign closing turn
         too.  When a msg payload was returned at a message-text task (generate_bot_message, general/passthrough reply,
         single-call message, v2 flow-continuation `bot say` text, v2 generated value that is uttered) and the reply of that turn
         carries the call's marker, the reply contains the payload literally and neither `S3CR3T` nor (for `7*7` payloads) `49`.
         The same holds for every *later* turn whose reply carries that marker again: the stored LLM text may resurface through
         a variable-style bot intent (`bot $last_bot_message`, `bot $bot_message`; corpus classes `echo-*`, generated together
         with an earlier payload placement) - resolving the variable to the stored text is by design, evaluating that text is not.
Not asserted (DESIGN 4/C17 S): the fixed internal-error replies are well-formed messages (their frequency is reported per mode
         as label/counter `internal-error:<mode>`); a `$var` in a generated *bot intent* is resolved by design (turns in which
         a non-message position returned `secret_var` are exempt from the S3CR3T test); what a hostile answer does to the
         dialog (which intent, which message) is unspecified; an empty reply is a well-formed message (counted, also for
         the benign closing turn: `empty-reply|<mode>|benign-turn` = conversations that a hostile answer left without voice).
Found on the unchanged tree (see `known`, replays/known/C17/): C17-F7a..e multi-step generation (un-guarded second parse of the
         generated flow, IndexError on a flow without an immediate step, `Too many events.`, KeyError for `do <unknown>`, hang
         of slide() on a jump cycle); C17-F7f/g Colang 2.x string evaluation applied to the text of a generated `bot say`
         (`$name` -> `var_name`, `{...}` interpolated); C17-F7h generated value of a type the state serializer rejects.
         Found, not yet listed in known_findings.json (inputs withheld from generation until listed, see PENDING_*): C17-F7i
         multi-step generation, an expression of the generated flow fails (`$x = 1/0`, `if $undefined.foo`): the exception escapes
         generate(); C17-F7j llm continuation, the body generated for an undefined flow starts that flow again: generate() never
         returns; C17-F7k `{{` / `}}` inside a generated value collapse when the flow interpolates the value into a string.
"""
import json
import os
import re
import signal
import traceback

import yaml
from hypothesis import strategies as st

from vf import core, fakes, pipeline
from vf.core import Violation, ok
from vf.fakes import PREDEF, mk_llm, mk_user

import nemoguardrails  # noqa: F401  (multi-second import: at module import time, never under the case watchdog)

PID = "C17"
LEVEL = "exploration"
CASE_TIMEOUT = 40
HANG_IS_VIOLATION = True
WALL = {"quick": 150, "thorough": 1400}
SECRET = "S3CR3T"
BS = chr(92)

RULE = (
    "case = mode (v1: three-step / single-call / multi-step generation / passthrough / passthrough+dialog / general / three-step with "
    "shipped self-check rails; v2: llm continuation / one-call continuation / value generation uttered as a variable / 2-3 generated values "
    "uttered through one interpolated string (v2interp: placeholder order and repetition, `bot say` or the action, as configuration dimensions) / PassthroughLLMAction) x 1-3 turns "
    "with a dialog route each + a benign closing turn x 1-4 placements [turn, k, spec]: the k-th LLM call of the turn answers with a "
    "hostile-corpus text (raw; optionally sticky = repeated for every later call of that turn), a template/variable payload wrapped in the format of the task at that position (msg), or a run-time "
    "mutation of the well-formed answer (mut: delete/insert/replace/duplicate/truncate/re-indent/unquote operations drawn as data), or a control "
    "string (ctl: a literal text the tree special-cases - `(remove last message)`, `...`, the streaming placeholder, fallback texts - as the exact "
    "message text in the task's format; a fifth of the v1 cases place one at the first bot utterance of a turn whose first message the LLM writes), "
    "or a plain-data message text (dat: a lone UTF-16 surrogate - high, low, reversed pair, doubled, alone; stored escaped in the case and decoded when returned - or the "
    "reasoning-trace tokens <think> / </think> in an arrangement that is not one well-formed block - never closed, closed before opened, only mentioned, a closed block followed "
    "by an open one, a partial token - with the call's marker, as the message text in the format of the task, bare at a non-message task; the same two families are raw corpus "
    "classes surrogate-* / think-* returned as they are at any task, and insertion tokens of the mutations), "
    "or (v1 dialog modes) a hostile bot intent in the format of the task that names the bot intent (int: `bot <intent>` at the next-step call, as the first or a later "
    "step of a multi-step flow, as the second line of a single-call completion; classes: nothing before a message or a comma = empty intent after the documented "
    "clean-up, `$variable` naming a context variable whose value is not a string - `$event`, `$relevant_chunks_sep`, `$retrieved_for`, `$skip_output_rails` or a "
    "planted one -, unknown / dotted names, a lone `$`); a third of the v1 cases (and every case whose bot intent names one) plant variables of type int, float, "
    "bool, list, dict and null next to secret_var in the caller's context message (label context:non-string-variables-planted). "
    "Plain-data shape (a quarter of the cases that have no other shape, every mode): the final bot message of one, two or all turns of the conversation (turn sets 0 / 1 / 0+1 / 0+2 / "
    "1+2 / 0+1+2) is a dat text - the same one in every such turn or another one in each, two fifths of the cases surrogates only, two fifths think tokens only - at the call that "
    "writes the (first) bot message of a route whose message the LLM writes (llm, next_llm, lp, ll, act_llm; single call; general / passthrough; v2 flow continuation / value); user "
    "texts and markers contain no ':' and do not start with '{' or '[', and the v1 caller passes no state, so these conversations take the plain form of the implicit history cache "
    "key (measured from the conversation: labels reply-with-lone-surrogate:<mode>, lone-surrogate-replies=<n>, lone-surrogate-reply:history-key-plain|json, "
    "reply-with-unclosed-think:<mode>, <family>:<kind>:<task>, plain-data:<task>; counters surrogate|mode|task|k|kind, think|..., surrogate-reply|mode|key form|turns). "
    "Repeated shape (a third of the multi-turn v1 cases, label same-answer-in-turns=<n>): the same hostile answer at the same call position of two or three turns "
    "of one conversation (turns 0+1, 0+2, 1+2, 0+1+2; the repeated turns take the same route), half of the answers drawn from the classes that leave no usable bot "
    "intent at the intent-naming position, i.e. the answers that make the generation action fail: the share of conversations in which two or more turns ended in "
    "the fixed internal-error reply is measured from the replies (label internal-error-turns=<n>:<mode>, counter internal-error-turns>=2|<mode>); "
    "two thirds of the v2interp cases make the answer for value k spell out the placeholder of value j of the same string (`{$vj}` / `$vj` / `{vj}`, "
    "j later, earlier or k itself: classes peer-placeholder-<style>:<later|earlier|own>); "
    "literal dimension: two thirds of the v2value / v2interp cases (one or two value-generation calls of the conversation), an eighth of the v1 dialog cases "
    "(call 1 of a turn of route `value`: `$val = ...`) and one alternative in eight/nine of every free placement answer with a Python container literal built from "
    "data: leaf (two thirds a value no flow variable can hold: bytes, empty bytes, complex, complex sum, Ellipsis; else str with the call's marker, int, float, None, bool, "
    "1e400, the empty tuple) x 0-2 tuples around the leaf x slot in its container (list item, tuple item, set item, dict value, dict key, second dict key; key slots "
    "doubled) x 0-3 outer wrappers (list, list tail, tuple, dict value under a str / int key), i.e. nesting depth 1-6 (classes py-lit:<holdable|unholdable-bytes|-complex|-ellipsis>@<slot>[-in-tuple], "
    "labels literal:<class>:<task>, literal-depth=<n>, counters lit|mode|task|leaf|slot); "
    "value-message dimension (configuration key valmsg, two fifths of the v1 dialog cases without self-check rails; labels config:value-through-predefined-message=<variant>, "
    "value-into-predefined-message:<kind>:<mode>, counters valmsg|mode|variant|kind:class): the flow of route `value` utters the generated value not as `bot $val` but through a PREDEFINED bot message "
    "written by the configuration's author that mentions the variable (`Your value is $val.`; variant val-last: the same message also mentions `$last_bot_message`); half of these cases use the shape "
    "`the value-generation call answers with a template payload as a Python string literal` (VALUE_PAYLOADS = the message payloads + a failing expression {{ 1/0 }}, unclosed {% for %} / {% if %}, a Jinja comment, "
    "an undefined call, `$val` / {{ val }} / `$last_bot_message` themselves), half of those with a second payload in the LLM-written bot message of the turn before (the text `$last_bot_message` then holds); "
    "the other half cross the dimension with every other shape (literals, mutations, raw corpus, repeated answers at the value call); "
    "enumerated FIRST: every v1 dialog mode x value payload for `$val` alone, and x (payload in the previous turn's LLM message, value payload) for val-last (quick: 9 payloads, two pairs per value payload; thorough: all 28 x 28). "
    "a context message plants secret_var. A third of the multi-turn v1 dialog cases use the stored-text shape: a payload in the LLM's "
    "message text of turn s and a variable-style bot intent (`bot $last_bot_message` / `$bot_message` / `$last_user_message`, also as "
    "the bot-intent line of a single-call answer) at the next-step position of a later turn. An enumerated core crosses the literal dimension with the value-generation calls (quick: 6 leaves x 6 slots x bare / inside a tuple, and the three unholdable "
    "leaf families x 6 slots under two wrapper chains, at the value of v2value; the unholdable part split over the first and the second value of v2interp; thorough: every leaf x "
    "slot x 0-2 tuples, plus wrapper chains for the unholdable leaves, at v2value, both values of v2interp and the `$val = ...` call of the four v1 dialog modes), every mode x "
    "call position x corpus class (raw incl. think-* / surrogate-*, payload, control string, plain-data text - quick: three surrogate and three think arrangements, thorough: all; v1 dialog modes: hostile bot intent, in multi-step mode as first and as later step) in the first turn, "
    "the repeated shape over every v1 mode x call position x (a core of the raw classes, one control string, the plain-data texts, the hostile bot intents) for turns 0+1 and over every pattern of turns "
    "for the hostile bot intents at the intent-naming position, control strings at the first utterance of the second turn for "
    "every v1 mode, every ordered pair (k, j) of the peer-placeholder shape over the v2interp configurations, and the stored-text shape over mode x first route x payload x echo intent. "
    "Non-trivial = at least one placement was consumed by an LLM call that really happened (measured from the call log); distinct by "
    "the set of (mode, task at the position, call index, corpus class) reached. counters `reach|mode|task|k|kind:class` are the "
    "histogram of consumed placements over the cases that held (cases that end in a violation or in a listed known finding are "
    "counted by the runner under known_finding_instances_seen / violating_cases_seen instead), `literal|mode|task|class` the "
    "payloads found literally in the reply, `internal-error|mode` and `empty-reply|mode|...` the frequencies of the fixed replies."
)
ASSUMPTIONS = [
    "the LLM is vf.fakes.ScriptedLLM (LangChain LLM subclass); embeddings are the registered fake provider; prompts are the shipped templates for openai/gpt-3.5-turbo-instruct",
    "the caller keeps the conversation like the server: v1 passes the context message + previous user messages and returned replies back, v2 hands back the returned state",
    "well-formed = dict with role 'assistant' and str content, or role 'exception' and a dict content with a str 'type'; the fixed internal-error replies and empty replies are well-formed (counted per mode)",
    "message-text positions: generate_bot_message, general / passthrough completions, the message line of a single-call completion, the string of a `bot say \"...\"` generated by v2 flow continuation, a v2 generated value that the flow utters (as `bot say $x` or interpolated into a string literal written by the flow author: `\"P0: {$v0} / P1: {$v1}\"`); bot/user intents and generated flow bodies are not message text",
    "a predefined bot message that mentions a variable (`$val`, `$last_bot_message`) shows the VALUE of the variable (documented: variables in bot messages); when the value is text the LLM wrote (the generated value of `$val = ...`, the stored previous bot message) that text is data: it appears in the reply as it is, template / variable syntax in it is not evaluated - the module's existing no-evaluation oracle (literal payload, no S3CR3T, no 49) applied to the reply that carries the call's marker, in the same turn (value) or a later one (stored message); nothing is asserted about the fixed words of the predefined message",
    "a `$variable` bot intent is resolved to the value of the context variable by design; what the reply is when that value is not a string (or when the intent is empty after the documented clean-up of `bot intent \"message\"` / `bot intent, more`) is unspecified - on the unchanged tree the generation action fails and the turn is answered with the fixed internal-error reply, which is a well-formed message; asserted is only that generate returns a well-formed message and does not raise, in that turn and in every later one",
    "built literal answers (py-lit:*): the source text is assembled at generation time from leaf / tuples / slot / wrappers and travels in the case; every one is accepted by ast.literal_eval; what the flow variable holds afterwards (the value, or nothing when the literal contains an element no variable can hold and the action fails) and what the bot then says is unspecified - asserted is only the statement's general part: generate returns a well-formed message and does not raise, in that turn and in every later turn (the Colang 2.x caller hands the returned state back, so a value that was accepted must also survive the state round trip); a literal that carries the call's marker in a str leaf is additionally subject to the existing no-evaluation tests (S3CR3T / 49), never to the literal-text test",
    "planted context variables (case[\"ctx\"]) are JSON values handed over in the caller's `context` message exactly like secret_var; pure passthrough mode runs without them (see below)",
    "control strings (ctl) carry no marker and no literal-text obligation: what `(remove last message)` or `...` does to the reply is the tree's documented special-casing; asserted is only that the turn completes with a well-formed message (an empty assistant message when the retracting string is the first utterance)",
    "plain-data texts (dat; raw classes surrogate-* / think-*) carry no literal-text obligation: a lone surrogate and a think token are plain data, not template or variable syntax - asserted is only the statement's general part: generate returns a well-formed message (the text itself or any other well-formed reply) and does not raise or hang, in that turn and in every later turn of the conversation; on the unchanged tree all 432 enumerated cases of the two families hold, the Colang 1.0 modes and PassthroughLLMAction return the text",
    "a text with a lone surrogate is stored escaped in the case (`\\ud83d`, six ASCII characters, spec flag `esc`; unesc() decodes it when the scripted LLM returns the answer), so that a replay file is ASCII JSON and reproduces whatever tool rewrites it; violation messages quote texts through repr(), the runner writes JSON with ensure_ascii",
    "the v1 caller of this check never passes `state` and its user texts / markers contain no ':' and start with a letter, so the conversation takes the plain form of the implicit history cache key unless an LLM text brings a ':' or a leading bracket in; which form a conversation with a surrogate reply took is measured and reported (history-key-plain|json), not assumed",
    "inputs that reach genuine defects found by this check but not listed in known_findings.json are withheld from generation until the id is listed (PENDING_RAW / PENDING_INTERP: C17-F7i expression errors in multi-step generated flows, C17-F7j self-starting generated Colang 2.x flows, C17-F7k `{{`/`}}` payloads in v2interp); VF_C17_PENDING=1 generates them regardless",
    "payloads at message positions contain no double quotes, newlines or backslashes (quote stripping, first-line rules and the documented backslash-n conversion would otherwise blur 'literally'); those characters are covered by the raw corpus without the literal-text oracle",
    "`Too many events.` (v1 safety limit of 100 events per turn) escaping `generate` counts as raising: the statement says never raises",
    "a violation seen on a cached LLMRails instance must reproduce on a fresh one, otherwise it is a harness error; dynamic flows that a case adds to the cached instance (v1 start_flow, v2 AddFlowsAction) are removed before the next case",
    "pure passthrough mode (`passthrough: true` without dialog rails) runs without the planted context variable: the raw message list is handed to the LLM call, which rejects the `context` role before any LLM output exists",
    "hang = generate not back after CASE_TIMEOUT (40 s; the slowest 50k-character case takes < 2 s) and again not after 3x on a fresh instance; multi-step cases whose corpus text spells a `goto`/`continue` cycle (text signature of the listed hang C17-F7e) use 6 s / 18 s so that the listed finding costs seconds per instance; cases with a reasoning-trace token among the placements and no 50k text (normal time well under 1 s, at most 3 s with the construction of a Colang 2.x instance under load) use 10 s / 30 s, so that a turn that never returns for such a text is reported within the quick tier's time",
]

# ------------------------------------------------------------------------------------------------
# modes -> configurations

V1_VALUE = """
define user ask value
  "give me a value"

define flow value
  user ask value
  # Extract a short value for the user.
  $val = ...
  bot $val
"""

# `valmsg` (configuration dimension of the Colang 1.0 dialog modes): the generated value is not uttered as `bot $val` but through
# a PREDEFINED bot message, written by the configuration's author, that MENTIONS the variable (`"Your value is $val."`) - the
# documented way of using an extracted value -; variant `val-last` lets the same predefined message also mention
# `$last_bot_message` (the stored text of the previous bot message, which the LLM wrote in an earlier turn).
V1_VALUE_MESSAGES = {
    "val": "Your value is $val.",
    "val-last": "Your value is $val. Before that I said: $last_bot_message",
}
VALMSG_INTENT = "inform value"


def v1_value_colang(cfg):
    vm = cfg.get("valmsg")
    if not vm:
        return V1_VALUE
    return V1_VALUE.replace("  bot $val\n", f"  bot {VALMSG_INTENT}\n") + f'\ndefine bot {VALMSG_INTENT}\n  "{V1_VALUE_MESSAGES[vm]}"\n'


V2_VALUE = """
flow main
  activate vf turn

flow vf turn
  user said something
  $answer = ..."Return a single string that answers the user."
  bot say $answer
"""

V2_LLMC1 = f"""
flow main
  activate automating intent detection
  activate continuation on unhandled user utterance
  activate vf greeting

flow vf greeting
  user expressed greeting
  bot express greeting

flow user expressed greeting
  user said "hi" or user said "hello there"

flow bot express greeting
  bot say "{PREDEF['greet']}"

"""

V2_INTERP_TEMPLATES = {2: ([0, 1], [1, 0], [0, 1, 0]), 3: ([0, 1, 2], [2, 0, 1], [0, 1, 2, 1])}  # orders in which the string names the values


def v2_interp_colang(cfg):
    """Colang 2.x flow that lets the LLM generate `vals` values and utters them through ONE interpolated string literal
    (`"P0: {$v0} / P1: {$v1}"`; the order / repetition of the placeholders is cfg["tpl"]), through `bot say` or the action."""
    lines = ["flow main", "  activate vf turn", "", "flow vf turn", "  user said something"]
    for i in range(cfg["vals"]):
        lines.append(f'  $v{i} = ..."Return a single string: part {i} of the answer for the user."')
    text = " / ".join("P%d: {$v%d}" % (j, j) for j in cfg["tpl"])
    lines.append(f'  await UtteranceBotAction(script="{text}")' if cfg.get("utter") == "action" else f'  bot say "{text}"')
    return "\n".join(lines) + "\n"


# mode -> (colang version, has dialog rails)
MODES = {
    "three": (1, True),
    "single": (1, True),
    "multi": (1, True),
    "pass": (1, False),
    "passdlg": (1, True),
    "general": (1, False),
    "v2llmc": (2, "llmc"),
    "v2llmc1": (2, "llmc"),
    "v2value": (2, False),
    "v2interp": (2, False),
    "v2pass": (2, False),
}
V1_MODES = [m for m, (v, _) in MODES.items() if v == 1]
V2_MODES = [m for m, (v, _) in MODES.items() if v == 2]
V1_ROUTES = ("predef", "llm", "pl", "lp", "ll", "next_llm", "next_predef", "act_llm", "value")
INTENT = dict((r, i) for r, (i, _) in fakes.ROUTES.items())
INTENT["value"] = "ask value"
FIRST_BOT = {"predef": "express greeting", "llm": "inform weather", "pl": "express greeting", "lp": "tell story", "ll": "tell first fact",
             "next_llm": "inform time", "next_predef": "offer help", "act_llm": "inform status", "value": "$val"}


def make_cfg(mode, self_rails=False, exc=False, vals=2, tpl=None, utter="say", valmsg=None):
    v, dialog = MODES[mode]
    cfg = {"v": v, "mode": mode, "dialog": dialog, "in": ["self"] if self_rails else [], "out": ["self"] if self_rails else [], "exc": bool(exc)}
    if v == 1:
        cfg["ret"] = 0
    else:
        cfg["style"] = "config"
    if mode == "v2interp":
        cfg.update(vals=int(vals), tpl=list(tpl) if tpl is not None else list(range(int(vals))), utter=utter)
    if valmsg and v == 1 and dialog:
        cfg["valmsg"] = valmsg  # (key present only when set: the configurations of earlier cases / replays keep their cache key)
    return cfg


def routes_for(cfg):
    if not cfg["dialog"]:
        return ("llm",)
    if cfg["v"] == 2:
        return ("predef", "llm")
    return V1_ROUTES


def build_config(cfg):
    """(colang, yaml) of a C17 configuration: vf.pipeline's generator + the mode-specific switches."""
    mode = cfg["mode"]
    if mode in ("v2llmc", "v2pass"):
        return pipeline.build_config(cfg)
    co, y = pipeline.build_config(cfg)
    y = yaml.safe_load(y)
    if cfg["v"] == 1:
        if cfg["dialog"]:
            co = co + "\n" + v1_value_colang(cfg)
        if mode == "single":
            y.setdefault("rails", {})["dialog"] = {"single_call": {"enabled": True}}
        elif mode == "multi":
            y["enable_multi_step_generation"] = True
        elif mode in ("pass", "passdlg"):
            y["passthrough"] = True
    elif mode == "v2value":
        co = "import core\nimport llm\n" + V2_VALUE
    elif mode == "v2interp":
        co = "import core\nimport llm\n" + v2_interp_colang(cfg)
    elif mode == "v2llmc1":
        co = "import core\nimport llm\n" + V2_LLMC1
    return co, yaml.safe_dump(y, sort_keys=False)


# ------------------------------------------------------------------------------------------------
# hostile corpus

M = "@M@"  # replaced by the marker of the call the text is returned at

RAW = {
    "empty": "",
    "whitespace": "   \n \t \n  ",
    "newlines": "\n\n\n",
    "lone-quote": '"',
    "two-quotes": '""',
    "lone-single-quote": "'",
    "triple-quote": '"""',
    "unterminated-quote": f'  "{M} never closed',
    "prefix-bot": "bot ",
    "prefix-user": "user ",
    "word-bot": "bot",
    "word-user": "user",
    "bot-newline": "bot\n  ",
    "co1-define-flow-bodyless": "define flow",
    "co1-define-flow-header": "define flow x",
    "co1-define-flow": "define flow x\n  user y\n  bot z",
    "co1-define-bot": f'define bot z\n  "{M} defined"',
    "co1-while-true": f"while True\n  bot {M} again",
    "co1-bot-while-true": "bot a\nwhile True\n  bot b",
    "co1-execute": "execute some_action",
    "co1-execute-params": 'execute some_action(x="1", y=$secret_var)',
    "co1-bot-execute": "bot a\nexecute some_action\nbot b",
    "co1-ellipsis": "...",
    "co1-assign-ellipsis": "$x = ...",
    "co1-bot-assign-ellipsis": "bot a\n# a value\n$x = ...\nbot $x",
    "co1-if-var": "if $secret_var\n  bot leak\nelse\n  bot other",
    "co1-bot-if": "bot a\nif True\n  bot b\nelse\n  bot c",
    "co1-bot-var-intent": "bot $secret_var",
    "echo-last-bot-message": "bot $last_bot_message",
    "echo-bot-message": "bot $bot_message",
    "echo-last-user-message": "bot $last_user_message",
    "echo-user-message": "bot $user_message",
    "echo-last-bot-message-twice": "bot $last_bot_message\nbot $last_bot_message",
    "echo-user-then-bot-message": "bot $last_user_message\nbot $last_bot_message",
    "single-echo-last-bot-message": f'  ask time\nbot $last_bot_message\n  "{M} unused"',
    "single-echo-bot-message": f'  ask time\nbot $bot_message\n  "{M} unused"',
    "single-echo-last-user-message": f'  ask time\nbot $last_user_message\n  "{M} unused"',
    "co1-stop": "stop",
    "co1-bot-stop": "bot a\nstop\nbot b",
    "co1-comment-only": "# just a comment",
    "co1-comments": "# a\n# b\n",
    "co1-user-first": 'user "hi"\n  express greeting\nbot express greeting',
    "co1-bot-user-bot": "bot a\nuser ask weather\nbot b",
    "co1-bot-inline-message": f'bot a\n  "{M} inline message"',
    "co1-bad-indent": "bot a\n      bot b\n  bot c",
    "co1-tab-indent": "bot a\n\tbot b",
    "co1-do": "do some subflow",
    "co1-bot-do": "bot a\ndo some subflow",
    "co1-set": "set $secret_var = 1",
    "co1-event": "event UtteranceUserActionFinished(final_transcript=\"x\")",
    "co1-create-event": "create event BotIntent(intent=\"x\")",
    "co1-goto-cycle": "label x\ngoto x",
    "co1-bot-goto-cycle": "bot a\nlabel x\ngoto x",
    "co1-while-continue": "while True\n  continue",
    "co1-while-if-false": "while True\n  if False\n    bot a",
    "co1-while-false": "while False\n  bot a\nbot b",
    "co1-break-alone": "break",
    "co1-many-steps": "\n".join(f"bot step {i}" for i in range(60)),
    "co1-bot-assign-div-zero": "bot a\n$x = 1/0\nbot b",
    "co1-assign-div-zero": "$x = 1/0\nbot b",
    "co1-bot-if-undefined-attr": "bot a\nif $undefined.foo\n  bot b",
    "co1-bot-assign-undefined-call": "bot a\n$x = no_such_function(1)\nbot b",
    "co1-bot-assign-ok": "bot a\n$x = 1 + 1\nbot b",
    "co1-when": "when user x\n  bot y",
    "co1-else-alone": "else\n  bot x",
    "co1-or": "bot a or bot b",
    "co1-bot-and-quote": f'bot a "{M} same line"',
    "co1-bot-comma": "bot a, then more",
    "co2-flow-send": "flow x\n  send Y()",
    "co2-await": "await SomeAction()",
    "co2-bot-action-only": f'bot action: bot say "{M} hi"',
    "co2-bot-intent-only": "bot intent: bot x",
    "co2-bot-action-send": f'bot intent: bot x\nbot action: send StartUtteranceBotAction(script="{M} sent")',
    "co2-bot-action-abort": "bot intent: bot x\nbot action: abort",
    "co2-bot-action-undefined-flow": "bot intent: bot x\nbot action: bot frobnicate the widget",
    "co2-bot-action-await-undefined": "bot intent: bot x\nbot action: await NoSuchAction()",
    "co2-bot-action-while": "bot intent: bot x\nbot action: while True",
    "co2-bot-action-undefined-and-say": f'bot intent: bot x\nbot action: bot gesture "x"\n  and bot say "{M} b"',
    "co2-bot-action-undefined-then-and-line": f'bot intent: bot x\nbot action: bot gesture "x"\nand bot say "{M} b"',
    "co2-flow-body-self-start": "  bot frobnicate the widget",
    "co2-flow-body-other-undefined": "  bot frobnicate another widget",
    "co2-bot-action-unbalanced": f'bot intent: bot x\nbot action: bot say "{M}',
    "co2-bot-action-paren": "bot intent: bot x\nbot action: bot say (",
    "co2-bot-action-python": "bot intent: bot x\nbot action: $x = __import__('os').getcwd()",
    "co2-bot-action-and": f'bot intent: bot x\nbot action: bot say "{M} one"\n  and bot gesture "wave"',
    "co2-bot-intent-keywords": f'bot intent: bot a and b or c as d (e) - 12\nbot action: bot say "{M} kw"',
    "co2-bot-intent-quote": f'bot intent: bot "x"\nbot action: bot say "{M} q"',
    "co2-bot-intent-flow": f'bot intent: flow\nbot action: bot say "{M} f"',
    "co2-bot-intent-empty": f'bot intent: \nbot action: bot say "{M} e"',
    "co2-bot-intent-existing": f'bot intent: bot express greeting\nbot action: bot say "{M} g"',
    "co2-bot-intent-main": f'bot intent: main\nbot action: bot say "{M} m"',
    "co2-user-intent-colon": 'user intent: user said "x"',
    "co2-user-intent-existing": "user expressed greeting",
    "co2-user-intent-keywords": "user a and b or (c) - 12 'd'",
    "co2-user-intent-no-prefix": "asked something",
    "co2-user-intent-bot-flow": "bot express greeting",
    "co2-user-intent-main": "main",
    "co2-colon": ":",
    "co2-colons": "a: b: c",
    "co2-regex": "user said regex(\"(\")",
    "jinja-expr": "{{ 7*7 }}",
    "jinja-var": "{{ secret_var }}",
    "jinja-stmt": "{% for x in range(3) %}a{% endfor %}",
    "jinja-stmt-open": "{% for %}",
    "jinja-comment": "{# c #}",
    "jinja-bot-intent": "bot {{ 7*7 }}",
    "dollar-var": "$secret_var",
    "brace-dollar-var": "{$secret_var}",
    "brace-var": "{secret_var}",
    "dollar-only": "$",
    "bot-dollar-only": "bot $",
    "bot-dollar-unknown": "bot $no_such_var",
    "format-string": "%s %d {0} {} %(x)s",
    "nul": "a\x00b",
    "bot-nul": "bot a\x00b",
    "control": "\x01\x02\x1b[31m\x7f\x08",
    "cr": "\r",
    "crlf": "bot a\r\n  \"x\"\r\n",
    "tabs": "\t\tbot x",
    "formfeed": "bot a\x0cb\x0b",
    "non-ascii": "bot réponse ☃ 你好 ‮ ",
    "non-ascii-quote": "“fancy quotes”",
    "unicode-linesep": "bot a bot b\u0085bot c",
    "backslash-path": "C:" + BS + "users" + BS + "new",
    "backslash-tail": "tail" + BS,
    "backslash-only": BS,
    "backslash-quote": '"a' + BS + '"',
    "backslash-n": f"{M} a" + BS + "n" + BS + "nb",
    "backslash-u": BS + "u12",
    "backslash-x": BS + "x",
    "bot-backslash": "bot a" + BS,
    "single-verbose": f'User intent: ask weather\nBot intent: inform weather\nBot message: "{M} verbose"',
    "single-intent-only": "  ask weather",
    "single-no-message": "  ask weather\nbot inform weather",
    "single-no-user-intent": f'bot inform weather\n  "{M} msg"',
    "single-unquoted": f"  ask weather\nbot inform weather\n  {M} unquoted message",
    "single-comments": f'# c\n  ask weather\n# d\nbot inform weather\n# e\n  "{M} msg"',
    "single-same-lines": "x\nx\nx",
    "single-bot-twice": f'  ask weather\nbot inform weather\nbot inform weather\n  "{M} msg"',
    "single-other-intent": f'  ask weather\nbot something else\n  "{M} msg"',
    "single-extra-turn": f'  ask weather\nbot inform weather\n  "{M} msg"\nuser "more"\n  ask more\nbot x\n  "y"',
    "py-expr": "7*7",
    "py-import": "__import__('os').getcwd()",
    "py-concat": f"'{M} ' + str(7*7)",
    "py-name": "secret_var",
    "py-open-list": "[1, 2",
    "py-none": "None",
    "py-int": "42",
    "py-float": "4.5",
    "py-bool": "True",
    "py-dict": "{'a': 1}",
    "py-list": f"['{M}', 2]",
    "py-tuple": "(1, 2)",
    "py-set": "{1, 2}",
    "py-bytes": "b'x'",
    "py-complex": "1+2j",
    "py-ellipsis-list": "[...]",
    "py-nested-set": "[{1, 2}]",
    "py-semicolon": f'"{M} semi";',
    "py-var-prefix": f'$answer = "{M} again"',
    "py-nested": "[" * 200 + "]" * 200,
    "py-big-int": "9" * 5000,
    "check-maybe": "maybe",
    "check-yes-bang": "YES!!",
    "check-no-yes": "no\nyes",
    "parens": "((((",
    "bot-paren": "bot inform (weather",
    "bot-call": "bot x(y=1",
    "brackets": "]]}}",
    "kw-bot-if": "bot if",
    "kw-bot-else": "bot else",
    "kw-bot-stop": "bot stop",
    "kw-bot-execute": "bot execute x",
    "kw-bot-define": "bot define flow",
    "kw-flow": "flow",
    "digits": "123",
    "bot-digits": "bot 123",
    "bot-punct": "bot !?.,;",
    "bot-dash": "bot a-b - c",
    "bot-meta": "bot a\n  meta\n    x: 1",
    "user-intent-quoted": 'user "ask weather"',
    "user-intent-user-prefix": "user ask weather",
    "markdown-fence": f"```colang\nbot a\n```\n{M}",
    "html": f"<script>alert(1)</script> {M}",
    "yaml-ish": "- a: 1\n  b: [",
    # reasoning-trace tokens that are NOT a well-formed `<think>...</think>` block: opened and never closed (a truncated
    # completion), closed before opened, the bare tokens, a text that merely mentions them
    "think-open-only": "<think>",
    "think-close-only": "</think>",
    "think-unclosed-truncated": f"<think>\nThe user asks something. I should {M}",
    "think-unclosed-then-answer": f'<think>\n  "{M} answer after an open trace"',
    "think-unclosed-tail": f'  "{M} answer"\n<think>',
    "think-reversed": f"</think>\n{M} answer first <think>",
    "think-closed-then-unclosed": f"<think>a</think>\n{M} b <think> c",
    "think-bot-intent": "bot <think>",
    "think-mention-quoted": f'  "{M} the token </think> closes what <think> opens"',
    "think-partial-token": f"<think {M} never a token",
    # lone UTF-16 surrogates (what a JSON decoder yields for a completion that was cut in the middle of an escaped emoji); the
    # text travels ESCAPED in the case (six ASCII characters `\ud83d`, see ESC / unesc) and is decoded when it is returned
    "surrogate-only": BS + "ud83d",
    "surrogate-low-only": BS + "ude00",
    "surrogate-quoted-message": f'  "{M} half an emoji {BS}ud83d"',
    "surrogate-unquoted-tail": f"{M} cut here {BS}ud83d",
    "surrogate-reversed-pair": f"{M} {BS}ude00{BS}ud83d swapped",
    "surrogate-bot-intent": f"bot inform {BS}ud83d",
    "surrogate-user-intent": f"  ask {BS}udc00 thing",
    "surrogate-single-call": f'  ask weather\nbot inform weather\n  "{M} sunny {BS}ud83d"',
    "long-words": None,  # built at run time: see LONG
    "long-line": None,
    "long-lines": None,
    "long-quoted": None,
    "long-bot-intent": None,
}
LONG = {
    "long-words": lambda m: m + " " + "lorem ipsum " * 4200,
    "long-line": lambda m: "A" * 50000,
    "long-lines": lambda m: "bot step\n" * 6000,
    "long-quoted": lambda m: '  "' + m + " " + "word " * 10000 + '"',
    "long-bot-intent": lambda m: "bot " + "very " * 10000 + "long",
}

# template / variable syntax for message-text positions: class -> (payload, what an evaluation would produce)
PAYLOADS = {
    "jinja-expr": "{{ 7*7 }}",
    "jinja-var": "{{ secret_var }}",
    "jinja-stmt": "{% for x in range(3) %}a{% endfor %}",
    "jinja-open": "{{ 7*7",
    "jinja-filter": "{{ secret_var | upper }}",
    "dollar-var": "$secret_var",
    "dollar-var-dot": "$secret_var.",
    "dollar-brace": "${secret_var}",
    "brace-dollar-var": "{$secret_var}",
    "brace-var": "{secret_var}",
    "brace-expr": "{7*7}",
    "brace-empty": "{}",
    "brace-open": "{ 7*7",
    "percent-format": "%(secret_var)s %s",
    "dollar-user-message": "$user_message",
    "jinja-user-message": "{{ user_message }}",
    "dollar-config": "$config",
    "double-brace-dollar": "{{$secret_var}}",
    "hash-comment": "# not a comment $secret_var",
    "dollar-unknown": "$no_such_var",
}
# control strings: literal message texts that the code under test treats specially (found by grepping the tree for literal
# texts compared with / searched in message texts): `(remove last message)` retracts the previous bot message of the turn
# (LLMRails.generate_async), `...` is the wildcard of Colang 1.0 message matching, `<<STREAMING[uid]>>` is the placeholder the
# single-call action puts in place of a message that is still being streamed, the fixed fallback texts.  A `ctl` placement
# returns the string as the *exact* message text (no marker), wrapped in the format of the task at that position.
CTL = {
    "ctl-remove-last-message": "(remove last message)",
    "ctl-remove-last-message-spaces": " (remove last message) ",
    "ctl-remove-last-message-upper": "(Remove last message)",
    "ctl-ellipsis": "...",
    "ctl-streaming-placeholder": 'Bot message: "<<STREAMING[x]>>"',
    "ctl-streaming-marker": "<<STREAMING[x]>>",
    "ctl-fallback-text": "I'm not sure what to say.",
    "ctl-none": "None",
}
CORE_CTL = ["ctl-remove-last-message", "ctl-ellipsis", "ctl-streaming-placeholder"]

# PLAIN-DATA message texts: texts without any template / Colang syntax that are nevertheless awkward for code that post-processes
# or stores a completion - a lone UTF-16 surrogate (half of an escaped emoji: a `str` that no strict codec can encode), and the
# reasoning-trace tokens `<think>` / `</think>` in any arrangement that is NOT one well-formed block (never closed = truncated
# completion, closed before opened, only mentioned).  A `dat` placement returns the text (with the call's marker) as the message
# text in the format of the task at that position - like a payload - or bare at a non-message task; no literal-text obligation
# (the statement promises that for template / variable syntax only): the general oracle applies, in that turn and in later ones.
# Texts with a surrogate are stored ESCAPED (`\ud83d` as six ASCII characters), so that a case / replay file stays plain ASCII
# JSON whatever tool writes it; unesc() decodes them when the answer is returned.
DATA = {
    "surrogate-high-tail": f"{M} cut in the middle of an emoji {BS}ud83d",
    "surrogate-high-mid": f"{M} half {BS}ud83d emoji",
    "surrogate-low-head": f"{BS}ude00 {M} second half first",
    "surrogate-reversed-pair": f"{M} {BS}ude00{BS}ud83d swapped",
    "surrogate-two-high": f"{M} {BS}ud83d{BS}ud83d twice",
    "surrogate-bare": BS + "udfff",
    "think-unclosed-head": f"<think> {M} I should answer",
    "think-unclosed-tail": f"{M} answer <think>",
    "think-reversed": f"{M} the token </think> closes what <think> opens",
    "think-mention-open": f"{M} a trace starts with <think> they say",
    "think-mention-close": f"{M} </think> alone",
    "think-closed-then-unclosed": f"<think>a</think> {M} b <think> c",
    "think-two-unclosed": f"<think> {M} <think>",
    "think-closed-block": f"<think>plan</think> {M} answer",
    "think-partial-token": f"<think {M} never a token",
}
CORE_DATA = ["surrogate-high-tail", "surrogate-low-head", "surrogate-reversed-pair", "think-unclosed-head", "think-reversed", "think-mention-open"]
ESC = re.compile(r"\\u([0-9a-fA-F]{4})")


def unesc(text):
    """`\\ud83d` (six ASCII characters in the case) -> the character U+D83D; applied to texts of specs flagged `esc` only."""
    return ESC.sub(lambda m: chr(int(m.group(1), 16)), text)


def has_surrogate(text):
    return any(0xD800 <= ord(ch) <= 0xDFFF for ch in text)


def family(c):
    """corpus family of a class name (labels): surrogate / think / None"""
    c = str(c)
    return "surrogate" if c.startswith("surrogate-") else "think" if c.startswith("think-") else None

# hostile BOT INTENTS: what the LLM names as the next bot intent, wrapped - like a message payload - in the format of the task at
# the position (`bot <intent>` at the next-step call, as the first or a later step of a multi-step flow, as the second line of a
# single-call completion; at any other task the bare line `bot <intent>`).  Classes: no intent at all before a message / a comma
# (the documented clean-up of `bot intent "message"` and `bot intent, more` leaves an empty intent), a `$variable` intent - which
# the pipeline resolves to the value of that context variable by design - naming a variable whose value is NOT a string (set by
# the runtime: `$event` is always a dict, `$relevant_chunks_sep` a list, `$retrieved_for` None, `$skip_output_rails` a bool; or
# planted by the caller through the context message: PLANTED below), names that may or may not be variables, a lone `$`.
INTENTS = {
    "int-only-message": f'"{M} hello"',
    "int-only-quote": '"',
    "int-comma": ",",
    "int-comma-more": ", then more",
    "int-space-comma-message": f' , "{M} hi"',
    "int-var-event": "$event",
    "int-var-runtime-list": "$relevant_chunks_sep",
    "int-var-runtime-none": "$retrieved_for",
    "int-var-runtime-bool": "$skip_output_rails",
    "int-var-config": "$config",
    "int-var-generation-options": "$generation_options",
    "int-var-relevant-chunks": "$relevant_chunks",
    "int-var-planted-int": "$num_var",
    "int-var-planted-zero": "$zero_var",
    "int-var-planted-float": "$float_var",
    "int-var-planted-bool": "$flag_var",
    "int-var-planted-list": "$list_var",
    "int-var-planted-empty-list": "$empty_list_var",
    "int-var-planted-dict": "$dict_var",
    "int-var-planted-null": "$null_var",
    "int-var-dotted": "$event.type",
    "int-var-unknown": "$no_such_var",
    "int-dollar-only": "$",
}
CORE_INTENTS = ["int-only-message", "int-comma", "int-var-event", "int-var-runtime-list", "int-var-runtime-none", "int-var-planted-int",
                "int-var-planted-zero", "int-var-planted-list", "int-var-planted-dict", "int-var-unknown"]
# the classes that by construction leave NO usable bot intent (empty after the documented clean-up) or resolve to a value that is
# not a string: the candidates for making the generation action itself fail (the turn is then answered with the fixed
# internal-error reply and hidden from the history); the repeated shape draws half of its answers from them
NO_USABLE_INTENT = ["int-only-message", "int-only-quote", "int-comma", "int-comma-more", "int-space-comma-message", "int-var-event", "int-var-runtime-list",
                    "int-var-planted-int", "int-var-planted-float", "int-var-planted-bool", "int-var-planted-list", "int-var-planted-dict"]
# variables of non-string JSON types that a case may plant through the context message (case["ctx"]; next to secret_var)
PLANTED = {"num_var": 4242, "zero_var": 0, "float_var": 2.5, "flag_var": True, "list_var": ["x", "y"], "empty_list_var": [], "dict_var": {"a": 1}, "null_var": None}

# LITERAL ANSWERS for the value-generation calls (`$x = ..."instruction"` in Colang 2.x, `$x = ...` in Colang 1.0: the answer goes
# through literal_eval): a Python literal BUILT from four dimensions drawn as data - a LEAF (a value no flow variable can hold:
# bytes / complex / Ellipsis; or a holdable one: str carrying the call's marker, int, float, None, bool, inf, the empty tuple),
# 0-2 TUPLES around the leaf (`(1, <leaf>)`, `((<leaf>,), 'k')` - still hashable), the SLOT the (wrapped) leaf takes in its
# container (list item, tuple item, set item, dict value, dict KEY, second dict key) and 0-3 outer WRAPPERS (list, list tail,
# tuple, dict value under a str / an int key).  So an offending element sits in every syntactic position of a container literal,
# in particular in key positions (`{b'k': 1}`, `{(1, 2j): 1}`, `[{'w': {...: 1}}]`), at every depth up to 6.
LIT_LEAVES = {
    "bytes": "b'x'", "bytes-empty": "b''", "complex": "2j", "complex-sum": "1+2j", "ellipsis": "...",
    "str": f"'{M} s'", "int": "7", "float": "2.5", "none": "None", "bool": "True", "inf": "1e400", "empty-tuple": "()",
}
LIT_FAMILY = {"bytes": "unholdable-bytes", "bytes-empty": "unholdable-bytes", "complex": "unholdable-complex", "complex-sum": "unholdable-complex", "ellipsis": "unholdable-ellipsis"}
LIT_TUPLES = ("%s", "(1, %s)", "((%s,), 'k')")
LIT_SLOTS = {
    "list-item": "[1, %s]",
    "tuple-item": "(%s, 2)",
    "set-item": "{%s, 1}",
    "dict-value": "{'a': %s}",
    "dict-key": "{%s: 1}",
    "dict-key-second": "{'a': 0, %s: 1}",
}
LIT_WRAPS = {"list": "[%s]", "list-tail": "[0, %s]", "tuple": "(%s,)", "dict-value": "{'w': %s}", "dict-value-int-key": "{1: %s}"}
CORE_LIT_LEAVES = ["bytes", "complex", "ellipsis", "str", "int", "none"]
CORE_LIT_WRAPS = [["dict-value", "list"], ["list-tail", "tuple", "dict-value-int-key"]]
VALUE_TASKS = ("v1_value", "v2_value")


def lit_spec(leaf, tuples, slot, wraps=()):
    """placement spec of a literal answer: the source text is built here (generation time) and travels in the case."""
    text = LIT_SLOTS[slot] % (LIT_TUPLES[tuples] % LIT_LEAVES[leaf])
    for w in wraps:
        text = LIT_WRAPS[w] % text
    c = f"py-lit:{LIT_FAMILY.get(leaf, 'holdable')}@{slot}{'-in-tuple' if tuples else ''}"
    return {"c": c, "text": text, "lit": {"leaf": leaf, "tuples": int(tuples), "slot": slot, "wraps": list(wraps)}}


def st_lit_spec():
    leaf = st.sampled_from(sorted(LIT_FAMILY) * 2 + sorted(LIT_LEAVES))  # two thirds: a leaf no variable can hold
    slot = st.sampled_from(sorted(LIT_SLOTS) + ["dict-key", "dict-key-second"])
    wraps = st.lists(st.sampled_from(sorted(LIT_WRAPS)), min_size=0, max_size=3)
    return st.tuples(leaf, st.sampled_from([0, 0, 1, 1, 2]), slot, wraps).map(lambda a: lit_spec(*a))


CORE_RAW = [
    "empty", "whitespace", "lone-quote", "prefix-bot", "prefix-user", "co1-define-flow-header", "co1-define-flow", "co1-while-true",
    "co1-bot-while-true", "co1-execute", "co1-ellipsis", "co1-bot-var-intent", "co1-comment-only", "co1-bot-inline-message",
    "co1-bad-indent", "co1-many-steps", "co1-bot-assign-div-zero", "co1-bot-if-undefined-attr", "co1-bot-assign-ok", "co2-flow-send", "co2-bot-action-only", "co2-bot-intent-only", "co2-bot-action-abort",
    "co2-bot-action-unbalanced", "co2-bot-action-undefined-and-say", "co2-bot-intent-keywords", "co2-user-intent-colon", "jinja-expr", "jinja-stmt-open", "dollar-var",
    "brace-dollar-var", "nul", "control", "non-ascii", "backslash-path", "backslash-tail", "single-verbose", "single-no-message",
    "single-unquoted", "py-expr", "py-concat", "py-int", "py-open-list", "long-line", "long-words", "long-lines",
    "think-open-only", "think-unclosed-truncated", "think-unclosed-then-answer", "think-reversed", "surrogate-only", "surrogate-quoted-message",
    "surrogate-bot-intent", "surrogate-single-call",
]
# quick tier: corpus classes of the enumerated repeated shape (the same answer in two turns; the thorough tier uses every class)
REPEAT_CORE = ["empty", "whitespace", "lone-quote", "prefix-bot", "prefix-user", "co1-define-flow", "co1-execute", "co1-comment-only", "co1-bot-inline-message",
               "co1-bad-indent", "jinja-expr", "dollar-var", "nul", "backslash-tail", "single-no-message", "single-unquoted",
               "think-unclosed-then-answer", "surrogate-quoted-message"]
CORE_PAYLOADS = ["jinja-expr", "jinja-var", "jinja-stmt", "dollar-var", "brace-dollar-var", "brace-expr", "brace-var"]
ECHO_PAYLOADS = CORE_PAYLOADS + ["dollar-user-message", "jinja-user-message", "jinja-filter", "dollar-brace"]
ECHO_INTENTS = ["echo-last-bot-message", "echo-bot-message", "echo-last-user-message", "echo-last-bot-message-twice", "echo-user-then-bot-message"]
ECHO_SINGLE = ["single-echo-last-bot-message", "single-echo-bot-message", "single-echo-last-user-message"]
ECHO_MODES = ("three", "multi", "passdlg", "single")  # Colang 1.0 modes with a next-step position

# Genuine defects this check reaches on the unchanged tree that known_findings.json does not list (yet).  Like the listed open
# findings ("excluded by construction / classified by known()") the inputs that reach them are withheld from generation until
# the id is listed (open or fixed) in known_findings.json - `known()` below already carries their signatures - so that the
# check stays quiet; VF_C17_PENDING=1 generates them regardless (they then show up as VIOLATION lines).
PENDING_RAW = {
    # multi-step generation: an expression of the LLM generated flow fails at run time -> the exception escapes generate()
    "C17-F7i": ["co1-bot-assign-div-zero", "co1-assign-div-zero", "co1-bot-if-undefined-attr", "co1-bot-assign-undefined-call"],
    # llm continuation: the body the LLM generates for an undefined flow starts that flow (or another undefined one whose
    # generated body starts itself) again -> the state machine never comes to rest: generate() does not return
    "C17-F7j": ["co2-flow-body-self-start", "co2-flow-body-other-undefined"],
}
PENDING_INTERP = "C17-F7k"  # `{{` / `}}` inside an LLM generated value collapse when a flow interpolates the value: "{$v0}"


def _listed(fid):
    if os.environ.get("VF_C17_PENDING"):
        return True
    try:
        return any(f.get("id") == fid for f in core.load_known())
    except Exception:
        return False


WITHHELD_RAW = {c for fid, cs in PENDING_RAW.items() if not _listed(fid) for c in cs}
WITHHOLD_INTERP = not _listed(PENDING_INTERP)


def withheld(mode, spec):
    """True iff the placement spec would (only) reach a defect that is withheld from generation (see PENDING_*)."""
    if spec.get("c") in WITHHELD_RAW:
        return True
    pl = spec.get("payload")
    return bool(WITHHOLD_INTERP and mode == "v2interp" and pl is not None and ("{{" in pl or "}}" in pl))


def peer_spec(k, j, style):
    """message payload for value k of a v2interp flow that spells out the placeholder of value j (as the flow's string does)."""
    text = {"brace-dollar": "{$v%d}", "dollar": "$v%d", "brace": "{v%d}"}[style] % j
    return {"c": f"peer-placeholder-{style}:{'later' if j > k else 'earlier' if j < k else 'own'}", "payload": text}


def recursion_places(mode, t, other=False):
    """Placements of the shape `continuation names an undefined flow` + `the body generated for that flow starts it again`
    (other=True: starts another undefined flow, whose generated body - the placement is sticky - starts itself)."""
    k = 1  # mode v2llmc: call 0 = user intent, call 1 = flow continuation, call 2 = flow from name
    first = raw_spec("co2-bot-action-undefined-flow")
    second = raw_spec("co2-flow-body-other-undefined" if other else "co2-flow-body-self-start")
    return [[t, k, first], [t, k + 1, dict(second, sticky=True) if other else second]]



def echo_places(mode, first_route, payload_class, echo_class, s=0, t=1):
    """Placements of the two-turn shape `LLM message text with a template payload in turn s` + `variable-style bot intent that
    makes the bot repeat a stored text in turn t` (turn t must have a route without a matching flow: next_llm / next_predef)."""
    if mode == "single":
        return [[s, 0, msg_spec(payload_class)], [t, 0, raw_spec(echo_class)]]
    k_msg = 2 if first_route in ("next_llm",) else 1
    return [[s, k_msg, msg_spec(payload_class)], [t, 1, raw_spec(echo_class)]]

# payloads of the shape `generated value rendered through a predefined message`: the message payloads + template texts that
# only make a difference when they are evaluated as a WHOLE template (an expression that fails, statements that do not close,
# a comment, a variable of the render context other than the planted one, the mentioned variable itself)
VALUE_PAYLOADS = dict(PAYLOADS, **{
    "jinja-div-zero": "{{ 1/0 }}",
    "jinja-for-unclosed": "{% for x in y %}",
    "jinja-if-unclosed": "{% if secret_var %}yes",
    "jinja-comment": "{# gone #}",
    "jinja-undefined-call": "{{ nothing() }}",
    "dollar-own-var": "$val",
    "dollar-last-bot-message": "$last_bot_message",
    "jinja-own-var": "{{ val }}",
})
CORE_VALUE_PAYLOADS = ["jinja-expr", "jinja-stmt", "jinja-div-zero", "jinja-for-unclosed", "jinja-var", "dollar-var", "brace-dollar-var", "dollar-own-var", "jinja-comment"]


def value_msg_spec(c):
    return {"c": c, "payload": VALUE_PAYLOADS[c]}


def valmsg_case(mode, valmsg, value_class, first_class=None, first_route="llm", api="sync"):
    """Conversation of the shape `LLM-written value -> predefined bot message that mentions the variable`: [a turn whose bot
    message the LLM writes, with payload first_class - the text `$last_bot_message` holds afterwards -,] a turn of route `value`
    whose value-generation call (call 1) answers with payload value_class, the benign closing turn."""
    cfg = make_cfg(mode, valmsg=valmsg)
    routes = ([first_route] if first_class else []) + ["value", "llm"]
    turns = [{"user": f"{mk_user(t)} {USER_TEXT[r]}", "route": r, "body": f"answer {t}", "in": [], "out": []} for t, r in enumerate(routes)]
    place = [[0, first_message_k(cfg, first_route), value_msg_spec(first_class)]] if first_class else []
    place.append([len(routes) - 2, 1, value_msg_spec(value_class)])
    return {"config": cfg, "turns": turns, "place": place, "api": api}


INS_TOKENS = ['"', "'", "\n", "\n  ", " ", "$", "{", "}", "{{", "}}", "{%", ":", "bot ", "user ", "#", "(", ")", BS, "\t", "...", "=", "and ", "or ", ",", "-", "\x00", "é", "$secret_var", "{{ 7*7 }}", "define flow ", "execute ", "if ", "while ", "flow ", "bot action: ", "bot intent: ", "user intent: ",
              "<think>", "</think>", "<think>\n", BS + "ud83d", BS + "ude00"]  # (the last two: a lone surrogate, escaped - see unesc)


def raw_spec(c):
    """placement spec of a corpus text (the text travels in the case; the 50k texts are built at run time; a text with a lone
    surrogate travels escaped and is flagged `esc`)."""
    if c in LONG:
        return {"c": c, "long": True}
    return {"c": c, "text": RAW[c], "esc": True} if ESC.search(RAW[c]) and c.startswith("surrogate-") else {"c": c, "text": RAW[c]}


def data_spec(c):
    """placement spec of a plain-data message text (DATA): the text in the format of the task, no literal-text obligation."""
    return {"c": c, "data": DATA[c], "esc": True} if ESC.search(DATA[c]) else {"c": c, "data": DATA[c]}


def msg_spec(c):
    return {"c": c, "payload": PAYLOADS[c]}


def ctl_spec(c):
    return {"c": c, "exact": CTL[c]}


def int_spec(c, step=0):
    """placement spec of a hostile bot intent (step: which step of a multi-step flow names it; ignored by the other modes)."""
    return {"c": c, "intent": INTENTS[c], "step": int(step)}


def st_int_spec():
    return st.tuples(st.sampled_from(sorted(INTENTS)), st.sampled_from([0, 0, 1])).map(lambda cs: int_spec(*cs))


def st_no_intent_spec():
    return st.tuples(st.sampled_from(NO_USABLE_INTENT), st.sampled_from([0, 0, 1])).map(lambda cs: int_spec(*cs))


def st_spec(intents=False):
    pool = [c for c in sorted(RAW) if c not in WITHHELD_RAW]
    raw = st.sampled_from(pool).map(raw_spec)
    msg = st.sampled_from(sorted(PAYLOADS)).map(msg_spec)
    ctl = st.sampled_from(sorted(CTL)).map(ctl_spec)
    dat = st.sampled_from(sorted(DATA)).map(data_spec)
    pos = st.integers(0, 1000)
    op = st.one_of(
        st.tuples(st.just("del"), pos, st.integers(1, 12)),
        st.tuples(st.just("ins"), pos, st.sampled_from(INS_TOKENS)),
        st.tuples(st.just("rep"), pos, st.integers(1, 6), st.sampled_from(INS_TOKENS)),
        st.tuples(st.just("trunc"), pos),
        st.tuples(st.just("dupline"), pos),
        st.tuples(st.just("dropline"), pos),
        st.tuples(st.just("swaplines"), pos),
        st.tuples(st.just("indent"), pos, st.integers(-2, 6)),
        st.tuples(st.just("unquote")),
        st.tuples(st.just("strip")),
        st.tuples(st.just("upper")),
        st.tuples(st.just("repeat"), st.integers(2, 40)),
    ).map(list)
    mut = st.lists(op, min_size=1, max_size=3).map(lambda ops: {"c": "mutation", "ops": ops})
    sticky = st.sampled_from(pool).map(lambda c: dict(raw_spec(c), sticky=True))
    lit = st_lit_spec()  # built literal answers (meant for the value-generation calls; harmless raw text anywhere else)
    if intents:  # Colang 1.0 modes: hostile bot intents in the format of the task
        return st.one_of(raw, raw, msg, mut, mut, sticky, ctl, st_int_spec(), lit, dat)
    return st.one_of(raw, raw, msg, mut, mut, sticky, ctl, lit, dat)


def mutate(text, ops):
    """Applies edit operations (pure data) to the well-formed completion."""
    for op in ops:
        name = op[0]
        n = len(text)
        at = (lambda p: min(n, p * (n + 1) // 1001))
        lines = text.split("\n")
        li = (lambda p: min(len(lines) - 1, p * len(lines) // 1001))
        if name == "del":
            i = at(op[1])
            text = text[:i] + text[i + op[2]:]
        elif name == "ins":
            i = at(op[1])
            text = text[:i] + unesc(op[2]) + text[i:]
        elif name == "rep":
            i = at(op[1])
            text = text[:i] + unesc(op[3]) + text[i + op[2]:]
        elif name == "trunc":
            text = text[: at(op[1])]
        elif name == "dupline":
            i = li(op[1])
            text = "\n".join(lines[: i + 1] + lines[i:])
        elif name == "dropline":
            i = li(op[1])
            text = "\n".join(lines[:i] + lines[i + 1:])
        elif name == "swaplines":
            i = li(op[1])
            if i + 1 < len(lines):
                lines[i], lines[i + 1] = lines[i + 1], lines[i]
            text = "\n".join(lines)
        elif name == "indent":
            i = li(op[1])
            d = op[2]
            lines[i] = (" " * d + lines[i]) if d >= 0 else lines[i][-d:]
            text = "\n".join(lines)
        elif name == "unquote":
            text = text.replace('"', "", 1)
        elif name == "strip":
            text = text.strip()
        elif name == "upper":
            text = text.upper()
        elif name == "repeat":
            text = (text + "\n") * op[1]
    return text


# ------------------------------------------------------------------------------------------------
# the session: well-formed answers for every task of every mode + resolution of the placements

MESSAGE_TASKS = ("generate_bot_message", "general", "single_call", "v1_value", "v2_flow_continuation", "v2_intent_and_action", "v2_flow_from_name", "v2_value", "v2_passthrough")


ECHO_VARS = ("last_bot_message", "bot_message", "last_user_message", "user_message")
PURE_MESSAGE_TASKS = ("generate_bot_message", "general", "v1_value", "v2_value", "v2_passthrough")  # the whole answer is the text
LLM_MARK = re.compile(r"LM\d+C\d+Z")


def _family(payload):
    if "{{" in payload or "{%" in payload or "{#" in payload:
        return "jinja"
    if "{" in payload:
        return "brace"
    if "$" in payload:
        return "dollar"
    if "%" in payload:
        return "percent"
    return "expression"


def classify(prompt, mode):
    """Task of a rendered prompt (vf.fakes.classify_prompt extended with the tasks of the extra modes; the Colang 2.x
    tasks are only recognised in Colang 2.x modes: a hostile v1 intent such as `bot intent:` ends up at the end of later
    v1 prompts)."""
    if not isinstance(prompt, str):
        return "general"
    tail = prompt.rstrip()
    if MODES[mode][0] == 1:
        if prompt.startswith("VF-SELF-CHECK-INPUT"):
            return "self_check_input"
        if prompt.startswith("VF-SELF-CHECK-OUTPUT"):
            return "self_check_output"
        if "# For each user message, generate the next steps and finish with the bot message." in prompt:
            return "single_call"
        if "# This is how the user talks:" in prompt:
            return "generate_user_intent"
        if "# This is how the bot thinks:" in prompt:
            return "v1_value" if re.search(r"\$\w+ =$", tail) else "generate_next_steps"
        if "# This is how the bot talks:" in prompt:
            return "generate_bot_message"
        return "general"
    if "# Complete the following flow based on its name:" in prompt:
        return "v2_flow_from_name"
    if re.search(r"\$\w+ =$", tail):
        return "v2_value"
    task = fakes.classify_prompt(prompt)
    if task == "v2_user_intent" and mode == "v2llmc1":
        return "v2_intent_and_action"
    if task == "general" and mode == "v2pass":
        return "v2_passthrough"
    return task


class C17Session(fakes.Session):
    def __init__(self, case, cfg=None):
        super().__init__(case, cfg)
        self.mode = self.cfg["mode"]
        self.place = {(int(t), int(k)): spec for t, k, spec in case.get("place", [])}
        self.reached = []  # {"turn","k","task","c","kind","answer","base"} for every placement consumed by a real call

    def route(self, turn):
        if not self.cfg.get("dialog"):
            return "llm"
        return self.turns[turn].get("route", "llm")

    def wellformed(self, task, prompt, turn, k, payload=None, intent=None, step=0):
        """The completion a cooperative LLM gives for `task`; `payload` replaces the message text, `intent` the bot intent
        (at the tasks that name one: the next-step call - `step` = which step of a multi-step flow - and the single call;
        at every other task the bare line `bot <intent>`)."""
        route = self.route(turn)
        body = self.turns[turn].get("body", "generated words")
        text = payload if payload is not None else f"{mk_llm(turn, k)} {body}"
        if intent is not None and task not in ("single_call", "generate_next_steps"):
            return "bot " + intent
        if task == "single_call":
            first = VALMSG_INTENT if route == "value" and self.cfg.get("valmsg") else FIRST_BOT[route]
            return f'  {INTENT[route]}\nbot {first if intent is None else intent}\n  "{text}"'
        if task == "generate_user_intent":
            return "  " + INTENT[route]
        if task == "generate_next_steps":
            nxt = fakes.NEXT_STEP.get(route, "inform something")
            if intent is not None:
                if self.mode != "multi":
                    return "bot " + intent
                return f"bot {intent}\nbot offer help" if not step else f"bot {nxt}\nbot {intent}"
            step = nxt
            if self.mode == "multi":
                return f"bot {step}\nbot offer help" if payload is None else payload
            return "bot " + step if payload is None else payload
        if task in ("v1_value", "v2_value"):
            return f'"{text}"'
        if task == "v2_user_intent":
            if payload is not None:
                return payload
            return "user expressed greeting" if route == "predef" else "user asked something else"
        if task == "v2_intent_and_action":
            intent = "user expressed greeting" if route == "predef" else "user asked something else"
            return f' {intent}\nbot intent: bot provide answer\nbot action: bot say "{text}"'
        if task == "v2_flow_from_name":
            return f'  bot say "{text}"'
        if task == "v2_flow_continuation":
            return f'bot provide answer\nbot action: bot say "{text}"'
        if task == "generate_bot_message":
            return f'  "{text}"'
        if task in ("self_check_input", "self_check_output"):
            return payload if payload is not None else "No"
        return text  # general / passthrough

    def llm_answer(self, task, prompt, turn, k):
        task = classify(prompt, self.mode)
        marker = mk_llm(turn, k)
        base = self.wellformed(task, prompt, turn, k)
        spec = self.place.get((turn, k))
        if spec is None:
            # a sticky placement answers every later call of its turn too (an LLM that keeps giving the same output, e.g. to retries)
            earlier = [k0 for (t0, k0), sp in self.place.items() if t0 == turn and k0 < k and sp.get("sticky")]
            if earlier:
                spec = self.place[(turn, max(earlier))]
        if spec is None:
            if (turn, k) in self.override:
                spec = {"c": "override", "text": self.override[(turn, k)]}
            else:
                self.reached.append({"turn": turn, "k": k, "task": task, "c": None, "answer": base})
                return base
        c = spec["c"]
        un = unesc if spec.get("esc") else (lambda x: x)
        if spec.get("text") is not None:
            answer, kind = un(spec["text"]).replace(M, marker), "raw"
        elif spec.get("data") is not None:
            # plain-data message text: in the format of the task (at a non-message task: the bare text)
            text = un(spec["data"]).replace(M, marker)
            answer = self.wellformed(task, prompt, turn, k, payload=text) if task in MESSAGE_TASKS else text
            kind = "dat"
        elif spec.get("long"):
            answer, kind = LONG[c](marker), "raw"
        elif spec.get("payload") is not None:
            answer = self.wellformed(task, prompt, turn, k, payload=f"{marker} {spec['payload']} tail")
            kind = "msg"
        elif spec.get("intent") is not None:
            # hostile bot intent in the format of the task
            answer = self.wellformed(task, prompt, turn, k, intent=spec["intent"].replace(M, marker), step=spec.get("step", 0))
            kind = "int"
        elif spec.get("exact") is not None:
            # control string: the exact message text in the format of the task (at a non-message task: the bare string)
            answer = self.wellformed(task, prompt, turn, k, payload=spec["exact"]) if task in MESSAGE_TASKS else spec["exact"]
            kind = "ctl"
        else:
            answer = mutate(base, spec["ops"])
            kind = "mut"
        self.reached.append({"turn": turn, "k": k, "task": task, "c": c, "kind": kind, "answer": answer, "base": base, "payload": spec.get("payload")})
        return answer


# ------------------------------------------------------------------------------------------------
# the pipeline: extra configurations, context message, traceback of escaping exceptions

CONTEXT_MSG = {"role": "context", "content": {"secret_var": SECRET}}


def _chain(tb):
    """nemoguardrails frames of a traceback, outermost first: ['file.py:function', ...]."""
    out = []
    for fr in traceback.extract_tb(tb):
        fn = fr.filename.replace(os.sep, "/")
        if "/nemoguardrails/" in fn and "/verif/" not in fn:
            out.append(f"{os.path.basename(fn)}:{fr.name}")
    return out


def _frames(exc):
    """(innermost nemoguardrails frame, whole chain) of an exception, following __cause__/__context__ if needed."""
    e, seen = exc, 0
    while e is not None and seen < 5:
        chain = _chain(e.__traceback__)
        if chain:
            return chain[-1], chain
        e = e.__cause__ or e.__context__
        seen += 1
    return "outside-nemoguardrails", []


class C17Pipeline(pipeline.Pipeline):
    def __init__(self, cfg):
        from nemoguardrails import LLMRails, RailsConfig

        fakes.register_fake_embedding()
        self.cfg = cfg
        self.v = cfg["v"]
        self.colang, self.yaml = build_config(cfg)
        self.config = RailsConfig.from_content(self.colang, self.yaml)
        self.llm = fakes.ScriptedLLM()
        pipeline.loop()
        self.rails = LLMRails(self.config, llm=self.llm)
        self.action_names = []
        self._register(fakes.make_dialog_action(pipeline.dialog_action_name(self.v)))
        if self.v == 2:
            self._register(fakes.make_route_action("VfRouteAction"))
        self._flow_configs = dict(self.rails.runtime.flow_configs)

    def new_session(self, case, session_cls=C17Session):
        # dynamic flows (v1 multi-step `start_flow`, v2 AddFlowsAction) are added to the instance: forget them
        fc = self.rails.runtime.flow_configs
        fc.clear()
        fc.update(self._flow_configs)
        return super().new_session(case, session_cls)

    def _kwargs(self, session, t):
        kw, user = super()._kwargs(session, t)
        if self.cfg["mode"] != "pass":
            # (pure passthrough hands the raw message list to the LLM call, which rejects the `context` role before any
            # LLM output exists - not this property's subject; that mode runs without the planted variable)
            # case["ctx"]: further variables (non-string JSON values) the caller plants next to secret_var
            extra = json.loads(json.dumps(session.case.get("ctx") or {}))
            kw["messages"] = [dict(CONTEXT_MSG, content=dict(CONTEXT_MSG["content"], **extra))] + kw["messages"]
        return kw, user

    def turn(self, session, t):
        kw, user = self._kwargs(session, t)
        n_trace, n_llm = len(session.trace), len(session.llm_calls)
        lp = pipeline.loop()
        tok = fakes.set_current(session, t)
        res = exc = None
        try:
            if session.case.get("api", "sync") == "async":
                res = lp.run_until_complete(self.rails.generate_async(**kw))
            else:
                res = self.rails.generate(**kw)
        except Exception as e:
            exc = e
        finally:
            fakes.CURRENT.reset(tok)
        obs = self._after(session, t, user, res, exc, n_trace, n_llm)
        obs["raw"] = res
        if exc is not None:
            obs["exc_type"] = type(exc).__name__
            obs["exc_where"], obs["exc_chain"] = _frames(exc)
            obs["exc_msg"] = str(exc)[:300]
        return obs


_cache = {}


def get_pipeline(cfg, fresh=False):
    if fresh:
        return C17Pipeline(cfg)
    key = pipeline.cfg_key(cfg)
    p = _cache.get(key)
    if p is None:
        p = _cache[key] = C17Pipeline(cfg)
    return p


def reset_all():
    _cache.clear()
    pipeline.reset_runtime()


def run_conversation(case, fresh=False):
    try:
        p = get_pipeline(case["config"], fresh=fresh)
        s = p.new_session(case)
        turns = [p.turn(s, t) for t in range(len(case["turns"]))]
        return pipeline.Observations(case, s, turns, p)
    except BaseException:
        reset_all()
        raise


# ------------------------------------------------------------------------------------------------
# generation


def budget(tier):
    return 700 if tier == "quick" else 14000


USER_TEXT = {"predef": "hello there", "llm": "how is the weather", "pl": "tell me a joke", "lp": "tell me a story", "ll": "tell me two facts",
             "next_llm": "what time is it", "next_predef": "I need help", "act_llm": "what is the status", "value": "give me a value"}


@st.composite
def _case(draw):
    mode = draw(st.sampled_from(V1_MODES * 3 + ["multi"] * 4 + ["single"] * 2 + V2_MODES + ["v2interp", "v2value"]))
    self_rails = MODES[mode][0] == 1 and mode in ("three", "general", "multi") and draw(st.sampled_from([False, False, False, True]))
    extra = {}
    if mode == "v2interp":
        vals = draw(st.sampled_from([2, 2, 3]))
        extra = {"vals": vals, "tpl": draw(st.sampled_from(V2_INTERP_TEMPLATES[vals])), "utter": draw(st.sampled_from(["say", "say", "action"]))}
    cfg = make_cfg(mode, self_rails=self_rails, exc=self_rails and draw(st.booleans()), **extra)
    routes = routes_for(cfg)
    v2 = cfg["v"] == 2
    n = draw(st.sampled_from([1, 1, 2] if v2 else [1, 2, 2, 3]))
    turns = []
    for t in range(n + 1):
        route = draw(st.sampled_from(routes))
        if t == n:
            route = "llm"
        turn = {"user": f"{mk_user(t)} {USER_TEXT[route]}", "route": route, "body": draw(pipeline.st_body()), "in": ["accept"] * len(cfg["in"]), "out": ["accept"] * len(cfg["out"])}
        turns.append(turn)
    places = {}
    if mode in ECHO_MODES and not self_rails and n >= 2 and draw(st.sampled_from([True, False, False])):
        # stored-text shape: a template payload in the LLM's message text of turn s, a `bot $last_bot_message`-style intent later
        s_, t_ = (0, draw(st.integers(1, n - 1)))
        turns[s_]["route"] = draw(st.sampled_from(["llm", "next_llm", "act_llm"]))
        turns[t_]["route"] = draw(st.sampled_from(["next_llm", "next_predef"]))
        for tt in (s_, t_):
            turns[tt]["user"] = f"{mk_user(tt)} {USER_TEXT[turns[tt]['route']]}"
        echo = draw(st.sampled_from(ECHO_SINGLE if mode == "single" else ECHO_INTENTS))
        for tt, k, spec in echo_places(mode, turns[s_]["route"], draw(st.sampled_from(sorted(PAYLOADS))), echo, s_, t_):
            places[(tt, k)] = spec
    if mode == "v2interp" and draw(st.sampled_from([True, True, False])):
        # the answer for one value spells out the placeholder of another (later / earlier / its own) value of the same string
        t, k = draw(st.integers(0, n - 1)), draw(st.integers(0, cfg["vals"] - 1))
        j = (k + draw(st.sampled_from([0] + list(range(1, cfg["vals"])) * 3))) % cfg["vals"]  # mostly another value, sometimes its own
        places[(t, k)] = peer_spec(k, j, draw(st.sampled_from(["brace-dollar", "brace-dollar", "brace-dollar", "dollar", "brace"])))
    if mode in ("v2value", "v2interp") and draw(st.sampled_from([True, True, False])):
        # literal dimension: the value-generation call (of one or two turns) answers with a built container literal
        for _ in range(draw(st.sampled_from([1, 1, 2]))):
            places.setdefault((draw(st.integers(0, n - 1)), draw(st.integers(0, cfg.get("vals", 1) - 1))), draw(st_lit_spec()))
    if mode == "v2llmc" and "co2-flow-body-self-start" not in WITHHELD_RAW and draw(st.sampled_from([True, False, False, False])):
        for tt, k, spec in recursion_places(mode, draw(st.integers(0, n - 1)), other=draw(st.booleans())):
            places[(tt, k)] = spec
    if cfg["v"] == 1 and cfg["dialog"] and not self_rails and draw(st.sampled_from([True, True, False, False, False])):
        # configuration dimension valmsg: the generated value of route `value` is uttered through a predefined message that mentions
        # `$val` (two fifths of the Colang 1.0 dialog cases; half of them - when no other shape took the placements - with the shape
        # `a template payload as the generated value` [+ `a payload in the LLM-written bot message of the turn before`])
        cfg["valmsg"] = draw(st.sampled_from(["val", "val", "val-last"]))
        if not places and draw(st.booleans()):
            t = draw(st.integers(0, n - 1))
            turns[t]["route"] = "value"
            turns[t]["user"] = f"{mk_user(t)} {USER_TEXT['value']}"
            places[(t, 1)] = value_msg_spec(draw(st.sampled_from(sorted(VALUE_PAYLOADS))))
            if t > 0 and draw(st.booleans()):
                turns[t - 1]["route"] = draw(st.sampled_from(["llm", "next_llm", "act_llm"]))
                turns[t - 1]["user"] = f"{mk_user(t - 1)} {USER_TEXT[turns[t - 1]['route']]}"
                places[(t - 1, first_message_k(cfg, turns[t - 1]["route"]))] = value_msg_spec(draw(st.sampled_from(sorted(VALUE_PAYLOADS))))
    ctx = None
    if cfg["v"] == 1 and mode != "pass" and draw(st.sampled_from([True, False, False])):
        ctx = dict(PLANTED)  # the caller's context message carries variables of non-string types too
    if cfg["v"] == 1 and not places and n >= 2 and draw(st.sampled_from([True, False, False])):
        # repeated shape: the SAME hostile answer at the same call position of two or three turns of the conversation (an LLM
        # that keeps failing in the same way; consecutive turns or with well-formed turns in between); the repeated turns
        # take the same dialog route, so that the position is the same task
        rep_turns = draw(st.sampled_from([ts for ts in ([0, 1], [0, 2], [1, 2], [0, 1, 2]) if ts[-1] < n]))
        spec = draw(st.one_of(st_no_intent_spec(), st_no_intent_spec(), st_int_spec(), st_spec(intents=True))) if cfg["dialog"] else draw(st_spec())
        if not cfg["dialog"]:
            route, k = "llm", 0
        elif spec.get("intent") is not None:
            # a hostile bot intent: at the position that names the bot intent, in a turn without a matching flow
            route, k = draw(st.sampled_from(["next_llm", "next_llm", "next_predef"])), (0 if mode == "single" else 1)
        else:
            route = draw(st.sampled_from(["next_llm", "next_llm", "next_llm", "next_predef", "llm", "act_llm", "value", "ll"]))
            k = draw(st.sampled_from([0, 1, 1, 1, 2])) if mode != "single" else draw(st.sampled_from([0, 0, 0, 1]))
        if not withheld(mode, spec):
            for tt in rep_turns:
                turns[tt]["route"] = route
                turns[tt]["user"] = f"{mk_user(tt)} {USER_TEXT[route]}"
                places[(tt, k)] = spec
    first_msg = {"three": 1, "multi": 1, "passdlg": 1}.get(mode, 0)
    if cfg["v"] == 1 and not self_rails and not places and draw(st.sampled_from([True, False, False, False, False])):
        # a control string as the FIRST bot utterance of a turn (the turn's route is one whose first bot message the LLM writes)
        t = draw(st.integers(0, n - 1))
        if cfg["dialog"]:
            turns[t]["route"] = draw(st.sampled_from(["llm", "lp", "ll"]))
            turns[t]["user"] = f"{mk_user(t)} {USER_TEXT[turns[t]['route']]}"
        places.setdefault((t, first_msg), draw(st.sampled_from(sorted(CTL)).map(ctl_spec)))
    if not self_rails and not places and draw(st.sampled_from([True, False, False, False])):
        # plain-data shape: the FINAL bot message of one, two or all turns of the conversation is a plain-data text (a lone
        # surrogate, reasoning-trace tokens that do not form a block), the same text in every such turn or another one in each;
        # the turn takes a route whose (first) bot message the LLM writes, the placement sits at that call
        ts = draw(st.sampled_from([ts_ for ts_ in ([0], [0, 1], [0, 1], [1], [0, 2], [1, 2], [0, 1, 2], [0, 1, 2]) if ts_[-1] < n]))
        fam = draw(st.sampled_from(["surrogate", "surrogate", "think", "think", None]))
        pool_ = [c for c in sorted(DATA) if fam is None or family(c) == fam]
        one = draw(st.sampled_from(pool_)) if draw(st.booleans()) else None
        for t in ts:
            if cfg["dialog"] and not v2:
                turns[t]["route"] = draw(st.sampled_from(["llm", "llm", "next_llm", "lp", "ll", "act_llm"]))
                turns[t]["user"] = f"{mk_user(t)} {USER_TEXT[turns[t]['route']]}"
            elif cfg["dialog"]:
                turns[t]["route"] = "llm"
                turns[t]["user"] = f"{mk_user(t)} {USER_TEXT['llm']}"
            k = first_message_k(cfg, turns[t]["route"])
            places[(t, k)] = data_spec(one or draw(st.sampled_from(pool_)))
    if cfg["v"] == 1 and cfg["dialog"] and not places and draw(st.sampled_from([True] + [False] * 7)):
        # the literal dimension at the value-generation call of the Colang 1.0 flow `$val = ...` / `bot $val` (call 1 of a turn of route `value`)
        t = draw(st.integers(0, n - 1))
        turns[t]["route"] = "value"
        turns[t]["user"] = f"{mk_user(t)} {USER_TEXT['value']}"
        places[(t, 1)] = draw(st_lit_spec())
    for _ in range(draw(st.sampled_from([0, 1] if places else [1, 1, 2, 2, 3, 4]))):
        t = draw(st.integers(0, n - 1))
        k = draw(st.sampled_from([0, 0, 0, 1, 1, 2, 3]))
        spec = draw(st_spec(intents=cfg["v"] == 1 and bool(cfg["dialog"])))
        if not withheld(mode, spec):
            places.setdefault((t, k), spec)
    place = [[t, k, spec] for (t, k), spec in sorted(places.items())]
    case = {"config": cfg, "turns": turns, "place": place, "api": draw(st.sampled_from(["sync", "sync", "async"]))}
    if ctx is None and cfg["v"] == 1 and mode != "pass" and any(str(sp.get("intent", ""))[1:] in PLANTED for _, _, sp in place):
        ctx = dict(PLANTED)  # a bot intent names a planted variable: plant it
    if ctx is not None:
        case["ctx"] = ctx
    return case


def first_message_k(cfg, route):
    """index of the LLM call of a turn that writes the (first) bot message of the turn, for a route whose message the LLM writes
    (configurations without the self-check rails)."""
    mode = cfg["mode"]
    if mode in ("three", "multi", "passdlg"):
        return 2 if route == "next_llm" else 1  # user intent, [next step,] bot message
    if mode == "v2llmc":
        return 1  # user intent, flow continuation
    return 0  # single call, general / passthrough, one-call continuation, value generation


def strategy(tier):
    return _case()


def enumerate_cases(tier):
    """Deterministic core: mode x call position x corpus class in the first turn, then the benign turn."""
    raws = [c for c in (CORE_RAW if tier == "quick" else sorted(RAW)) if c not in WITHHELD_RAW]
    pays = CORE_PAYLOADS if tier == "quick" else sorted(PAYLOADS)
    ctls = CORE_CTL if tier == "quick" else sorted(CTL)
    ints = CORE_INTENTS if tier == "quick" else sorted(INTENTS)
    datas = CORE_DATA if tier == "quick" else sorted(DATA)
    # literal answers at the value-generation calls: leaf x tuples around it x slot in the container (x outer wrappers for the
    # leaves no variable can hold); Colang 2.x value generation uttered as a variable and through an interpolated string (first
    # and second value), thorough tier also the Colang 1.0 `$val = ...` flow
    quick = tier == "quick"
    # generated value rendered through a predefined message that mentions the variable: every Colang 1.0 dialog mode x
    # (`$val` alone: value payload; `$val` + `$last_bot_message`: payload in the LLM-written message of the turn before x value payload)
    vps = CORE_VALUE_PAYLOADS if quick else sorted(VALUE_PAYLOADS)
    for mode in ("three", "single", "multi", "passdlg"):
        for c in vps:
            yield valmsg_case(mode, "val", c)
        for i, c in enumerate(vps):
            for j, first in enumerate(vps):
                if quick and (i + j) % len(vps) not in (0, 1):
                    continue  # quick: two first-message payloads per value payload (a Latin-square slice), thorough: every pair
                yield valmsg_case(mode, "val-last", c, first_class=first, first_route="next_llm" if (i + j) % 3 == 0 and mode != "single" else "llm")
    lits = [lit_spec(leaf, tup, slot) for leaf in (CORE_LIT_LEAVES if quick else sorted(LIT_LEAVES)) for slot in LIT_SLOTS for tup in ((0, 1) if quick else (0, 1, 2))]
    deep = [lit_spec(leaf, tup, slot, wraps) for leaf in (CORE_LIT_LEAVES[:3] if quick else sorted(LIT_FAMILY)) for slot in LIT_SLOTS
            for i, wraps in enumerate(CORE_LIT_WRAPS) for tup in ((i,) if quick else (0, 1, 2))]
    bad = [sp for sp in lits if sp["c"].startswith("py-lit:unholdable")]
    if quick:  # the interpolated string: the leaves no variable can hold, split over the first and the second value
        targets = [("v2value", "llm", 0, lits + deep), ("v2interp", "llm", 0, [sp for i, sp in enumerate(bad) if (i + i // 2) % 2 == 0]),
                   ("v2interp", "llm", 1, [sp for i, sp in enumerate(bad) if (i + i // 2) % 2] + deep[::2])]
    else:
        targets = [("v2value", "llm", 0, lits + deep), ("v2interp", "llm", 0, lits + deep), ("v2interp", "llm", 1, lits + deep)]
    if not quick:
        targets += [(m, "value", 1, lits + deep) for m in ("three", "single", "multi", "passdlg")]
    for mode, route, k, specs in targets:
        for spec in specs:
            turns = [
                {"user": f"{mk_user(0)} {USER_TEXT[route]}", "route": route, "body": "first answer", "in": [], "out": []},
                {"user": f"{mk_user(1)} {USER_TEXT['llm']}", "route": "llm", "body": "closing answer", "in": [], "out": []},
            ]
            yield {"config": make_cfg(mode), "turns": turns, "place": [[0, k, spec]], "api": "sync"}
    for mode in MODES:
        cfg = make_cfg(mode)
        v2 = cfg["v"] == 2
        if cfg["dialog"] and not v2:
            routes = ["next_llm", "llm"] if tier == "quick" else ["next_llm", "llm", "ll", "value"]
        else:
            routes = ["llm"]
        for route in routes:
            npos = {"three": 3, "multi": 3, "passdlg": 3, "v2llmc": 2, "v2interp": 2}.get(mode, 1)
            if route == "value":
                npos = 3
            if route == "llm" and mode in ("three", "multi", "passdlg"):
                npos = 2
            for k in range(npos):
                specs = [raw_spec(c) for c in raws] + [msg_spec(c) for c in pays]
                if v2 and tier == "quick":
                    specs = specs[:: 2] if k == 0 else specs[1:: 2]
                specs = specs + [ctl_spec(c) for c in ctls] + [data_spec(c) for c in datas]
                if cfg["dialog"] and not v2:
                    # hostile bot intents in the format of the task (multi-step mode: as the first and as a later step)
                    specs = specs + [int_spec(c, st_) for c in ints for st_ in ((0, 1) if mode == "multi" and k == 1 else (0,))]
                for spec in specs:
                    if withheld(mode, spec):
                        continue
                    turns = [
                        {"user": f"{mk_user(0)} {USER_TEXT[route]}", "route": route, "body": "first answer", "in": [], "out": []},
                        {"user": f"{mk_user(1)} {USER_TEXT['llm']}", "route": "llm", "body": "closing answer", "in": [], "out": []},
                    ]
                    case = {"config": cfg, "turns": turns, "place": [[0, k, spec]], "api": "sync"}
                    if spec.get("intent") is not None:
                        case["ctx"] = dict(PLANTED)
                    yield case
    # repeated shape: the same hostile answer at the same call position of TWO OR THREE TURNS of one conversation (consecutive,
    # with a well-formed turn in between, after a well-formed turn), every Colang 1.0 mode x position x corpus class for
    # the consecutive pattern, the hostile bot intents at the position that names the bot intent for every pattern
    for mode in V1_MODES:
        cfg = make_cfg(mode)
        route = "next_llm" if cfg["dialog"] else "llm"
        npos = {"three": 3, "multi": 3, "passdlg": 3}.get(mode, 1)
        k_intent = {"three": 1, "multi": 1, "passdlg": 1, "single": 0}.get(mode)
        for k in range(npos):
            specs = [raw_spec(c) for c in raws if tier != "quick" or c in REPEAT_CORE] + [ctl_spec(c) for c in (ctls if tier != "quick" else ctls[:1])]
            specs = specs + [data_spec(c) for c in datas]  # plain-data message texts (final bot message of both turns at the last position)
            if cfg["dialog"]:
                specs = specs + [int_spec(c, st_) for c in ints for st_ in ((0, 1) if mode == "multi" and k == 1 else (0,))]
            for spec in specs:
                if withheld(mode, spec):
                    continue
                is_int = spec.get("intent") is not None
                patterns = ([0, 1], [0, 2], [1, 2], [0, 1, 2]) if (is_int and k == k_intent) or tier != "quick" else ([0, 1],)
                for pat in patterns:
                    nh = pat[-1] + 1
                    turns = [{"user": f"{mk_user(t)} {USER_TEXT[route]}", "route": route, "body": f"answer {t}", "in": [], "out": []} for t in range(nh)]
                    turns.append({"user": f"{mk_user(nh)} {USER_TEXT['llm']}", "route": "llm", "body": "closing answer", "in": [], "out": []})
                    case = {"config": cfg, "turns": turns, "place": [[t, k, spec] for t in pat], "api": "sync"}
                    if is_int:
                        case["ctx"] = dict(PLANTED)
                    yield case
    # the same hostile text for EVERY call of the first turn from position k on (what a retry loop would be fed)
    for mode in MODES:
        cfg = make_cfg(mode)
        route = "next_llm" if cfg["dialog"] and cfg["v"] == 1 else "llm"
        for k in (0, 1):
            for c in ("empty", "whitespace", "lone-quote") if tier == "quick" else [c for c in CORE_RAW if c not in WITHHELD_RAW]:
                turns = [
                    {"user": f"{mk_user(0)} {USER_TEXT[route]}", "route": route, "body": "first answer", "in": [], "out": []},
                    {"user": f"{mk_user(1)} {USER_TEXT['llm']}", "route": "llm", "body": "closing answer", "in": [], "out": []},
                ]
                yield {"config": cfg, "turns": turns, "place": [[0, k, dict(raw_spec(c), sticky=True)]], "api": "sync"}
    # control strings as the first bot utterance of a LATER turn (turn 0 is well-formed), every Colang 1.0 mode
    for mode in V1_MODES:
        cfg = make_cfg(mode)
        k = {"three": 1, "multi": 1, "passdlg": 1}.get(mode, 0)
        for c in ctls:
            turns = [{"user": f"{mk_user(t)} {USER_TEXT['llm']}", "route": "llm", "body": b, "in": [], "out": []} for t, b in enumerate(["first answer", "second answer", "closing answer"])]
            yield {"config": cfg, "turns": turns, "place": [[1, k, ctl_spec(c)]], "api": "sync"}
    # Colang 2.x: several generated values uttered through one interpolated string; the answer for value k spells out the
    # placeholder of value j (every ordered pair, every template order, both ways of uttering)
    for vals, tpls in sorted(V2_INTERP_TEMPLATES.items()):
        for i, tpl in enumerate(tpls):
            for utter in ("say", "action"):
                if tier == "quick" and (utter == "action") != (i == (0 if vals == 2 else len(tpls) - 1)) and not (vals == 2 and i == 0):
                    continue  # quick: one way of uttering per template (both for the plain two-value string)
                cfg = make_cfg("v2interp", vals=vals, tpl=tpl, utter=utter)
                for k in range(vals):
                    for j in range(vals):
                        for style in ("brace-dollar", "dollar", "brace") if (vals == 2 and i == 0 and utter == "say") or tier != "quick" else ("brace-dollar",):
                            turns = [{"user": f"{mk_user(t)} {USER_TEXT['llm']}", "route": "llm", "body": b, "in": [], "out": []} for t, b in enumerate(["first answer", "closing answer"])]
                            yield {"config": cfg, "turns": turns, "place": [[0, k, peer_spec(k, j, style)]], "api": "sync"}
    # Colang 2.x llm continuation: the flow body generated for an undefined flow starts that flow again (only once the finding is listed)
    if "co2-flow-body-self-start" not in WITHHELD_RAW:
        for other in (False, True):  # (the one-call variant v2llmc1 does not activate `continuation on undefined flow`)
            turns = [{"user": f"{mk_user(t)} {USER_TEXT['llm']}", "route": "llm", "body": b, "in": [], "out": []} for t, b in enumerate(["first answer", "closing answer"])]
            yield {"config": make_cfg("v2llmc"), "turns": turns, "place": recursion_places("v2llmc", 0, other=other), "api": "sync"}
    # stored texts: template payload in the LLM's message text of turn 0, variable-style bot intent repeating it in turn 1
    for mode in ECHO_MODES:
        cfg = make_cfg(mode)
        for first in ("llm", "next_llm") if tier == "quick" else ("llm", "next_llm", "act_llm"):
            for echo in (ECHO_SINGLE if mode == "single" else ECHO_INTENTS)[: 2 if tier == "quick" else None]:
                for pc in ECHO_PAYLOADS if tier == "quick" else sorted(PAYLOADS):
                    turns = [
                        {"user": f"{mk_user(0)} {USER_TEXT[first]}", "route": first, "body": "first answer", "in": [], "out": []},
                        {"user": f"{mk_user(1)} {USER_TEXT['next_llm']}", "route": "next_llm", "body": "second answer", "in": [], "out": []},
                        {"user": f"{mk_user(2)} {USER_TEXT['llm']}", "route": "llm", "body": "closing answer", "in": [], "out": []},
                    ]
                    yield {"config": cfg, "turns": turns, "place": echo_places(mode, first, pc, echo), "api": "sync"}
    # the shipped self-check rails: hostile answers at the yes/no positions (k = 0 input check, last call output check)
    checks = ["empty", "whitespace", "check-maybe", "check-yes-bang", "check-no-yes", "jinja-expr", "nul", "long-line", "non-ascii", "lone-quote"]
    for mode in ("three", "general") if tier == "quick" else ("three", "general", "multi"):
        for exc in (False, True):
            cfg = make_cfg(mode, self_rails=True, exc=exc)
            for k in (0, 2, 3) if mode != "general" else (0, 2):
                for c in checks:
                    turns = [
                        {"user": f"{mk_user(0)} {USER_TEXT['llm']}", "route": "llm", "body": "first answer", "in": ["accept"], "out": ["accept"]},
                        {"user": f"{mk_user(1)} {USER_TEXT['llm']}", "route": "llm", "body": "closing answer", "in": ["accept"], "out": ["accept"]},
                    ]
                    yield {"config": cfg, "turns": turns, "place": [[0, k, raw_spec(c)]], "api": "sync"}


# ------------------------------------------------------------------------------------------------
# oracle

INTERNAL_ERROR_MARKS = ("internal error", "Internal error", "Sorry! There was an issue in the LLM result")


def _wellformed_problem(cfg, o):
    rep = o["reply"]
    raw = o.get("raw")
    if cfg["v"] == 2:
        resp = getattr(raw, "response", None)
        if not (isinstance(resp, list) and len(resp) == 1 and isinstance(resp[0], dict)):
            return f"generate(state=...) returned {type(raw).__name__} with response {resp!r}"[:300]
    elif not isinstance(raw, dict):
        return f"generate returned {type(raw).__name__}: {raw!r}"[:300]
    if not isinstance(rep, dict):
        return f"reply is {rep!r}"[:300]
    role = rep.get("role")
    if role == "assistant":
        if not isinstance(rep.get("content"), str):
            return f"assistant message with content of type {type(rep.get('content')).__name__}: {rep.get('content')!r}"[:300]
        return None
    if role == "exception":
        c = rep.get("content")
        if not (isinstance(c, dict) and isinstance(c.get("type"), str) and c["type"].endswith("Exception")):
            return f"exception message with content {c!r}"[:300]
        return None
    return f"message with role {role!r}: {rep!r}"[:300]


def _check(case, obs):
    cfg = case["config"]
    mode = cfg["mode"] + ("+self" if cfg["in"] else "")
    sess = obs.session
    labels = [f"mode={mode}", f"turns={len(case['turns'])}", case.get("api", "sync")]
    counters = {}
    if case.get("ctx"):
        labels.append("context:non-string-variables-planted")
    if cfg.get("valmsg"):
        labels.append(f"config:value-through-predefined-message={cfg['valmsg']}")
    same = {}
    for t_, k_, sp_ in case.get("place", []):
        same.setdefault((k_, json.dumps(sp_, sort_keys=True)), set()).add(t_)
    repeated = max([len(v) for v in same.values()] or [0])
    if repeated >= 2:
        labels.append(f"same-answer-in-turns={repeated}")
    failed_turns = surrogate_turns = 0
    last = len(case["turns"]) - 1
    for t, (spec, o) in enumerate(zip(case["turns"], obs.turns)):
        reached = [r for r in sess.reached if r["turn"] == t]
        hostile = [r for r in reached if r["c"] is not None]
        where = f"mode {mode}, turn {t}" + (" (benign closing turn)" if t == last else "") + "; hostile answers so far: " + repr(
            [(r["turn"], r["k"], r["task"], r["c"], r["answer"][:60]) for r in sess.reached if r["c"] is not None and r["turn"] <= t]
        )
        detail = {"mode": mode, "turn": t, "benign": t == last, "hostile": [[r["turn"], r["k"], r["task"], r["c"], r["kind"], r["answer"]] for r in sess.reached if r["c"] is not None and r["turn"] <= t]}
        if o["raised"]:
            msg = o["exc_msg"]
            what = "Too many events" if pipeline.EVENT_BUDGET in msg else o["exc_type"]
            detail.update(exc_type=o["exc_type"], exc_where=o["exc_where"], exc_chain=o["exc_chain"], exc_msg=msg)
            raise Violation(f"raised:{what}@{o['exc_where']}", f"generate raised {o['exc_type']}: {msg[:160]!r} ({where})"[:900], detail)
        prob = _wellformed_problem(cfg, o)
        if prob:
            raise Violation(f"malformed-reply:v{cfg['v']}", f"{prob} ({where})"[:900], detail)
        text = pipeline.reply_text(o)
        if any(m in text for m in INTERNAL_ERROR_MARKS):
            labels.append(f"internal-error:{mode}")
            counters[f"internal-error|{mode}"] = 1
            failed_turns += 1
        if o["reply"].get("role") == "exception":
            labels.append(f"exception-reply:{mode}")
        if o["reply"].get("role") == "assistant" and not text.strip():
            labels.append(f"empty-reply:{mode}" + (":benign-turn" if t == last else ""))
            counters[f"empty-reply|{mode}|{'benign' if t == last else 'hostile'}-turn"] = 1
        if t == last and not reached:
            labels.append(f"benign-turn-without-llm-call:{mode}")
        if has_surrogate(text):
            surrogate_turns += 1
            labels.append(f"reply-with-lone-surrogate:{mode}")
        if "<think>" in text and "</think>" not in text[text.index("<think>"):]:
            labels.append(f"reply-with-unclosed-think:{mode}")
        # template / variable syntax at message-text positions
        by_design = any(r["task"] not in MESSAGE_TASKS and "secret_var" in r["answer"] for r in hostile)
        bare = LLM_MARK.sub("", text)
        echoed = [r for r in hostile if r["task"] not in MESSAGE_TASKS or r["task"] == "single_call"]
        echoed = [v for r in echoed for v in ECHO_VARS if "$" + v in r["answer"]]
        for r in [r for r in sess.reached if r["c"] is not None and r["turn"] <= t]:
            if r["task"] not in MESSAGE_TASKS or (r["kind"] != "msg" and r["task"] not in PURE_MESSAGE_TASKS):
                continue
            marker = mk_llm(r["turn"], r["k"])
            later = r["turn"] < t  # the stored LLM text resurfaces (e.g. through a `bot $last_bot_message` intent)
            if marker not in text:
                if r["kind"] == "msg" and not later:
                    labels.append(f"payload-not-uttered:{r['task']}")
                continue
            payload = r["payload"] if r["kind"] == "msg" else r["answer"]
            fam = _family(payload)
            if later:
                fam = "later-turn-" + fam
                labels.append("stored-llm-text-in-later-reply")
                counters[f"stored|{cfg['mode']}|{r['task']}|{'+'.join(sorted(set(echoed))) or 'other'}"] = 1
            d = dict(detail, task=r["task"], payload_class=r["c"], payload=payload, answer_kind=r["kind"], reply=text[:400], later_turn=later, from_turn=r["turn"])
            if SECRET in text and "secret_var" in payload and not by_design:
                raise Violation(f"template-evaluated:{fam}-leaked:{r['task']}", f"{r['kind']} answer {payload[:120]!r} returned by the LLM as message text{' in turn %d' % r['turn'] if later else ''} came back with the value of the context variable: reply {text[:200]!r} ({where})"[:900], d)
            if "7*7" in payload and "49" in bare:
                raise Violation(f"template-evaluated:{fam}-computed:{r['task']}", f"{r['kind']} answer {payload[:120]!r} returned by the LLM as message text{' in turn %d' % r['turn'] if later else ''} was evaluated: reply {text[:200]!r} ({where})"[:900], d)
            if r["kind"] != "msg":
                continue
            if payload not in text:
                raise Violation(f"template-evaluated:{fam}-altered:{r['task']}", f"payload {payload!r} returned by the LLM as message text{' in turn %d' % r['turn'] if later else ''} is not in the reply literally although the reply derives from that answer: reply {text[:200]!r} ({where})"[:900], d)
            labels.append(f"payload-literal:{r['task']}" + (":later-turn" if later else ""))
            counters[f"literal{'-later' if later else ''}|{cfg['mode']}|{r['task']}|{r['c']}"] = 1
    keys = set()
    for r in sess.reached:
        if r["c"] is None:
            continue
        cls = r["c"] if r["kind"] != "mut" else "mutation"
        key = f"reach|{cfg['mode']}|{r['task']}|{r['k']}|{r['kind']}:{cls}"
        counters[key] = counters.get(key, 0) + 1
        keys.add(key)
        labels.append(f"reached:{cfg['mode']}:{r['task']}")
        labels.append(f"class:{r['kind']}")
        if str(r["c"]).startswith("py-lit:"):
            # built literal answer: family of the leaf @ its slot, at a value-generation call or elsewhere; nesting depth
            spec_ = sess.place.get((r["turn"], r["k"])) or {}
            labels.append(f"literal:{r['c'][7:]}:{r['task'] if r['task'] in VALUE_TASKS else 'other-task'}")
            if r["task"] in VALUE_TASKS and spec_.get("lit"):
                labels.append(f"literal-depth={1 + spec_['lit']['tuples'] + len(spec_['lit']['wraps'])}")
                counters[f"lit|{cfg['mode']}|{r['task']}|{spec_['lit']['leaf']}|{spec_['lit']['slot']}"] = 1
        if cfg.get("valmsg") and r["task"] == "v1_value":
            # the value the LLM wrote is rendered through the predefined message that mentions the variable
            labels.append(f"value-into-predefined-message:{r['kind']}:{cfg['mode']}")
            counters[f"valmsg|{cfg['mode']}|{cfg['valmsg']}|{r['kind']}:{cls}"] = 1
        if r["kind"] == "int":
            labels.append(f"bot-intent:{r['c']}:{r['task'] if r['task'] in ('generate_next_steps', 'single_call') else 'other-task'}")
        if family(r["c"]):
            # lone surrogates / reasoning-trace tokens: as raw text anywhere, or (dat) as the message text in the task's format
            labels.append(f"{family(r['c'])}:{r['kind']}:{r['task']}")
            counters[f"{family(r['c'])}|{cfg['mode']}|{r['task']}|{r['k']}|{r['kind']}"] = 1
        if r["kind"] == "dat":
            labels.append(f"plain-data:{r['task'] if r['task'] in MESSAGE_TASKS else 'non-message-task'}")
        if r["kind"] == "ctl":
            labels.append(f"control-string:{r['task'] if r['task'] in MESSAGE_TASKS else 'non-message-task'}")
        elif str(r["c"]).startswith("peer-placeholder"):
            labels.append(r["c"])
    if failed_turns >= 2:
        # (measured from the replies) the conversation went on after a turn that ended in the fixed internal-error reply, and
        # a later turn ended that way again
        labels.append(f"internal-error-turns={failed_turns}:{mode}")
        counters[f"internal-error-turns>=2|{mode}"] = 1
    if surrogate_turns:
        # (measured) the shape of the conversation the caller keeps: how many replies carried a lone surrogate, and whether the
        # texts of the conversation take the plain form of the implicit history cache key (no ':' in a user / assistant text,
        # none starts with '{' or '[') - the tree keeps one cache entry per turn when no `state` is passed (Colang 1.0)
        labels.append(f"lone-surrogate-replies={min(surrogate_turns, 3)}")
        if cfg["v"] == 1:
            texts = [m.get("content") for m in sess.messages if m.get("role") in ("user", "assistant")]
            plain = all(isinstance(x, str) and ":" not in x and x[:1] not in ("{", "[") for x in texts)
            labels.append("lone-surrogate-reply:history-key-" + ("plain" if plain else "json"))
            counters[f"surrogate-reply|{cfg['mode']}|{'plain' if plain else 'json'}-key|turns={min(surrogate_turns, 3)}"] = 1
    missed = len(case.get("place", [])) - len([r for r in sess.reached if r["c"] is not None])
    if missed > 0:
        labels.append("placement-not-reached")
        counters["placements-not-reached"] = missed
    counters["placements-reached"] = len([r for r in sess.reached if r["c"] is not None])
    nt = bool(keys)
    view = None
    if nt:
        view = {
            "mode": mode,
            "api": case.get("api", "sync"),
            "turns": [
                {
                    "user": spec["user"][:80],
                    "route": spec.get("route"),
                    "llm_calls": [{"k": r["k"], "task": r["task"], "class": r["c"], "answer": r["answer"][:120]} for r in sess.reached if r["turn"] == t],
                    "reply": {"role": o["reply"].get("role"), "content": str(o["reply"].get("content"))[:160]},
                }
                for t, (spec, o) in enumerate(zip(case["turns"], obs.turns))
            ],
        }
    return ok(nt=nt, labels=sorted(set(labels)), view=view, key="|".join(sorted(keys)) if keys else None, counters=counters)


def _run(case):
    try:
        return _check(case, run_conversation(case, fresh=False))
    except Violation as first:
        try:
            _check(case, run_conversation(case, fresh=True))
        except Violation:
            raise
        raise RuntimeError(f"harness: violation seen only on a reused LLMRails instance, not on a fresh one: {first}")


def _rearm():
    """Make the one-shot watchdog periodic: an alarm raised inside a sub-task step is swallowed by asyncio."""
    cur, _ = signal.getitimer(signal.ITIMER_REAL)
    if cur > 0:
        signal.setitimer(signal.ITIMER_REAL, cur, 2.0)


CYCLE_WORDS = ("goto", "continue")
SHORT_LIMIT = 6  # seconds; ~400x the normal time of a Colang 1.0 turn
THINK_LIMIT = 10  # seconds; cases with a think-token text among the placements and no 50k text


def _limit(case):
    """Cases carrying the text signature of the listed hang C17-F7e (multi-step mode, a corpus text with a `goto` / `continue`
    cycle) run under a short inner limit, so that the listed finding costs seconds, not minutes, per instance."""
    specs = [spec for _, _, spec in case.get("place", [])]
    if THINK_LIMIT and any("think>" in json.dumps(spec) for spec in specs) and not any(spec.get("long") for spec in specs):
        # a placement carries a reasoning-trace token (corpus text, plain-data text or a token a mutation inserts) and none is
        # a 50k text: such a conversation takes well under a second (the slowest of the 432 enumerated ones 3 s with the
        # construction of a Colang 2.x instance on a loaded machine), so a turn that never returns is reported after 10 s + 30 s
        return THINK_LIMIT
    if case["config"]["mode"] in ("v2llmc", "v2llmc1"):
        # text signature of the self-starting generated flow (C17-F7j): normal time of such a turn is < 1 s
        if any(spec.get("c") in PENDING_RAW["C17-F7j"] for _, _, spec in case.get("place", [])):
            return 2 * SHORT_LIMIT
        return CASE_TIMEOUT
    if case["config"]["mode"] != "multi":
        return CASE_TIMEOUT
    for _, _, spec in case.get("place", []):
        if any(w in (spec.get("text") or "") for w in CYCLE_WORDS):
            return SHORT_LIMIT
    return CASE_TIMEOUT


def _guarded(case, seconds):
    """_run under an inner watchdog; returns (result, None) or (None, frame chain at the point of interruption)."""
    try:
        with core.Watchdog(seconds):
            _rearm()
            return _run(case), None
    except core.CaseTimeout as e:
        signal.setitimer(signal.ITIMER_REAL, 0)
        chain = _chain(e.__traceback__)
        reset_all()
        return None, chain


def prop(case):
    mode = case["config"]["mode"]
    limit = _limit(case)
    try:
        res, chain = _guarded(case, limit)
    except core.CaseTimeout:  # the runner's own alarm (only if it is shorter than ours)
        signal.setitimer(signal.ITIMER_REAL, 0)
        reset_all()
        raise
    if chain is None:
        return res
    # confirmation: alone, fresh runtime, three times the limit
    res, chain2 = _guarded(case, limit * 3)
    if chain2 is None:
        return res
    where = chain2[-1] if chain2 else "unknown"
    raise Violation(
        f"hang:{mode}",
        f"generate did not return within {limit * 3}s (second run on a fresh instance, first limit {limit}s); interrupted in {where}; placements {case.get('place')!r}"[:900],
        {"mode": mode, "hang": True, "hang_where": where, "hang_chain": chain2, "first_chain": chain},
    )


# ------------------------------------------------------------------------------------------------
# known findings (signatures as narrow as the observations allow; anything else stays a VIOLATION)


def _f7a_shape(answer):
    """True iff the documented shrink loop (drop last lines until the text parses as a file) leaves a body that parses
    un-wrapped but not as the body of `define flow <id>:` with exactly one flow (uses the tree's parser as a tool)."""
    from textwrap import indent

    from nemoguardrails.colang import parse_colang_file

    def parses(content, one_flow=False):
        try:
            res = parse_colang_file("dynamic.co", content=content)
            return not one_flow or len(res["flows"]) == 1
        except Exception:
            return False

    try:
        with core.Watchdog(10):
            lines = answer.split("\n")
            while not parses("\n".join(lines)):
                if len(lines) == 1:
                    return False  # the loop answers `bot general response`: no start_flow at all
                lines = lines[:-1]
            body = "\n".join(lines)
            return not parses("define flow x:\n" + indent(body, "  "), one_flow=True)
    except core.CaseTimeout:
        return False


def _hostile_tasks(d):
    """tasks at which a hostile answer was returned in the violating turn."""
    return {h[2] for h in d.get("hostile", []) if h[0] == d.get("turn")}


def known(case, violation):
    d = violation.detail or {}
    kind = violation.kind
    mode = d.get("mode", "")
    chain = d.get("exc_chain") or []
    if kind.startswith("raised:") and mode.startswith("multi") and "generate_next_steps" in _hostile_tasks(d):
        in_start_flow = "runtime.py:_process_start_flow" in chain
        if in_start_flow and ("__init__.py:parse_colang_file" in chain or (d.get("exc_where") == "runtime.py:_process_start_flow" and d.get("exc_type") == "AssertionError")):
            # generated body validated un-wrapped, parsed wrapped: the second parse is unguarded.  Precise signature: the
            # body that survives the documented parse-and-shrink loop parses on its own, and fails only in its wrapped form.
            answers = [h[5] for h in d.get("hostile", []) if h[0] == d.get("turn") and h[2] == "generate_next_steps"]
            if answers and all(_f7a_shape(a) for a in answers):
                return "C17-F7a"
            return None
        if d.get("exc_type") == "IndexError" and d.get("exc_where") == "runtime.py:generate_events" and not in_start_flow:
            return "C17-F7b"  # started flow yields no next step: next_events[-1] on an empty list
        if "Too many events" in kind and d.get("exc_where") == "runtime.py:generate_events":
            return "C17-F7c"  # generated flow needs more than 100 events (while True, >= ~25 steps)
        if d.get("exc_type") == "KeyError" and d.get("exc_where") == "flows.py:_slide_with_subflows" and any(
            re.search(r"^\s*do ", h[5], re.M) for h in d.get("hostile", []) if h[2] == "generate_next_steps"
        ):
            return "C17-F7d"  # `do <unknown subflow>` in the generated flow
        if d.get("exc_where") == "eval.py:eval_expression" and "sliding.py:slide" in chain and d.get("exc_msg", "").startswith("Error evaluating"):
            return "C17-F7i"  # an expression of the generated flow (`$x = 1/0`, `if $undefined.foo`) fails while the flow is advanced
    if kind in ("hang:v2llmc", "hang:v2llmc1") and "statemachine.py:run_to_completion" in (d.get("hang_chain") or []) and any(
        spec.get("c") in PENDING_RAW["C17-F7j"] for _, _, spec in case.get("place", [])
    ):
        return "C17-F7j"  # the flow body generated for an undefined flow starts that flow again: the state machine never comes to rest
    if kind.startswith("template-evaluated:") and kind.endswith("-altered:v2_value") and mode == "v2interp":
        payload, reply = d.get("payload", ""), d.get("reply", "")
        if ("{{" in payload or "}}" in payload) and payload.replace("{{", "{").replace("}}", "}") in reply:
            return "C17-F7k"  # `{{` / `}}` of an LLM generated value collapse when the flow's string literal interpolates the value
    if kind == "hang:multi" and "sliding.py:slide" in (d.get("hang_chain") or []) and "runtime.py:generate_events" in (d.get("hang_chain") or []):
        return "C17-F7e"  # jump cycle without a yielding element in the generated flow: slide() never returns
    if kind.startswith("template-evaluated:") and d.get("task") in ("v2_flow_continuation", "v2_intent_and_action", "v2_flow_from_name"):
        payload, reply = d.get("payload", ""), d.get("reply", "")
        if "$" in payload and "{" not in payload and re.sub(r"\$([a-zA-Z_][a-zA-Z0-9_]*)", r"var_\1", payload) in reply:
            return "C17-F7f"  # `$name` inside a Colang 2.x string literal rewritten to `var_name`
        if "{" in payload:
            return "C17-F7g"  # `{...}` in the generated `bot say "..."` is Colang 2.x string interpolation: evaluated / braces collapsed
    if kind == "raised:Exception@serialization.py:encode_to_dict" and mode == "v2value" and "Unhandled type in encode_to_dict" in d.get("exc_msg", "") and "v2_value" in {h[2] for h in d.get("hostile", [])}:
        return "C17-F7h"  # generated value of a literal type the state serializer cannot encode (Ellipsis, bytes, complex)
    return None
