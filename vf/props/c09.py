"""C09 - after each event the interpreter is quiescent and its dispatch index is exact.

Domain : general Colang 2 programs (vf/co2.py: match/send/actions/start/await/activate/groups/if/while/when/
         return/abort/break/continue, 1-4 helper flows + main, loops @loop(L1|NEW)) x histories of <= 30 events
         (alphabet events with parameters, Started/Finished of running actions) x tie-break outcomes; thorough tier adds
         ALL histories of length <= 4 over a 3-event alphabet for a family of generated programs.
         One more program dimension: or-groups whose alternatives are patterns of ONE event (literal / regular expression /
         other parameter / the same pattern twice), so that one event satisfies several alternatives - with equal or different
         matching scores - and the merge of the forked heads depends on the tie-break: drawn into half of the generated programs
         and enumerated (5 constructs x all pattern pairs x all short histories x 3-4 tie-break outcomes).
         And one more: a PARENT flow and its CHILD waiting for the SAME event, the parent (first in the hierarchy order) ending on
         it - finishes, returns, aborts - while the child's matched head is still queued, the child's next statement being a head
         fork (or-/and-group, when, send/start/await group): drawn into 2 of 5 generated programs (with the shared event steered
         into the history) and enumerated (4 relations x 5 parent ends x 10 child continuations x 3 pattern pairs x short histories).
         And the MAIN flow as a dimension of its own: how it ENDS (waits for ever | ends after k statements | ends after an event -
         the interpreter then re-arms it: status WAITING, one fresh head on `match StartFlow(flow_id="main")`, started again by the
         StartFlow(main) event that the runtime sends at the next turn = history item ["startmain"]) and a FAULTY ACTION statement in
         main itself (an action whose Start event cannot be generated, e.g. `start UtteranceBotAction(script=None)`: the error arises
         while the action conflicts are resolved - as the single actionable head, or as winner / loser / co-winner against a rival
         flow that acts on the same event): drawn into the generated programs and the library leg, and enumerated (families
         main-ends and main-faulty-action).
         And the LENGTH of the cascade of internal events that ONE event triggers: counting loops of main that await / start a child
         flow each round without any external wait (plain, nested, watched by an activated flow, over a chain of flows), 150-640 rounds =
         several hundred to several thousand internal events for one event - enumerated (family long-cascade, placed first), drawn as
         a template case (1 of 150) and injected into main of generated programs (1 of 100); the length is measured and labelled.
Oracle : structural invariants after EVERY run_to_completion (vf/smh.invariants): I1 no pending internal event, I2 every
         listening flow's live heads are parked on match/WaitForHeads (smh also tolerates MergeHeads; merges_pending() below
         does not: a head merging statement is executed, not waited on, so no live head may be left there), I3 finished/stopped
         instances hold no live head, I4 event_matching_heads equals the from-scratch scan of all waiting match statements (and
         the reverse map is its inverse), I5 flow_id_states partitions flow_states, I6 referenced actions/children/parents exist.
"""
import itertools

from hypothesis import strategies as st

from vf import co2, smh
from vf.core import Violation, ok

PID = "C09"
LEVEL = "exploration"
CASE_TIMEOUT = 40
RULE = (
    "enumerated (placed first): the long-cascade family - ONE external event that triggers a long but finite cascade of internal events (every flow start / finish is one): 5 shapes (main counts `while $ci < N` and awaits a small child flow each round without any external wait | starts it | two nested counting loops | the same loop watched by an activated flow `match FlowStarted(flow_id=child)` that every round finishes and restarts | a loop over a chain of 8-20 flows each awaiting / starting the next) x 2 children (assignment | a send: one outgoing event per round) x 2 places (the cascade runs while main is started | after `match Ev0()`) x 2 tails (main then waits for Ev1, starts an action and waits for ever | main ends after a last send: re-armed, and [\"startmain\"] runs the cascade once more) with N cycling through 150, 250, 340, 400, 450, 500, 600 (thorough: every N) and an activated bystander flow waiting for the same Ev0 in every second program, one history (Ev0, Ev1, state round trip, startmain, Ev0, Finished of the action, Ev1); the length of the cascade is MEASURED (internal events processed per run_to_completion, counted by a wrapper of the module) - label internal-events-per-event:<=10|<=100|<=1000|<=3000|>3000 on every case of every leg; non-trivial = some event of the case made the interpreter process more than 1000 internal events; "
    "the main-ends family - the MAIN flow reaches its end: 4 preludes (nothing below main | an activated child | a started child that still waits + a running action | all three) x 6 bodies (main ends at once while it is started | after an event | after two events | out of `match Ev0() or Ev1()` | out of a when/or when | after an awaited child) x 4 ends (runs off its end | `return` | a last `send` | `abort` as control: main fails and is not re-armed) x ALL histories of length <= 3 (quick) / 4 (thorough) over Ev0, Ev1, [\"startmain\"] = StartFlow(flow_id=main) as the runtime sends it at the next turn - fed only while main is WAITING, a state round trip (thorough: + 6 s idle time); non-trivial = main was seen re-armed (status WAITING after it had run); "
    "the main-faulty-action family - an action statement of MAIN itself whose Start event cannot be generated (6 statements: `start UtteranceBotAction(script=None)`, `start UtteranceBotAction(script=5) as $bad`, `await UtteranceBotAction(script=None)`, `start UtteranceBotAction()`, `start UtteranceBotAction(script=None) and GestureBotAction(..)`, `await UtteranceBotAction(script=None) or GestureBotAction(..)`) x 3 places (first statement of main | right after `match Ev0(..)` | inside a when-case) x 5 rivals (none: main is the single actionable head | a flow started by main that waits for the same Ev0 and then starts a valid action | .. the identical faulty action | .. sends a plain event | .. starts a valid action in an interaction loop of its own) x 3 pattern pairs main/rival (()/(), (v=1)/(), ()/(v=1): equal scores - then also with tie-break [1] -, main or the rival more specific, so main is winner, loser or co-winner of the conflict) x ALL histories of length <= 2 (quick) / 3 (thorough) over Ev0(v=1), Ev1, Ev2, Finished of the first running action, [\"startmain\"] (thorough: + state round trip, idle time) that contain Ev0 (any history for the first-statement place); main has an activated child and a running action; non-trivial = main was seen failed (STOPPED); "
    "the parent-ends-on-shared-event family - a parent flow and its child wait for the SAME event Ev0 (pattern pairs parent/child: ()/(), (v=1)/(), ()/(v=1): equal scores, parent or child more specific), the parent is first in the hierarchy order and, once matched, finishes | returns | aborts | sends and finishes | goes on (control), while the child's next statement after its match is `match A or B` | `match A and B` | when/or when | `send A and B` | `start ActionA and ActionB` | `await ActionA or ActionB` | `await fa or fb` | a plain match | a send | nothing (child ends too) - 5 parent ends x 10 child continuations x 4 relations (parent starts the child; activates it; starts a middle flow that awaits the child; the parent itself is activated by main and restarts) x 3 pattern pairs x ALL histories of length <= 2 (quick) / 3 (thorough) over Ev0(v=1), Ev0(), Ev1, Ev2, Finished of the first running action (thorough: + state round trip) that contain Ev0 at least once; non-trivial = a parent and its child were both indexed for the event that was fed and the parent ended during it; "
    "the same-event or-group family - 5 constructs that fork heads and merge them again (`match A or B`, `match A or B or A`, `match (A and Ev1) or (B and Ev1)`, `when A or B / or when Ev1`, `await fa or fb` with fa/fb waiting for A/B; each program passes the group twice) x ALL 15 pairs {A, B} of 5 patterns of one event (Ev0(), Ev0(v=1), Ev0(v=regex(\"1\")), Ev0(v=regex(\"[01]\")), Ev0(w=2): one event satisfies both alternatives with equal or with different matching scores, or only one of them) x ALL histories of length <= 2 (quick) / 3 (thorough) over Ev0(v=1,w=2), Ev0(v=1), Ev0(v=0,w=2), Ev1, state round trip x tie-break outcomes [] (first candidate), [1], [0,1] (and [2] with three alternatives); plus four hand-written program families (two flows sharing one co-won action; a state round trip while a flow waits inside an open fork; one match statement reached with references of different action types; an activated flow whose scope end stops an action) x ALL histories of length <= 4 (quick) / 5 (thorough) over 5-6 items incl. idle time; generated, 1 of 150 cases: the long-cascade template with every dimension drawn (shape, N = one of the seven values + 0..40, child, place, tail, bystander, a history of 1-8 items over Ev0, Ev1, startmain, state round trip, Finished of the first running action); of the others 3 of 4 cases: program from the co2 grammar (1-4 helper flows h_i that only reference h_j, j>i; every while body starts with a wait; main ends in "
    "`match Never()` unless the main-end dimension says otherwise - see below; in half of the programs waits are rewritten into same-event or-groups: every `match EvA or EvB` with probability 1/2 and every plain `match Ev<k>` with probability 1/2 or 1/4 becomes `match Ev<k>(p1) or Ev<k>(p2) [or Ev<k>(p3)]` with patterns drawn from (), (v=0), (v=1), (v=regex 0), (v=regex 1), (v=regex [01]) - label same-event-or-group; in 2 of 5 programs with >= 2 helpers a helper P is made the parent of a later helper C waiting for the same event: C's first statement becomes `match Ev<e>(pc)` followed by a drawn head fork (or-group, and-group, same-event or-group, when, send group, start group, await-actions group, await-flows group) or by whatever was generated, P gets `start C` / `activate C` + `match Ev<e>(pp)` at a drawn top-level place (before / after its own first wait or later; pp = pc in half of the cases, else patterns of different specificity) and then ends - runs off its end, `return`, `abort` - or goes on, main starts P first thing in 2 of 3 such programs, and Ev<e> is inserted at 1-3 drawn places of the history - labels shared-wait-parent-child, shared-wait-parent:<end>, shared-wait-child-next:<kind>, and, observed at run time for every leg, parent-ended-on-event-its-child-waited-for; the MAIN flow as a dimension: main-end = waits (`match Never()`, 1 of 2) | ends-after-k (main is cut after its first k generated top-level statements, mostly few are cut; k = 0: main ends while it is started) | ends-after-event (`match Ev<e>()` [+ a send] instead of `match Never()`), with Ev<e> at 1-2, [\"startmain\"] at 1-3 and [\"mainhit\"] (an event that main itself waits for at that moment) at 3-10 drawn places of the history - labels main-end:<kind> and, observed, main-ended-and-re-armed, main-started-again; main-fault (1 of 4 programs without the parent/child dimension): one of the 6 faulty action statements at a drawn top-level place of main - anywhere, or right after a wait of its own `match Ev<e>(pm)` and then in 4 of 5 cases with a rival: a helper that main starts just before, whose first wait becomes `match Ev<e>(pr)` (pr = pm or of another specificity) followed by a valid action | the same faulty statement | a plain send - with Ev<e> and [\"mainhit\"] steered into the history - labels main-fault:<statement>, main-fault-place:, main-fault-rival:, and, observed, main-failed; long cascade (1 of 100 programs): one of the 5 cascade shapes with drawn N and child at a drawn top-level place of main, its helper flows added in front of main, [\"mainhit\"] items steered into the history so that main gets there - labels long-cascade-in-generated-main, cascade-shape:<shape>, and the measured internal-events-per-event:<bucket>) x history of 1-30 items (Ev0..Ev3 with v in {None,0,1}; Started/Finished of the k-th running action) x 0-3 tie-break "
    "choices; 1 of 4 cases: the shipped library (core, timing, avatars) under a generated main that activates 0-5 library flows and loops over 1-4 `when <user flow> / <bot flow>` cases, with histories of user utterances (final/interim/started), Ev0 and Started/Finished of running actions (timers, utterances, gestures, CheckFlowDefinedAction) - in 1 of 3 library cases main has no `while True`, i.e. it ends after the first case that fires (label main-end:ends-after-one-round; [\"startmain\"] at 1-4 places and 0-3 times an utterance followed by two action ends are inserted), in 1 of 6 the body of one when-case is a faulty action statement of main (label main-fault:in-when-case); invariants I1-I6 are evaluated after the start and after every event (I2 strictly: match or WaitForHeads only, a live head left on a MergeHeads statement is a violation). Tie-breaks are owned by the case (`choices`, cyclic; label tie-break-not-first-candidate = some consumed choice asked for another than the first candidate). Non-trivial = the program forks heads (group/when) AND "
    "some flow instance with children or actions ended during the history AND the history has >= 10 events; for the same-event family: >= 1 event fed and several heads arrived at one merge statement (a winner was picked); distinct by case (program, history, choices)."
)
ASSUMPTIONS = [
    "programs whose own statements raise are C10's domain and are not generated here - with one exception: the MAIN flow may carry one faulty ACTION statement (the Start event of the action cannot be generated), because what the interpreter does with a failing main flow differs from what it does with any other flow and C10 only injects faults into helper flows; the interpreter handles that error itself (ColangError event, the flow fails), so any exception out of run_to_completion is still reported",
    "a main flow that reached its end is re-armed by the interpreter (status WAITING, one head on `match StartFlow(flow_id=\"main\")`): it is a listening flow, so I2/I4/I6 apply to it as they are - its waiting head must be in the dispatch index - and nothing more is asserted about it (not that its children / actions are gone, not what it does when started again). [\"startmain\"] is fed only while main is WAITING, as RuntimeV2_x.process_events does; a main flow that failed (STOPPED) or that ended without ever having waited (it stays STARTED with an inactive head behind its last statement, like an activated flow that never waited) is never started again",
    "[\"mainhit\"] history items read the interpreter's state (which event does main wait for right now, with which literal for v) to steer the history - input generation only, no verdict depends on it; the labels main-ended-and-re-armed / main-started-again / main-failed read main's status - coverage bookkeeping only",
    "histories contain explicit `age` items (6 s of idle time on the harness-owned clock), otherwise the clock is frozen",
    "a head merging statement (MergeHeads) is not a waiting statement in the sense of the property: a head that reaches it is merged in the same run_to_completion (winner continues, the others turn inactive) and nothing a later event does could release a head left there, so a live head on MergeHeads after an event counts as 'left on a statement that could still execute'",
    "the label parent-ended-on-event-its-child-waited-for (and the non-trivial rule of the parent/child family) reads the interpreter's own index before the event is fed - coverage bookkeeping only, no verdict depends on it",
    "the statement puts no bound on the number of internal events one external event may trigger: a finite cascade of any length (here up to about 5000 internal events; counting loops, so termination is by construction) must end in the same quiescent state as a short one. The counter behind the label internal-events-per-event wraps the interpreter's per-internal-event entry (_process_internal_events_without_default_matchers) and only counts - coverage bookkeeping, no verdict depends on it. The cascade's child flows compete with nothing: the activated bystander of the family sends no event (a send on the same event would be an action conflict with the child's send and legitimately fail main)",
    "events of the generated histories carry the parameter v only (None, 0, 1), so generated same-event alternatives are patterns over v; the second parameter w only occurs in the enumerated family",
]
WALL = {"quick": 170, "thorough": 1500}


def budget(tier):
    return 8000 if tier == "quick" else 100000


LIB_ACTIVATE = [
    "tracking bot talking state",
    "tracking user talking state",
    "notification of colang errors",
    "notification of undefined flow start",
    "notification of unexpected user utterance",
    'handling bot talking interruption $mode="inform"',
    "managing listening posture",
    "managing talking posture",
    "tracking visual choice selection state",
]
LIB_USER = [
    'user said "hi"',
    "user said something",
    'user saying "stop"',
    "user was silent 2.0",
    "user didnt respond 3.0",
    'user gestured "wave"',
    "user said something unexpected",
    'user said "bye" or user said "ciao"',
]
LIB_BOT = [
    'bot say "hello"',
    'bot inform "info"',
    'bot gesture "nod"',
    'bot say "a" and bot gesture "b"',
    'bot ask "how are you"',
    "bot was silent 1.0",
    'start bot say "long text" as $ref\n      match Ev0()\n      send $ref.Stop()',
    "undefined flow name",
]
# faulty action statements in MAIN itself (the Start event of the action cannot be generated); C09's own library cases only - C11 shares
# _lib_case() / LIB_BOT and must not see them - addressed by the indexes len(LIB_BOT)..
LIB_MAIN_FAULTS = [
    "start UtteranceBotAction(script=None)",
    'await UtteranceBotAction(script=None) or GestureBotAction(gesture="g")',
]
LIB_TEXTS = ["hi", "bye", "please stop now", "something else", ""]


@st.composite
def _lib_case(draw):
    acts = draw(st.lists(st.integers(0, len(LIB_ACTIVATE) - 1), unique=True, max_size=5))
    cases = draw(st.lists(st.tuples(st.integers(0, len(LIB_USER) - 1), st.integers(0, len(LIB_BOT) - 1)).map(list), min_size=1, max_size=4, unique_by=lambda x: x[0]))
    item = st.one_of(
        st.tuples(st.just("say"), st.integers(0, len(LIB_TEXTS) - 1)),
        st.tuples(st.just("say"), st.integers(0, len(LIB_TEXTS) - 1)),
        st.tuples(st.just("saying"), st.integers(0, len(LIB_TEXTS) - 1)),
        st.tuples(st.just("ustart"), st.just(0)),
        st.tuples(st.just("ev"), st.just(0), st.none()),
        st.tuples(st.just("finished"), st.integers(0, 3)),
        st.tuples(st.just("finished"), st.integers(0, 3)),
        st.tuples(st.just("started"), st.integers(0, 3)),
    ).map(list)
    return {"leg": "lib", "activate": sorted(acts), "cases": cases, "hist": draw(st.lists(item, min_size=3, max_size=25)), "choices": draw(st.lists(st.integers(0, 3), max_size=3))}


@st.composite
def _lib_case_main(draw):
    """The library case of C09 (the plain _lib_case() is shared with C11) with the MAIN flow as one more dimension."""
    case = draw(_lib_case())
    if draw(st.integers(0, 2)) == 0:
        # no `while True` around the when-cases: main reaches its end after the first case that fires (every flow it activated is
        # stopped with it), waits for its next start, and the next turn starts it again
        case["main_end"] = "ends-after-one-round"
        for _ in range(draw(st.integers(1, 4))):
            case["hist"].insert(draw(st.integers(1, len(case["hist"]))), ["startmain"])
        # (a round is over when a user flow has fired and its bot flow has finished: more utterances and action ends help main on)
        for _ in range(draw(st.integers(0, 3))):
            at = draw(st.integers(0, len(case["hist"])))
            case["hist"][at:at] = [["say", draw(st.integers(0, len(LIB_TEXTS) - 1))], ["finished", 0], ["finished", 0]]
    if draw(st.sampled_from([False] * 5 + [True])):
        # the body of one when-case is a faulty action statement of main itself
        case["cases"][draw(st.integers(0, len(case["cases"]) - 1))][1] = len(LIB_BOT) + draw(st.integers(0, len(LIB_MAIN_FAULTS) - 1))
    return case


def lib_program(case):
    lines = ["flow main"]
    for a in case["activate"]:
        lines.append("  activate " + LIB_ACTIVATE[a])
    ind = "  "
    if case.get("main_end") != "ends-after-one-round":
        lines.append("  while True")
        ind = "    "
    for i, (u, b) in enumerate(case["cases"]):
        lines.append(ind + ("when " if i == 0 else "or when ") + LIB_USER[u])
        lines.append(ind + "  " + (LIB_BOT + LIB_MAIN_FAULTS)[b].replace("\n      ", "\n  " + ind))
    return "\n".join(lines) + "\n"


# parameter patterns of one event Ev<k>(v=.., w=..): several of them are satisfied by the same event with the SAME matching score
# (a literal and a regular expression on the same parameter, overlapping regular expressions, equally specific patterns on
# different parameters, the same pattern twice), others with different scores (bare Ev<k>() is less specific)
V_PATTERNS = ["", "v=0", "v=1", 'v=regex("0")', 'v=regex("1")', 'v=regex("[01]")']  # events of generated histories carry v only
VW_PATTERNS = ["", "v=1", 'v=regex("1")', 'v=regex("[01]")', "w=2"]  # the enumerated family feeds Ev0(v=.., w=..)


def _same_event_group(e, pats):
    return {"k": "raw", "sameev": len(pats), "text": "match " + " or ".join(f"Ev{e}({V_PATTERNS[p]})" for p in pats)}


def _walk(stmts):
    for s in stmts:
        yield s
        for key in ("then", "else", "body"):
            if isinstance(s.get(key), list):
                yield from _walk(s[key])
        for c in s.get("cases", []):
            yield from _walk(c["body"])


def _rewrite(draw, stmts, rate):
    """Turns waits of a generated body into or-groups whose alternatives are patterns of ONE event: every `match A or B`
    or-group with probability 1/2, a plain `match Ev<k>(..)` with probability 1/rate. A wait stays a wait."""
    for i, s in enumerate(stmts):
        if s["k"] == "matchg" and s["op"] == "or" and draw(st.booleans()):
            stmts[i] = _same_event_group(s["evs"][0], [draw(st.integers(0, len(V_PATTERNS) - 1)) for _ in s["evs"]])
        elif s["k"] == "match" and draw(st.integers(1, rate)) == 1:
            n = draw(st.sampled_from([2, 2, 2, 3]))
            stmts[i] = _same_event_group(s["ev"], [draw(st.integers(0, len(V_PATTERNS) - 1)) for _ in range(n)])
        for key in ("then", "else", "body"):
            if isinstance(s.get(key), list):
                _rewrite(draw, s[key], rate)
        for c in s.get("cases", []):
            _rewrite(draw, c["body"], rate)


SHARED_ENDS = ["finishes", "finishes", "returns", "aborts", "goes-on"]
SHARED_CONTS = ["or-group", "and-group", "same-event-or", "when", "send-group", "start-group", "await-actions", "await-flows", "as-generated", "as-generated"]


def _fork_stmt(draw, kind, callees):
    """One statement of the co2 grammar that forks heads (the child's statement right after the shared wait)."""
    two = lambda hi: draw(st.lists(st.integers(0, hi), min_size=2, max_size=3, unique=True))  # noqa: E731
    if kind == "await-flows" and len(callees) < 2:
        kind = "or-group"
    if kind in ("or-group", "and-group"):
        return {"k": "matchg", "op": kind[:-6], "evs": two(co2.EVENTS - 1)}
    if kind == "same-event-or":
        return _same_event_group(draw(st.integers(0, co2.EVENTS - 1)), [draw(st.integers(0, len(V_PATTERNS) - 1)) for _ in range(2)])
    if kind == "when":
        return {"k": "when", "cases": [{"ev": e, "body": [{"k": "send", "n": draw(st.integers(0, 5))}]} for e in two(co2.EVENTS - 1)]}
    if kind == "send-group":
        return {"k": "sendg", "op": draw(st.sampled_from(["or", "and"])), "ns": two(5)}
    if kind in ("start-group", "await-actions"):
        return {"k": "startga" if kind == "start-group" else "awaitga", "op": draw(st.sampled_from(["or", "and"])), "acts": two(len(co2.ACTIONS) - 1)}
    return {"k": "awaitg", "op": draw(st.sampled_from(["or", "and"])), "fs": draw(st.lists(st.sampled_from(callees), min_size=2, max_size=3, unique=True))}


def _share_wait(draw, prog):
    """One more dimension of the program: a helper P (the parent) starts / activates a later helper C (its child) and then waits for
    the SAME event as C's first statement (patterns equal or of different specificity); after that wait P ends (runs off its end,
    returns, aborts) or goes on; C's statement after its wait is a head fork of a drawn kind (or stays as generated); main starts P
    first thing in 2 of 3 programs. Returns the description that goes into the case (labels, history steering) or None."""
    helpers = prog["flows"][:-1]
    if len(helpers) < 2:
        return None
    i = draw(st.integers(0, len(helpers) - 2))
    j = draw(st.integers(i + 1, len(helpers) - 1))
    parent, child = helpers[i]["body"], helpers[j]["body"]
    e = draw(st.integers(0, co2.EVENTS - 1))
    pp = draw(st.sampled_from([0, 0, 2, 4, 5]))
    pc = pp if draw(st.booleans()) else draw(st.sampled_from([0, 2, 4, 5]))
    end, cont = draw(st.sampled_from(SHARED_ENDS)), draw(st.sampled_from(SHARED_CONTS))
    # the child: its first statement (a wait, after the two initialisations) becomes the shared wait, a fork follows
    child[2] = {"k": "raw", "shared": "child", "text": f"match Ev{e}({V_PATTERNS[pc]})"}
    if cont != "as-generated":
        callees = [c for c in range(j + 1, len(helpers)) if not helpers[c]["params"]]
        child.insert(3, _fork_stmt(draw, cont, callees))
    # the parent: `start C` / `activate C` + the shared wait at top level, before or after its own first wait or later
    k = draw(st.integers(2, min(len(parent), 5)))
    while k > 2 and parent[k - 1]["k"] in ("return", "abort"):
        k -= 1
    arg = draw(st.integers(0, 2)) if helpers[j]["params"] else None
    if arg is None and draw(st.integers(0, 2)) == 0:
        # (with recursive calls in the program C may thus be activated by one of its own descendants - found C09-F31)
        call = {"k": "activate", "f": j}
    else:
        call = {"k": "startflow", "f": j, "arg": arg, "ref": 90}
    block = [call, {"k": "raw", "shared": "parent", "text": f"match Ev{e}({V_PATTERNS[pp]})"}]
    if end == "goes-on":
        parent[k:k] = block
    else:
        parent[k:] = block + ([] if end == "finishes" else [{"k": end[:-1]}])
    if draw(st.integers(0, 2)) > 0:
        prog["flows"][-1]["body"].insert(2, {"k": "startflow", "f": i, "arg": draw(st.integers(0, 2)) if helpers[i]["params"] else None, "ref": 91})
    return {"parent": i, "child": j, "ev": e, "end": end, "cont": cont}


# The MAIN flow as a dimension of the program.
# (a) how it ends. A main flow that reaches its end (or returns) is not discarded: the interpreter re-arms it - status WAITING, all
# heads dropped, one fresh head on its first statement `match StartFlow(flow_id="main")` - and the runtime sends StartFlow(main) with
# the next turn (history item ["startmain"], fed only while main is WAITING, as the runtime does). The waiting head of the re-armed
# main is a waiting statement like any other: it must be in the dispatch index (I4), and I1-I6 hold for the re-armed instance as
# for every listening flow. Nothing else is asserted about it.
MAIN_ENDS = ["waits", "waits", "ends-after-k", "ends-after-event"]
# (b) an action statement of main itself whose Start event cannot be generated (UtteranceBotAction demands a string `script`): the
# error does not arise when the head slides onto the statement but later, when the action conflicts of the processing round are
# resolved - main being the only actionable head, the winner, the loser or the co-winner of a conflict. Whatever the interpreter
# decides to do with main then (the clean tree fails it like any other flow), no head may be left on the action statement.
MAIN_FAULTS = {
    "start": "start UtteranceBotAction(script=None)",
    "start-as-ref": "start UtteranceBotAction(script=5) as $bad",
    "await": "await UtteranceBotAction(script=None)",
    "no-argument": "start UtteranceBotAction()",
    "start-and-group": 'start UtteranceBotAction(script=None) and GestureBotAction(gesture="g")',
    "await-or-group": 'await UtteranceBotAction(script=None) or GestureBotAction(gesture="g")',
}
MAIN_RIVALS = {"action": 'start UtteranceBotAction(script="rival")', "same-fault": None, "event": "send OutR()"}  # same-fault: the statement of main


def _main_end(draw, prog):
    """Draws how main ends: as generated (`match Never()`), after its first k generated top-level statements (k = 0: at once, during
    the start), or after one more event (`match Ev<e>()` instead of `match Never()`, optionally followed by a send)."""
    main = prog["flows"][-1]["body"]  # [$x = 0, $y = 0, generated statements .., match Never()]
    end = draw(st.sampled_from(MAIN_ENDS))
    if end == "waits":
        return None
    if end == "ends-after-k":
        k = len(main) - 3 - draw(st.integers(0, len(main) - 3))  # (mostly few statements are cut; a main that never waits at all is
        del main[2 + k :]  # not re-armed: it stays STARTED with an inactive head behind its end, like an activated flow that never waited)
        return {"end": end, "k": k}
    e = draw(st.integers(0, co2.EVENTS - 1))
    main[-1] = {"k": "raw", "text": f"match Ev{e}()"}
    if draw(st.booleans()):
        main.append({"k": "send", "n": draw(st.integers(0, 5))})
    return {"end": end, "ev": e}


def _main_fault(draw, prog, open_end):
    """Puts one faulty action statement into main at a drawn top-level place: anywhere (1 of 3), or right after a wait of its own for
    a drawn event (2 of 3) - and then in 4 of 5 cases with a RIVAL: a helper that main starts just before, whose first wait becomes a
    wait for the same event (pattern equal to main's or of another specificity) followed by a valid action / the same faulty
    statement / a plain send, so that both flows arrive at their action statements in the same processing round."""
    helpers = prog["flows"][:-1]
    main = prog["flows"][-1]["body"]
    fault = draw(st.sampled_from(sorted(MAIN_FAULTS)))
    k = draw(st.integers(2, len(main) if open_end else len(main) - 1))  # never behind `match Never()`
    info = {"fault": fault, "place": "anywhere", "rival": "none"}
    block = [{"k": "raw", "mainfault": fault, "text": MAIN_FAULTS[fault]}]
    if draw(st.integers(0, 2)) > 0:
        e = draw(st.integers(0, co2.EVENTS - 1))
        pm = draw(st.sampled_from([0, 0, 2, 5]))
        info.update(place="after-wait", ev=e)
        block.insert(0, {"k": "raw", "text": f"match Ev{e}({V_PATTERNS[pm]})"})
        rival = draw(st.sampled_from(["none", "action", "action", "same-fault", "event"]))
        if rival != "none":
            j = draw(st.integers(0, len(helpers) - 1))
            pr = pm if draw(st.booleans()) else draw(st.sampled_from([0, 2, 4, 5]))
            body = helpers[j]["body"]  # [$x = 0, $y = 0, a wait, ..]
            body[2] = {"k": "raw", "text": f"match Ev{e}({V_PATTERNS[pr]})"}
            body.insert(3, {"k": "raw", "text": MAIN_RIVALS[rival] or MAIN_FAULTS[fault]})
            block.insert(0, {"k": "startflow", "f": j, "arg": draw(st.integers(0, 2)) if helpers[j]["params"] else None, "ref": 92})
            info["rival"] = rival
    main[k:k] = block
    return info


# ONE external event that triggers a LONG but finite cascade of internal events (hundreds to thousands: every flow start / finish is
# an internal event of its own): a counting loop of main that awaits / starts a small child flow each round without any external
# wait, two nested loops, the same loop watched by an activated flow that every child start finishes and restarts, a loop over a
# chain of flows each awaiting / starting the next. The statement has no bound on the length of the cascade: after the event the
# interpreter must be quiescent exactly as after a short one (I1-I6 unchanged). The length is MEASURED (internal events processed
# per run_to_completion, counted by a wrapper this module owns - _count_internal_events) and reported in the labels.
CASCADE_SHAPES = ["while-await", "while-start", "nested-while", "watched-by-activated-flow", "loop-over-chain"]
CASCADE_CHILD = {"assign": "$done = 1", "send": "send CStep()"}  # what the small child flow does (the send: one outgoing event per round)
CASCADE_N = [150, 250, 340, 400, 450, 500, 600]  # rounds (about 3 internal events per awaited child, 4 per started one, 8 when watched)


def cascade_parts(shape, n, child):
    """-> (helper flows [(name, [parameter], [line, ..])], the statements that go into main); n = number of child flows run in all."""
    step = ("cstep", ["i"], [CASCADE_CHILD[child]])
    loop = lambda var, limit, call, ind="": [ind + f"${var} = 0", ind + f"while ${var} < {limit}", ind + f"  {call} ${var}", ind + f"  ${var} = ${var} + 1"]  # noqa: E731
    if shape == "while-await":
        return [step], loop("ci", n, "await cstep")
    if shape == "while-start":
        return [step], loop("ci", n, "start cstep")
    if shape == "nested-while":
        outer = 5 + n % 7
        inner = loop("cj", max(1, n // outer), "await cstep", "  ")
        return [step], ["$ci = 0", f"while $ci < {outer}"] + inner + ["  $ci = $ci + 1"]
    if shape == "watched-by-activated-flow":
        watch = ("cwatch", [], ['match FlowStarted(flow_id="cstep")', "$seen = 1"])
        return [watch, step], ["activate cwatch"] + loop("ci", max(1, n // 2), "await cstep")  # (8 internal events per round: half the rounds)
    if shape == "loop-over-chain":
        depth = 8 + n % 13  # (deep hierarchies are slow in the interpreter: the chain stays short, the loop makes the cascade long)
        chain = [(f"cc{k}", [], [("await" if (k + n) % 3 else "start") + f" cc{k + 1}"]) for k in range(depth)] + [(f"cc{depth}", [], [CASCADE_CHILD[child]])]
        rounds = max(1, n // (depth + 1))
        return chain, ["$ci = 0", f"while $ci < {rounds}", "  await cc0", "  $ci = $ci + 1"]
    raise ValueError(shape)


CAS_TAIL = {"waits": ["match Ev1()", 'start UtteranceBotAction(script="after")', "match Never()"], "ends": ["send OutZ()"]}
CAS_ITEMS = [["ev", 0, None], ["ev", 1, None], ["startmain"], ["save"], ["finished", 0]]


def cas_program(case):
    helpers, block = cascade_parts(case["shape"], case["n"], case["child"])
    # (the bystander: an activated flow that the same event finishes and restarts; it sends nothing - a send would compete with the child's)
    flows = [("cecho", [], ["match Ev0()", "$seen = 1"])] if case["bystander"] else []
    main = (["activate cecho"] if case["bystander"] else []) + (["match Ev0()"] if case["place"] == "after-event" else []) + block + CAS_TAIL[case["tail"]]
    flows += helpers + [("main", [], main)]
    return "\n".join(f"flow {n}" + "".join(f" ${p}" for p in ps) + "\n" + "".join(f"  {line}\n" for line in body) for n, ps, body in flows)


@st.composite
def _cascade_case(draw):
    """A small program around one long cascade (the template of the enumerated family long-cascade, every dimension drawn)."""
    hist = draw(st.lists(st.sampled_from(CAS_ITEMS), min_size=1, max_size=8))
    return {
        "leg": "cas",
        "family": "long-cascade",
        "shape": draw(st.sampled_from(CASCADE_SHAPES)),
        "n": draw(st.sampled_from(CASCADE_N)) + draw(st.integers(0, 40)),
        "child": draw(st.sampled_from(sorted(CASCADE_CHILD))),
        "place": draw(st.sampled_from(["at-start", "after-event", "after-event"])),
        "tail": draw(st.sampled_from(sorted(CAS_TAIL))),
        "bystander": draw(st.booleans()),
        "hist": [list(x) for x in hist],
        "choices": [],
    }


def _cascade_cases(tier):
    """40 (quick) programs: 5 shapes x 2 children x 2 places x 2 tails, the number of rounds and the bystander cycling, one history that
    runs the cascade (twice when main ends and is started again) with a state round trip behind it; thorough: every number of rounds."""
    i = 0
    for shape in CASCADE_SHAPES:
        for child in sorted(CASCADE_CHILD):
            for place in ("after-event", "at-start"):
                for tail in sorted(CAS_TAIL):
                    for n in [CASCADE_N[(2 + i) % len(CASCADE_N)]] if tier == "quick" else CASCADE_N:
                        hist = [["ev", 0, None], ["ev", 1, None], ["save"], ["startmain"], ["ev", 0, None], ["finished", 0], ["ev", 1, None]]
                        yield {"leg": "cas", "family": "long-cascade", "shape": shape, "n": n, "child": child, "place": place, "tail": tail, "bystander": i % 2 == 1, "hist": hist, "choices": []}
                    i += 1


def _cascade_inject(draw, prog, open_end):
    """One more dimension of a generated program: one long cascade (drawn shape, rounds, child) at a drawn top-level place of main; its
    helper flows are put in front of main (the generated helpers never refer to them)."""
    shape, child = draw(st.sampled_from(CASCADE_SHAPES)), draw(st.sampled_from(sorted(CASCADE_CHILD)))
    n = draw(st.sampled_from(CASCADE_N)) + draw(st.integers(0, 40))
    helpers, block = cascade_parts(shape, n, child)
    main = prog["flows"][-1]["body"]
    k = draw(st.integers(2, len(main) if open_end else len(main) - 1))  # never behind `match Never()`
    main[k:k] = [{"k": "raw", "cascade": shape, "text": line} for line in block]
    prog["flows"][-1:-1] = [{"name": name, "params": ps, "loop": None, "body": [{"k": "raw", "text": line} for line in body]} for name, ps, body in helpers]
    return {"shape": shape, "n": n, "child": child}


@st.composite
def _case(draw):
    if draw(st.integers(0, 149)) == 77:  # (not 0: Hypothesis favours the boundaries of an integer range)
        return draw(_cascade_case())
    if draw(st.integers(0, 3)) == 0:
        return draw(_lib_case_main())
    prog = draw(co2.programs(profile={"recursion": True}))
    if draw(st.booleans()):
        # one more dimension of the program: or-groups over patterns of the same event (co2 itself only draws distinct events)
        rate = draw(st.sampled_from([2, 4]))
        for fl in prog["flows"]:
            _rewrite(draw, fl["body"], rate)
    # one more dimension: how the main flow ends (half of the programs: as generated, it waits for ever)
    main_end = _main_end(draw, prog)
    # one more dimension: a parent and its child waiting for the same event, the parent ending on it (2 of 5 programs with >= 2 helpers)
    shared = _share_wait(draw, prog) if draw(st.integers(0, 4)) < 2 else None
    # one more dimension: a faulty action statement in main itself (1 of 4 of the remaining programs)
    main_fault = _main_fault(draw, prog, bool(main_end)) if shared is None and draw(st.integers(0, 3)) == 0 else None
    # one more dimension: one long cascade of internal events in main (1 of 100 programs; put in last: the helpers above are addressed by index)
    cascade = _cascade_inject(draw, prog, bool(main_end)) if draw(st.integers(0, 99)) == 57 else None  # (not 0, see above)
    hist = draw(co2.histories(30))
    if shared:
        # steer the history: the shared event is fed at 1-3 drawn places (mostly with v=1, which most of the drawn patterns accept)
        for _ in range(draw(st.integers(1, 3))):
            hist.insert(draw(st.integers(0, min(len(hist), 12))), ["ev", shared["ev"], draw(st.sampled_from([1, 1, None, 0]))])
    if main_end or main_fault or cascade:
        # .. main is helped on its way to its end / its faulty statement: 3-10 times an event that main itself waits for at that time
        for _ in range(draw(st.integers(3, 10))):
            hist.insert(draw(st.integers(0, len(hist))), ["mainhit", draw(st.integers(0, 2)), draw(st.sampled_from([None, None, None, 1, 0]))])
    if main_fault and "ev" in main_fault:
        # .. the event main waits for in front of its faulty statement
        for _ in range(draw(st.integers(1, 2))):
            hist.insert(draw(st.integers(0, len(hist))), ["ev", main_fault["ev"], draw(st.sampled_from([1, 1, None]))])
    if main_end:
        # .. the event main ends on, and the next turn(s): StartFlow(main) at 1-3 drawn places
        if "ev" in main_end:
            for _ in range(draw(st.integers(1, 2))):
                hist.insert(draw(st.integers(0, len(hist))), ["ev", main_end["ev"], None])
        for _ in range(draw(st.integers(1, 3))):
            hist.insert(draw(st.integers(0, len(hist))), ["startmain"])
    case = {
        "prog": prog,
        "hist": hist,
        "choices": draw(st.lists(st.integers(0, 3), max_size=3)),
    }
    if shared:
        case["shared"] = shared
    if main_end:
        case["main_end"] = main_end
    if main_fault:
        case["main_fault"] = main_fault
    if cascade:
        case["cascade"] = cascade
    return case


def strategy(tier):
    return _case()


FAMILIES = {
    # two flows co-win an identical action (shared Action object), then end at different times, with idle time in between
    "shared-action": (
        """flow a
  match Ev0()
  start UtteranceBotAction(script="same") as $x0
  match Ev1()

flow b
  match Ev0()
  start UtteranceBotAction(script="same") as $x0
  match Ev2()
  send OutB()

flow main
  start a
  start b
  match Never()
""",
        [["ev", 0, None], ["ev", 1, None], ["ev", 2, None], ["age"], ["finished", 0], ["started", 0]],
    ),
    # a start group that reaches ONE action through two or-branches sharing one reference (`start A and (m1 or m2)` normalises to
    # (A and m1) or (A and m2) with the same generated action reference in both branches): C09-F43
    "start-group-twin": (
        """flow m1
  match Ev1()

flow m2
  match Ev2()

flow main
  match Ev0()
  start UtteranceBotAction(script="x") and (m1 or m2)
  match Ev0()
  start (UtteranceBotAction(script="y") as $r and m1) or (UtteranceBotAction(script="y") as $r and m2)
  match Never()
""",
        [["ev", 0, None], ["ev", 1, None], ["ev", 2, None], ["finished", 0], ["started", 0]],
    ),
    # a state round trip while a flow waits inside an open fork (or-group / when), then the group completes
    "fork-roundtrip": (
        """flow f1
  match Ev1()

flow main
  match Ev0() or Ev1()
  send OutA()
  when f1
    send OutB()
  or when Ev2()
    send OutC()
  match Ev0() and Ev2()
  send OutD()
  match Never()
""",
        [["ev", 0, None], ["ev", 1, None], ["ev", 2, None], ["save"]],
    ),
    # the same `match $r.Finished()` statement is reached with references of different action types
    "ref-type-varies": (
        """flow w $p
  if $p == 0
    start UtteranceBotAction(script="a") as $r
  else
    start GestureBotAction(gesture="g") as $r
  match $r.Finished()
  send OutW()

flow main
  start w 0
  match Ev0()
  start w 1
  match Ev0()
  start w 0
  match Never()
""",
        [["ev", 0, None], ["finished", 0], ["finished", 1], ["started", 0], ["age"]],
    ),
    # activated flow restarted through when/else scopes with actions stopped by the scope end
    "scope-stop-restart": (
        """flow r
  when UtteranceBotAction(script="x")
    send OutX()
  or when Ev1()
    send OutY()
  match Ev2()

flow main
  activate r
  match Never()
""",
        [["ev", 1, None], ["ev", 2, None], ["finished", 0], ["started", 0], ["age"]],
    ),
}


# or-groups whose alternatives are satisfied by the SAME event (kept apart from FAMILIES, which C11 enumerates as well): every
# construct that expands to ForkHead .. MergeHeads with several heads arriving at one merge statement in the same processing round
OR_CONSTRUCTS = {
    "match": """flow main
  match {a} or {b}
  send OutA()
  match {b} or {a}
  send OutB()
  match Never()
""",
    "match3": """flow main
  match {a} or {b} or {a}
  send OutA()
  match {b} or {a} or {b}
  send OutB()
  match Never()
""",
    "and-or": """flow main
  match ({a} and Ev1()) or ({b} and Ev1())
  send OutA()
  match ({b} and Ev1()) or ({a} and Ev1())
  send OutB()
  match Never()
""",
    "when": """flow main
  when {a} or {b}
    send OutA()
  or when Ev1()
    send OutC()
  when {b} or {a}
    send OutB()
  or when Ev1()
    send OutD()
  match Never()
""",
    "await-flows": """flow fa
  match {a}

flow fb
  match {b}

flow main
  await fa or fb
  send OutA()
  await fb or fa
  send OutB()
  match Never()
""",
}
OR_ITEMS = [["evp", 0, 1, 2], ["evp", 0, 1, None], ["evp", 0, 0, 2], ["ev", 1, None], ["save"]]
OR_CHOICES = [[], [1], [0, 1], [2]]


def or_program(case):
    a, b = (f"Ev0({VW_PATTERNS[p]})" for p in case["alts"])
    return OR_CONSTRUCTS[case["construct"]].format(a=a, b=b)


def _same_event_cases(tier):
    n = 2 if tier == "quick" else 3
    for construct in OR_CONSTRUCTS:
        for alts in itertools.combinations_with_replacement(range(len(VW_PATTERNS)), 2):
            for k in range(1, n + 1):
                for h in itertools.product(OR_ITEMS, repeat=k):
                    for choices in OR_CHOICES:
                        if choices == [2] and construct != "match3" and tier == "quick":
                            continue  # a third candidate only exists with three alternatives
                        yield {"leg": "or", "family": "same-event-or", "construct": construct, "alts": list(alts), "hist": [list(x) for x in h], "choices": choices}


# a PARENT flow and its CHILD wait for the SAME event; the parent comes first in the hierarchy order, so when both are matched the
# parent is advanced first - and if it ENDS on that event (runs off its end, returns, aborts) it stops the child whose head has been
# matched by the very same event and is still queued for advancing. A finished / stopped instance holds no position (I3): whatever the
# child's next statement is - in particular one that FORKS heads - nothing of it may be executed or left behind.
PC_END = {  # what the parent does after its match
    "finishes": [],
    "returns": ["return"],
    "aborts": ["abort"],
    "sends-and-finishes": ["send OutP()"],
    "goes-on": ["match Ev2()", "send OutQ()"],  # control: the parent does not end on the shared event
}
PC_CONT = {  # the child's statement(s) after its match
    "or-group": ["match Ev1() or Ev2()"],
    "and-group": ["match Ev1() and Ev2()"],
    "when": ["when Ev1()", "  send OutW()", "or when Ev2()", "  send OutX()"],
    "send-group": ["send OutA() and OutB()"],
    "start-group": ['start UtteranceBotAction(script="a") and GestureBotAction(gesture="g")'],
    "await-actions": ['await UtteranceBotAction(script="a") or GestureBotAction(gesture="g")'],
    "await-flows": ["await fa or fb"],
    "match": ["match Ev1()"],  # controls: no fork
    "send": ["send OutA()"],
    "ends": None,  # the child finishes on the shared event as well
}
PC_REL = {  # how the child hangs below the parent / how the parent is run: (statement in parent, statement in main)
    "start": ("start child", "start parent"),
    "activate": ("activate child", "start parent"),
    "grandchild": ("start mid", "start parent"),  # parent -> mid (awaits child) -> child
    "parent-activated": ("start child", "activate parent"),  # the parent is restarted when it ends (and starts a new child)
}
PC_PATS = [("", ""), ("v=1", ""), ("", "v=1")]  # (parent, child) patterns of Ev0; with the last pair the child is the more specific match
PC_ITEMS = [["evp", 0, 1, None], ["ev", 0, None], ["ev", 1, None], ["ev", 2, None], ["finished", 0]]


def pc_program(case):
    p, c = case["pats"]
    cont = PC_CONT[case["cont"]]
    child = [f"match Ev0({c})"] + ([] if cont is None else cont + ["send OutC()", "match Ev3()"])
    in_parent, in_main = PC_REL[case["rel"]]
    parent = [in_parent, f"match Ev0({p})"] + PC_END[case["end"]]
    flows = [
        ("fa", ["match Ev1()"]),
        ("fb", ["match Ev2()"]),
        ("child", child),
        ("mid", ["await child"]),
        ("parent", parent),
        ("main", [in_main, "match Ev2()", "send OutM()", "match Never()"]),
    ]
    return "\n".join(f"flow {n}\n" + "".join(f"  {line}\n" for line in body) for n, body in flows)


def _parent_child_cases(tier):
    n = 2 if tier == "quick" else 3
    items = PC_ITEMS + ([] if tier == "quick" else [["save"]])
    for rel in PC_REL:
        for end in PC_END:
            for cont in PC_CONT:
                for pats in PC_PATS:
                    for k in range(1, n + 1):
                        for h in itertools.product(items, repeat=k):
                            if not any(x[1] == 0 for x in h if x[0] in ("ev", "evp")):
                                continue  # without the shared event Ev0 the family's situation cannot arise
                            yield {"leg": "pc", "family": "parent-ends-on-shared-event", "rel": rel, "end": end, "cont": cont, "pats": list(pats), "hist": [list(x) for x in h], "choices": []}


# The MAIN flow reaches its END (runs off its end / returns / after a last send; `abort` = control: main fails and is not re-armed):
# at once while it is started, after an event, after two events, out of an or-group / a when / an awaited child - with nothing below
# it, an activated child, a started child that still waits, a running action, or all of them. Then the next turn(s): StartFlow(main)
# again (["startmain"]), further events, a state round trip while main waits to be started.
ME_PRELUDE = {
    "nothing": [],
    "activated-child": ["activate echo"],
    "started-child-and-action": ["start child as $c", 'start UtteranceBotAction(script="w") as $w'],
    "all": ["activate echo", "start child as $c", 'start UtteranceBotAction(script="w") as $w'],
}
ME_BODY = {
    "at-once": [],
    "after-event": ["match Ev0()"],
    "after-two-events": ["match Ev0()", "send OutA()", "match Ev1()"],
    "after-or-group": ["match Ev0() or Ev1()"],
    "after-when": ["when Ev0()", "  send OutW()", "or when Ev1()", "  send OutX()"],
    "after-child": ["await short"],
}
ME_END = {"runs-off-end": [], "return": ["return"], "send-then-end": ["send OutZ()"], "abort": ["abort"]}
ME_ITEMS = [["ev", 0, None], ["ev", 1, None], ["startmain"], ["save"]]


def me_program(case):
    flows = [
        ("echo", ["match Ev1()", "send OutE()"]),
        ("child", ["match Ev0()", "match Ev2()", "send OutC()"]),  # (no send on Ev0: it would compete with main's sends)
        ("short", ["match Ev0()"]),
        ("main", ME_PRELUDE[case["prelude"]] + ME_BODY[case["body"]] + ME_END[case["end"]] or ["pass"]),
    ]
    return "\n".join(f"flow {n}\n" + "".join(f"  {line}\n" for line in body) for n, body in flows)


def _main_ends_cases(tier):
    n = 3 if tier == "quick" else 4
    items = ME_ITEMS + ([] if tier == "quick" else [["age"]])
    for prelude in ME_PRELUDE:
        for body in ME_BODY:
            for end in ME_END:
                for k in range(1, n + 1):
                    for h in itertools.product(items, repeat=k):
                        yield {"leg": "me", "family": "main-ends", "prelude": prelude, "body": body, "end": end, "hist": [list(x) for x in h], "choices": []}


# A FAULTY ACTION statement in MAIN itself (MAIN_FAULTS): at the very start of main, right after a wait, or inside a when-case -
# alone (the single actionable head of the round) or against a RIVAL flow (started by main, so later in the hierarchy order) that
# waits for the same event Ev0 and then starts a valid action / the identical faulty action / sends a plain event, in main's
# interaction loop or in one of its own; patterns main/rival: ()/(), (v=1)/(), ()/(v=1) decide who wins the conflict, with equal
# patterns the tie-break does (choices [] and [1]). Main has an activated child and a running action below it.
MF_PLACE = {
    "at-start": ["{fault}", "match Ev0({pm})"],
    "after-wait": ["match Ev0({pm})", "{fault}", "match Ev2()", "send OutM()"],
    "in-when-case": ["when Ev0({pm})", "  {fault}", "  send OutW()", "or when Ev2()", "  send OutX()", "match Ev2()"],
}
MF_RIVAL = {
    "none": None,
    "action": (False, 'start UtteranceBotAction(script="rival")'),
    "same-fault": (False, None),
    "event": (False, "send OutR()"),
    "action-in-own-loop": (True, 'start UtteranceBotAction(script="rival")'),
}
MF_PATS = [("", ""), ("v=1", ""), ("", "v=1")]
MF_ITEMS = [["evp", 0, 1, None], ["ev", 1, None], ["ev", 2, None], ["finished", 0], ["startmain"]]


def mf_program(case):
    pm, pr = case["pats"]
    fault = MAIN_FAULTS[case["fault"]]
    text = "flow echo\n  match Ev1()\n  send OutE()\n\n"
    main = ["activate echo", 'start UtteranceBotAction(script="w") as $w']
    if MF_RIVAL[case["rival"]] is not None:
        own_loop, stmt = MF_RIVAL[case["rival"]]
        text += ('@loop("NEW")\n' if own_loop else "") + f"flow rival\n  match Ev0({pr})\n  {stmt or fault}\n  match Ev3()\n  send OutQ()\n\n"
        main.append("start rival")
    main += [line.format(fault=fault, pm=pm) for line in MF_PLACE[case["place"]]]
    return text + "flow main\n" + "".join(f"  {line}\n" for line in main)


def _main_fault_cases(tier):
    n = 2 if tier == "quick" else 3
    items = MF_ITEMS + ([] if tier == "quick" else [["save"], ["age"]])
    for fault in MAIN_FAULTS:
        for place in MF_PLACE:
            for rival in MF_RIVAL:
                if place == "at-start" and rival != "none":
                    continue  # nothing else is running yet
                for pats in MF_PATS if rival != "none" else MF_PATS[:1]:
                    for choices in [[], [1]] if rival != "none" and pats[0] == pats[1] else [[]]:
                        for k in range(1, n + 1):
                            for h in itertools.product(items, repeat=k):
                                if place != "at-start" and not any(x[0] == "evp" for x in h):
                                    continue  # main never gets to its faulty statement
                                yield {"leg": "mf", "family": "main-faulty-action", "fault": fault, "place": place, "rival": rival, "pats": list(pats), "hist": [list(x) for x in h], "choices": choices}


def enumerate_cases(tier):
    yield from _cascade_cases(tier)
    yield from _main_ends_cases(tier)
    yield from _main_fault_cases(tier)
    yield from _parent_child_cases(tier)
    yield from _same_event_cases(tier)
    for name, (text, items) in FAMILIES.items():
        n = 4 if tier == "quick" else 5
        for k in range(1, n + 1):
            for h in itertools.product(items, repeat=k):
                yield {"leg": "text", "family": name, "text": text, "hist": [list(x) for x in h], "choices": []}
    if tier != "thorough":
        return
    # exhaustive histories of length <= 4 over {Ev0, Ev1, Ev2} for programs generated from fixed seeds
    from hypothesis import HealthCheck, given, seed, settings

    progs = []

    @seed(12345)
    @settings(max_examples=60, database=None, deadline=None, suppress_health_check=list(HealthCheck))
    @given(co2.programs(profile={"actions": False}))
    def collect(p):
        progs.append(p)

    collect()
    alphabet = [["ev", 0, None], ["ev", 1, None], ["ev", 2, None]]
    for p in progs[:60]:
        for n in range(1, 5):
            for h in itertools.product(alphabet, repeat=n):
                yield {"prog": p, "hist": [list(x) for x in h], "choices": []}


_lib = {}


def _lib_flows():
    if "flows" not in _lib:
        from nemoguardrails import RailsConfig

        cfg = RailsConfig.from_content(
            colang_content="import core\nimport timing\nimport avatars\n\nflow main\n  match Never()\n",
            yaml_content='colang_version: "2.x"\nmodels: []',
        )
        _lib["flows"] = [f for f in cfg.flows if f.name != "main"]
    import copy

    return copy.deepcopy(_lib["flows"])


class Observed:
    """Mixin: remembers which flow instances waited for the name of the event that is fed (read before the event is processed; used
    for labels only: 'a parent and its child both waited for this event and the parent ended on it')."""

    waited = ()
    main_restarts = 0

    def feed(self, item):
        if item[0] == "startmain":
            # the next turn: the runtime (RuntimeV2_x.process_events) puts StartFlow(flow_id="main") in front of the turn's events
            # if - and only if - the main flow waits to be started, i.e. after it has reached its end
            main = self.state.main_flow_state
            if main is None or main.status.value != "waiting":
                return None
            from nemoguardrails.colang.v2_x.runtime.flows import InternalEvent

            self.waited = sorted({f for f, _ in self.state.event_matching_heads.get("StartFlow", [])})
            smh.sm().run_to_completion(self.state, InternalEvent(name="StartFlow", arguments={"flow_id": "main"}))
            out = [dict(e) for e in self.state.outgoing_events]
            self._ledger(out)
            self.main_restarts += 1
            return out
        e = self.concrete(item)
        if e is None:
            return None
        self.waited = sorted({f for f, _ in self.state.event_matching_heads.get(e["type"], [])})
        out = smh.feed(self.state, e)
        self._ledger(out)
        return out

    def parent_ended_below(self):
        """Did some instance end during the last event while a child of it was waiting for the same event name?"""
        fss = self.state.flow_states
        for uid in self.waited:
            fs = fss.get(uid)
            if fs is not None and fs.parent_uid in self.waited and fs.parent_uid in fss and fss[fs.parent_uid].status.value in ("finished", "stopped"):
                return True
        return False


class LibSession(Observed, smh.Session):
    """Session over the shipped library: user utterance items on top of the generic action life-cycle items."""

    def __init__(self, text, choices):
        smh.install()
        smh.CHOOSER.reset(choices or [])
        smh.Clock.virtual = 0.0
        self.running, self.action_type, self.n_user = [], {}, 0
        self.state = smh.init(text, extra_flows=_lib_flows())
        self._ledger(self.state.outgoing_events)
        self.start_events = [dict(e) for e in self.state.outgoing_events]

    def concrete(self, item):
        k = item[0]
        if k == "say":
            self.n_user += 1
            return {"type": "UtteranceUserActionFinished", "final_transcript": LIB_TEXTS[item[1]], "action_uid": f"user-{self.n_user}", "is_success": True}
        if k == "saying":
            return {"type": "UtteranceUserActionTranscriptUpdated", "interim_transcript": LIB_TEXTS[item[1]], "action_uid": f"user-{self.n_user + 1}"}
        if k == "ustart":
            return {"type": "UtteranceUserActionStarted", "action_uid": f"user-{self.n_user + 1}"}
        if k in ("started", "finished") and not self.running:
            return None
        ev = super().concrete(item)
        if ev and ev["type"] == "UtteranceBotActionFinished":
            ev["final_script"] = "x"
        return ev


class Session(Observed, smh.Session):
    """smh.Session plus events with two parameters: ["evp", k, v|None, w|None] -> Ev<k>(v=.., w=..), and ["mainhit", i, v|None]."""

    def concrete(self, item):
        if item[0] == "evp":
            d = {"type": f"Ev{item[1]}"}
            if item[2] is not None:
                d["v"] = item[2]
            if item[3] is not None:
                d["w"] = item[3]
            return d
        if item[0] == "mainhit":
            # steering (co-simulation, like "hit"): the i-th of the events Ev<k> that the MAIN flow itself currently waits for; without
            # a drawn value the parameter v is taken from the waiting statement's own pattern (0 / 1 as the literal or regex demands)
            main = self.state.main_flow_state
            elements = self.state.flow_configs[main.flow_id].elements
            waits = {}
            for name, heads in smh.scan_matchers(self.state).items():
                for f, h in heads:
                    if f == main.uid and name.startswith("Ev"):
                        spec = getattr(elements[main.heads[h].position], "spec", None)
                        waits.setdefault(name, str((getattr(spec, "arguments", None) or {}).get("v", "")))
            if not waits:
                return None
            name = sorted(waits)[item[1] % len(waits)]
            d = {"type": name}
            v = item[2] if item[2] is not None else (1 if "1" in waits[name] else 0 if "0" in waits[name] else None)
            if v is not None:
                d["v"] = v
            return d
        return super().concrete(item)


def merges_pending(state):
    """I2, the part about head merging statements: MergeHeads is no waiting statement. A head that arrives there turns MERGING and
    the merge is executed as soon as the internal events are drained - the winner continues, the other heads turn INACTIVE - so
    after run_to_completion no live head of a listening flow may stand there any more (no later event could release it)."""
    s = smh.sm()
    from nemoguardrails.colang.v2_x.lang.colang_ast import MergeHeads

    bad = []
    for fs in state.flow_states.values():
        if not s.is_listening_flow(fs):
            continue
        cfg = state.flow_configs[fs.flow_id]
        for head in fs.heads.values():
            if head.status == s.FlowHeadStatus.INACTIVE:
                continue
            el = cfg.elements[head.position] if 0 <= head.position < len(cfg.elements) else None
            if head.status == s.FlowHeadStatus.MERGING or isinstance(el, MergeHeads):
                bad.append(("I2-head-left-on-merge-statement", f"flow {fs.flow_id} ({fs.status.value}) has a {head.status.value} head left on {type(el).__name__} at {head.position}: the merge was never executed, the flow cannot continue"))
    return bad


def invariants(state):
    return smh.invariants(state) + merges_pending(state)


_counter = {"n": 0}


def _count_internal_events():
    """Counts the internal events the interpreter processes (one call of _process_internal_events_without_default_matchers per event
    taken from the queue): measurement for the labels only, the wrapper changes nothing. Installed once per process."""
    s = smh.sm()
    if getattr(s._process_internal_events_without_default_matchers, "_c09_counted", False):
        return
    orig = s._process_internal_events_without_default_matchers

    def counted(*a, **k):
        _counter["n"] += 1
        return orig(*a, **k)

    counted._c09_counted = True
    s._process_internal_events_without_default_matchers = counted


def _main_status(state):
    return state.main_flow_state.status.value if state.main_flow_state is not None else None


def prop(case):
    if case.get("leg") == "or":
        from collections import Counter

        text = or_program(case)
        kinds = Counter({"matchg": 1, "when": int(case["construct"] == "when")})
        mk = lambda: Session(text, case["choices"])  # noqa: E731
    elif case.get("leg") == "lib":
        text = lib_program(case)
        kinds = {"matchg": 1, "awaitg": 0, "when": 1, "activate": len(case["activate"]), "startact": 1, "awaitact": 0, "while": int(case.get("main_end") != "ends-after-one-round")}
        from collections import Counter

        kinds = Counter(kinds)
        mk = lambda: LibSession(text, case["choices"])  # noqa: E731
    elif case.get("leg") == "pc":
        from collections import Counter

        text = pc_program(case)
        kinds = Counter({"matchg": int(case["cont"] not in ("match", "send", "ends")), "when": int(case["cont"] == "when"), "activate": int("activate" in case["rel"]), "startact": int(case["cont"] in ("start-group", "await-actions"))})
        mk = lambda: Session(text, case["choices"])  # noqa: E731
    elif case.get("leg") == "me":
        from collections import Counter

        text = me_program(case)
        kinds = Counter({"matchg": int(case["body"] == "after-or-group"), "when": int(case["body"] == "after-when"), "activate": int("echo" in text.split("flow main")[1]), "startact": int("Action" in text)})
        mk = lambda: Session(text, case["choices"])  # noqa: E731
    elif case.get("leg") == "mf":
        from collections import Counter

        text = mf_program(case)
        kinds = Counter({"awaitga": int("group" in case["fault"]), "when": int(case["place"] == "in-when-case"), "activate": 1, "startact": 1})
        mk = lambda: Session(text, case["choices"])  # noqa: E731
    elif case.get("leg") == "cas":
        from collections import Counter

        text = cas_program(case)
        kinds = Counter({"while": 1, "activate": int(case["bystander"] or case["shape"] == "watched-by-activated-flow"), "startact": int(case["tail"] == "waits")})
        mk = lambda: Session(text, case["choices"])  # noqa: E731
    elif case.get("leg") == "text":
        from collections import Counter

        text = case["text"]
        kinds = Counter({"when": 1, "startact": 1})
        mk = lambda: Session(text, case["choices"])  # noqa: E731
    else:
        text = co2.render(case["prog"])
        kinds = co2.count_kinds(case["prog"])
        kinds["matchg"] += sum(1 for fl in case["prog"]["flows"] for x in _walk(fl["body"]) if x.get("sameev"))
        mk = lambda: Session(text, case["choices"])  # noqa: E731
    _count_internal_events()
    _counter["n"] = 0
    try:
        s = mk()
    except Exception as e:
        raise Violation("exception-at-start:" + type(e).__name__, f"{e!r}"[:300] + "\n" + text)
    bad = invariants(s.state)
    if bad:
        raise Violation(bad[0][0], f"after start: {bad[0][1]}\n{text}")
    ended_with_children = False
    parent_ended_below = False
    seen_done = set()
    fed = 0
    longest = _counter["n"]  # internal events processed for one run_to_completion (measured; labels only)
    main_status = {_main_status(s.state)}  # coverage bookkeeping only: was main seen re-armed (waiting) / failed (stopped)
    for i, item in enumerate(case["hist"]):
        _counter["n"] = 0
        try:
            out = s.feed(item)
        except Exception as e:
            raise Violation("exception-escaped:" + type(e).__name__, f"event #{i} {item}: {e!r}"[:300] + "\n" + text)
        if out is None:
            continue
        fed += 1
        longest = max(longest, _counter["n"])
        bad = invariants(s.state)
        if bad:
            raise Violation(bad[0][0], f"after event #{i} {item} of {case['hist'][: i + 1]}: {bad[0][1]}\n{text}")
        parent_ended_below = parent_ended_below or s.parent_ended_below()
        main_status.add(_main_status(s.state))
        for fs in s.state.flow_states.values():
            if fs.uid not in seen_done and fs.status.value in ("finished", "stopped"):
                seen_done.add(fs.uid)
                if fs.child_flow_uids or fs.action_uids:
                    ended_with_children = True
    forks = kinds["matchg"] + kinds["awaitg"] + kinds["awaitga"] + kinds["when"] > 0
    nt = forks and ended_with_children and fed >= 10
    labels = []
    if forks:
        labels.append("forks")
    if ended_with_children:
        labels.append("flow-ended-with-children")
    if kinds["activate"]:
        labels.append("activate")
    if kinds["startact"] + kinds["awaitact"]:
        labels.append("actions")
    if kinds["while"]:
        labels.append("while")
    if kinds["when"]:
        labels.append("when")
    if case.get("leg") == "or":
        labels += ["family:same-event-or", "or-construct:" + case["construct"]]
    if case.get("prog") and any(x.get("sameev") for fl in case["prog"]["flows"] for x in _walk(fl["body"])):
        labels.append("same-event-or-group")
    used = smh.CHOOSER.used
    if used and case["choices"] and any(case["choices"][i % len(case["choices"])] for i in range(used)):
        labels.append("tie-break-not-first-candidate")
    if parent_ended_below:
        labels.append("parent-ended-on-event-its-child-waited-for")
    if case.get("leg") == "pc":
        labels += ["family:" + case["family"], "pc-end:" + case["end"], "pc-child-next:" + case["cont"], "pc-relation:" + case["rel"]]
    if case.get("shared"):
        labels += ["shared-wait-parent-child", "shared-wait-parent:" + case["shared"]["end"], "shared-wait-child-next:" + case["shared"]["cont"]]
    # the main flow as a dimension: how it ends (generated / library / enumerated), a faulty action statement of its own, and what was
    # observed: main seen re-armed (WAITING after it had run), started again by StartFlow(main), failed (STOPPED)
    if case.get("leg") == "me":
        labels += ["family:" + case["family"], "me-prelude:" + case["prelude"], "me-body:" + case["body"], "me-end:" + case["end"]]
    elif case.get("leg") == "mf":
        labels += ["family:" + case["family"], "mf-fault:" + case["fault"], "mf-place:" + case["place"], "mf-rival:" + case["rival"]]
    elif case.get("leg") == "lib":
        labels.append("main-end:" + case.get("main_end", "waits"))
        if any(b >= len(LIB_BOT) for _, b in case["cases"]):
            labels.append("main-fault:in-when-case")
    elif case.get("prog") and case.get("leg") is None:
        labels.append("main-end:" + (case.get("main_end") or {"end": "waits"})["end"])
        if case.get("main_fault"):
            mf = case["main_fault"]
            labels += ["main-fault:" + mf["fault"], "main-fault-place:" + mf["place"], "main-fault-rival:" + mf["rival"]]
    if "waiting" in main_status:
        labels.append("main-ended-and-re-armed")
    if s.main_restarts:
        labels.append("main-started-again")
    if "stopped" in main_status:
        labels.append("main-failed")
    # one event that triggers a long cascade of internal events: the dimension (enumerated / drawn) and what was measured
    if case.get("leg") == "cas":
        labels += ["family:" + case["family"], "cascade-shape:" + case["shape"], "cascade-child:" + case["child"], "cascade-place:" + case["place"], "cascade-tail:" + case["tail"]]
    elif case.get("cascade"):
        labels += ["long-cascade-in-generated-main", "cascade-shape:" + case["cascade"]["shape"]]
    labels.append("internal-events-per-event:" + ("<=10" if longest <= 10 else "<=100" if longest <= 100 else "<=1000" if longest <= 1000 else "<=3000" if longest <= 3000 else ">3000"))
    if case.get("leg") == "text":
        labels.append("family:" + case["family"])
    elif case.get("leg") == "lib":
        labels.append("library")
    elif case.get("prog") and any(f.get("loop") for f in case["prog"]["flows"]):
        labels.append("loops")
    if case.get("prog") and co2.has_recursion(case["prog"]):
        labels.append("recursive-flow-calls")
    if smh.CHOOSER.used:
        labels.append("tie-break-used")
    labels.append("len>=10" if fed >= 10 else "len<10")
    view = {"program": text, "history": case["hist"][:12], "flows_alive": len(s.state.flow_states)}
    if case.get("leg") == "text":
        nt = fed >= 3
    if case.get("leg") == "pc":
        nt = fed >= 1 and parent_ended_below  # parent and child both waited for the event that was fed and the parent ended on it
    if case.get("leg") == "or":
        nt = fed >= 1 and smh.CHOOSER.used > 0  # several heads arrived at one merge statement and a winner had to be picked
    if case.get("leg") == "me":
        nt = "waiting" in main_status  # main reached its end and was re-armed
    if case.get("leg") == "cas":
        nt = longest > 1000  # one event did trigger a long cascade
    if case.get("leg") == "mf":
        nt = "stopped" in main_status  # main got to its faulty statement (or lost the conflict there) and failed
    return ok(nt=nt, labels=labels, view=view, counters={"events_fed": fed})
