"""Demo C16-15: selected rail categories must hand back the text unchanged.

With rails=["input"] the reply must be exactly the user text when the input
rail allows it; with rails=["output"] and a supplied bot message the reply must
be exactly that message. Texts with leading / trailing whitespace are used.
"""
import os
import signal
import sys

sys.path.insert(0, os.path.dirname(os.path.abspath(__file__)))
signal.alarm(120)

from nemoguardrails import LLMRails, RailsConfig
from nemoguardrails.actions import action

COLANG = """
define flow check input
  $allowed = execute check_input
  if not $allowed
    bot refuse to respond
    stop

define flow check output
  $allowed = execute check_output
  if not $allowed
    bot refuse to respond
    stop

define bot refuse to respond
  "I can't talk about this."
"""

YAML = """
models: []
rails:
  input:
    flows:
      - check input
  output:
    flows:
      - check output
"""


@action(name="check_input")
async def check_input(context: dict):
    return "BLOCK" not in (context.get("user_message") or "")


@action(name="check_output")
async def check_output(context: dict):
    return "BLOCK" not in (context.get("bot_message") or "")


def main():
    config = RailsConfig.from_content(colang_content=COLANG, yaml_content=YAML)
    app = LLMRails(config)
    app.register_action(check_input, "check_input")
    app.register_action(check_output, "check_output")

    problems = []
    texts = ["hello there", "  indented line", "trailing newline\n", "\ttabbed\t"]

    for text in texts:
        res = app.generate(
            messages=[{"role": "user", "content": text}],
            options={"rails": ["input"], "log": {"activated_rails": True}},
        )
        got = res.response[0]["content"]
        if got != text:
            problems.append(f"input only: user text {text!r} came back as {got!r}")
        names = [(r.type, r.name, r.stop) for r in res.log.activated_rails]
        if names != [("input", "check input", False)]:
            problems.append(f"input only: unexpected log {names}")

    for text in texts:
        for selection in (["output"], ["input", "output"]):
            res = app.generate(
                messages=[
                    {"role": "user", "content": "hi"},
                    {"role": "assistant", "content": text},
                ],
                options={"rails": selection, "log": {"activated_rails": True}},
            )
            got = res.response[0]["content"]
            if got != text:
                problems.append(
                    f"{selection}: bot message {text!r} came back as {got!r}"
                )

    # blocked texts still give the refusal
    res = app.generate(
        messages=[{"role": "user", "content": " BLOCK me "}],
        options={"rails": ["input"], "log": {"activated_rails": True}},
    )
    if res.response[0]["content"] != "I can't talk about this.":
        problems.append("blocked input did not give the refusal")
    if [r.stop for r in res.log.activated_rails] != [True]:
        problems.append("blocked input rail has no stop")

    if problems:
        print("FAIL: " + problems[0] + f" ({len(problems)} problem(s))")
        sys.exit(1)
    print("PASS")
    sys.exit(0)


main()
