"""C07 - and/or groups behave like the boolean formula they spell.

Domain : and/or formulas (2-5 leaves, depth <= 3, every shape incl. those whose DNF repeats a leaf) in three
         program forms - `match F` over events, `await F` and `when F [or when G]` over flows f_i := match Ev_i() -
         x event sequences (orders with repetition + irrelevant events, length <= 10); all orders of the leaf
         events are enumerated for a fixed family of formulas with <= 4 leaves. Idle time (virtual clock of the harness,
         3 / 6 / 60 s, i.e. below / beyond the interpreter's 5 s clean-up age of finished flows) passes between the events
         of ~half of the sequences; it is not an event, so the oracle does not see it. A third of the cases over flows let
         several member flows finish on the SAME event (evmap), the interpreter's random tie-breaks belong to the case
         (`choices`, smh.Chooser), and a quarter of the cases put a second group statement directly in front of the one
         under test (`gate`, no action statement between the two; same pool of members). In a quarter of the cases the SAME leaf
         stands at several places of the formula (repeated leaves: and-groups of the DNF repeat a leaf / coincide / one
         alternative is a proper subset of another, `A or (A and B)`), and in a third of the `when` cases some leaves are plain
         events instead of flows (`when fa and E()`, `when (fa or fb) and E()`, `when (fa and E()) or fb`).
Oracle : evaluate the formula over the set of events seen so far: the marker appears at exactly the first index
         at which the formula is true, never earlier, never twice; never if it is never true.
"""
import itertools

from hypothesis import strategies as st

from vf import smh
from vf.core import Violation, ok

PID = "C07"
LEVEL = "exploration"
CASE_TIMEOUT = 30
RULE = (
    "formula F over leaves Ev0..Ev4 drawn recursively (and/or nodes with 2-3 children, depth<=3, 2-5 leaf places; distinct leaves in three quarters of the cases, REPEATED LEAVES in one quarter - see below) "
    "rendered fully parenthesised as `match F` (leaves = distinct event names, or one event name with distinct parameter values, or `$r_i.Finished()` of flows started earlier) / `await F` / `when F [or when G]` (await/when leaves are flows f_i := match Ev_i(), or actions X_iAction() finished by their ActionFinished event, or a mix); optionally the statement sits behind `match Go()` and 0-4 events arrive before it becomes active (they must not count; a flow finished early can never satisfy its leaf); event sequence of <=10 events drawn from the "
    "leaf events (with repetition) and 2 irrelevant events; in a third of the cases the statement sits in `while True` and the sequence goes on over several activations (only events since the current activation count); in a third of the await/when cases over flows the member flows can fail (event Fail_i aborts f_i: it never delivers Finished; when no running member can complete the group the case stops); in a quarter of the single-case await/when cases over flows 1-2 member flows finish without any event (their Finished events count from activation on); in about half of the cases (every form, also the looping / failing / instant / gated ones) IDLE TIME passes between the events: items [position, seconds] with seconds in {3, 6, 60} (the harness owns the clock, smh.Clock; 5 s is the age after which the interpreter drops the state of finished flows) before 1-4 events of the sequence or before every event, and before pre-activation events / the activating Go - idle time is not an event, the marker is still due at exactly the first event that satisfies the formula (labels idle-time / no-idle-time, member-flow-done>5s-before-completion[+dnf>=2-and-groups] = a member flow finished more than 5 s before the completing event [and the formula normalises to >= 2 and-groups]); plus enumeration of ALL permutations of the leaf events for every "
    "formula shape with <=4 leaves (x 3 forms), and the same permutations once more with 6 s of idle time in every gap between the events (<=3 leaves: all five forms; 4 leaves: await/when, idle time before the last two events). "
    "SHARED EVENTS: in a third of the await / when / matchref cases over flows the member flows are f_i := match Ev_{evmap[i]}() with at least two members waiting for the same event (evmap[i] <= i drawn per flow), so several members - of one and-group, of competing or-alternatives, of the two `when` cases - finish in ONE processing cycle; the items of the sequence are event numbers and an event delivers every running member that waits for it (labels shared-events, completing-event-finishes>=2-members, completing-event-satisfies>=2-alternatives[+finishes>=2-members]). "
    "TIE-BREAKS: the interpreter's random choices (which of several heads arriving at one merge wins, which of several equally good candidates is picked) are owned by the case: `choices` (1-3 integers 0-3, consumed cyclically by smh.Chooser; always present with shared events, in a quarter of the other cases; absent = first candidate) - the formula is satisfied whoever wins, so the oracle does not look at them (labels tie-break-asked, tie-break-asked+choice-not-first-candidate). "
    "TWO GROUP STATEMENTS IN SEQUENCE: in a quarter of the match / matchp / await / when cases a second group statement `gate` (formula with 2-3 leaves mapped by a drawn permutation into the same pool of leaves; match / matchp in front of match / matchp, await F0 or `when F0` + assignment in front of await / when) stands directly in front of the statement under test with NO action statement between the two (also inside `while True`, behind Go, with failing members, shared events, idle time): the first statement completes by the same formula rule and the statement under test is active from exactly that event on - it starts its OWN instances of the member flows, including flows that just lost (were stopped by) or finished in the first statement (labels two-group-statements-in-sequence, first-statement-<form>-completed / -never-completed, second-statement-re-awaits-member-that-lost-the-first / -that-finished-in-the-first, second-statement-re-matches-event-of-the-first). "
    "Enumerated on top: (shared events) every formula shape with <=3 leaves (thorough: 4) x every assignment of events to the member flows with at least one shared event x every order of the distinct events x await / when / matchref x tie-break patterns [0],[1],[2],[0,1],[1,0], plus `when F or when f2` with f2 sharing its event; (sequence) first statement `a or b` (both start orders) / `a and b` over a pool of three leaves x every formula shape with <=3 leaves behind it x every order of the three events fed twice x await-await / when-await / await-when / when-when (or-gates also match-match / matchp-matchp). "
    "REPEATED LEAVES: in a quarter of the cases (every form: match / matchp / matchref / await / when, also looping / gated / failing / shared-event / idle-time ones; not with instant members or action leaves) the leaf places of F are mapped onto a smaller pool (place i keeps its leaf or takes the leaf of an earlier place, at least one collision), so the same event / the same flow is written several times: `A or (A and B)`, `(A and B) or A`, `(A or B) and A`, `A and A`, `fa or (fa and fb)` (await / when start one instance of the flow per place; all instances finish on the same event). The oracle is unchanged - the boolean formula over the SET of leaves received - so `A or (A and B)` is due as soon as A alone arrived (labels repeated-leaf, repeated-leaf-within-one-and-group, dnf-alternative-proper-subset-of-another, dnf-alternatives-coincide, completed-by-alternative-that-is-proper-subset-of-an-incomplete-one). "
    "EVENT LEAVES IN `when`: in a third of the `when` cases over flows a drawn non-empty subset `evleaf` of the leaves (of F, G and a `when` gate in front) is written as the plain event Ev_i() instead of the flow f_i := match Ev_i() - and-groups mixing flows with events in either order, or-alternatives of different kinds, event-only groups; event Ev_i delivers leaf i either way, so the oracle is unchanged; an event leaf cannot fail (Fail_i is then an irrelevant event); a gate over such leaves is always a `when` (labels when-event-leaves, when-and-group-mixes-flows-and-events, when-event-only-group-next-to-flow-only-group, when-events-only, completed-by-and-group-mixing-flows-and-events). "
    "Enumerated FIRST: (repeated leaves) every formula shape with 2-3 leaf places x every mapping of the places onto fewer leaves (one per set partition with a shared block) x every order of the distinct leaf events x all five forms, 4 places: match / await / when (quick: in rotation); (event leaves) `when` x every shape with 2-3 leaves x every non-empty subset of the leaves as events x every order, the 3-place formulas with a repeated leaf x every subset, and `when F or when <leaf 2>` with 2-leaf F x every subset of the three leaves. "
    "Non-trivial = the formula (of either statement of a sequence) uses both operators or has depth>=2; distinct by "
    "(form, formula, sequence, evmap, choices, gate, evleaf)."
)
ASSUMPTIONS = [
    "leaves of one formula are distinct events/flows (as the quantifier says) in three quarters of the cases; a formula that writes the same leaf at several places is still 'the boolean formula it spells' (the statement: 'arbitrarily nested'), evaluated over the set of events received - nothing but idempotence / absorption of and/or is assumed. For await / when every place starts its own instance of the flow; all instances wait for the same event, so the leaf is delivered for every place at once. Repeated leaves are not combined with instant members (open finding C07-F20 is modelled over distinct members) or action leaves (two starts of one action in a group compete as actions)",
    "event leaves in `when`: `when` / `or when` take a <MixedGroup> of flows, actions and events (docs/colang_2/language_reference/flow-control.rst: 'for events this works like a match statement, whereas for actions and flows it behaves like an await statement'); a plain event leaf Ev_i() counts from the moment the `when` statement became active, like the Finished event of a member flow; `await` takes no plain events, so the form is used for `when` (and `when` gates) only",
    "for `when F or when G` satisfied by the same event either case's marker is accepted",
    "each flow f_i finishes on the first Ev_i after the statement became active",
    "shared events: a member flow f_i := match Ev_k() finishes on the first Ev_k after the statement that started it became active, whatever other flows wait for the same event; members finishing in one processing cycle all belong to 'the events received' at that moment, so the statement completes at that event whichever member the interpreter's random tie-break prefers",
    "two group statements in sequence: the second statement becomes active in the processing step that completes the first one; the completing event and everything before it are not 'received since the statement became active', and a member instance started by the second statement completes when ITS instance finishes (not when an earlier instance of the same flow, started by the first statement, finishes or is stopped). Not combined with matchref (a reference's Finished event that is delivered in the same cycle right after the first statement completed would be ambiguous)",
    "time that passes between two events (any amount) is not an event: it neither satisfies nor resets a leaf - 'the first moment the set of events received since the statement became active satisfies the formula' does not depend on the clock",
]
WALL = {"quick": 150, "thorough": 1500}


def budget(tier):
    return 6000 if tier == "quick" else 80000


# formula encoding: int leaf | {"op": "and"|"or", "args": [...]}


def leaves(f):
    if isinstance(f, int):
        return [f]
    out = []
    for a in f["args"]:
        out += leaves(a)
    return out


def fdepth(f):
    return 0 if isinstance(f, int) else 1 + max(fdepth(a) for a in f["args"])


def ops(f):
    if isinstance(f, int):
        return set()
    s = {f["op"]}
    for a in f["args"]:
        s |= ops(a)
    return s


def evaluate(f, seen):
    if isinstance(f, int):
        return f in seen
    vals = [evaluate(a, seen) for a in f["args"]]
    return all(vals) if f["op"] == "and" else any(vals)


def render(f, leaf, top=True):
    if isinstance(f, int):
        return leaf(f)
    s = f" {f['op']} ".join(render(a, leaf, False) for a in f["args"])
    return s if top else f"({s})"


def shapes(n, depth):
    """All formula shapes with exactly n leaves (unlabelled), depth <= depth, alternating operators not required."""
    if n == 1:
        yield "L"
        return
    if depth == 0:
        return
    for op in ("and", "or"):
        for k in (2, 3):
            if k > n:
                continue
            for split in _compositions(n, k):
                for parts in itertools.product(*[list(shapes(m, depth - 1)) for m in split]):
                    yield {"op": op, "args": list(parts)}


def _compositions(n, k):
    if k == 1:
        yield (n,)
        return
    for first in range(1, n - k + 2):
        for rest in _compositions(n - first, k - 1):
            yield (first,) + rest


def label(shape, counter=None):
    counter = counter if counter is not None else [0]
    if shape == "L":
        counter[0] += 1
        return counter[0] - 1
    return {"op": shape["op"], "args": [label(a, counter) for a in shape["args"]]}


@st.composite
def formula(draw, max_leaves=5):
    n = draw(st.integers(2, max_leaves))
    perm = draw(st.permutations(list(range(n))))

    def build(ids, depth, parent_op=None):
        if len(ids) == 1:
            return ids[0]
        op = draw(st.sampled_from(["and", "or"])) if parent_op is None or draw(st.integers(0, 3)) == 0 else ("or" if parent_op == "and" else "and")
        k = draw(st.integers(2, min(3, len(ids))))
        if depth <= 1:
            k = len(ids) if len(ids) <= 3 else k
        # split ids into k non-empty consecutive parts
        cuts = sorted(draw(st.lists(st.integers(1, len(ids) - 1), min_size=k - 1, max_size=k - 1, unique=True)))
        parts, last = [], 0
        for c in cuts + [len(ids)]:
            parts.append(ids[last:c])
            last = c
        if depth <= 1:
            # no more nesting allowed: flatten
            return {"op": op, "args": list(ids)}
        return {"op": op, "args": [build(p, depth - 1, op) for p in parts]}

    return build(list(perm), 3)


@st.composite
def _repeated(draw, f):
    """f with its leaves mapped onto a smaller pool (at least two places of the formula carry the same leaf)."""
    p = len(leaves(f))
    m = list(range(p))
    twin = draw(st.integers(1, p - 1))
    for i in range(1, p):
        if i == twin or draw(st.integers(0, 2)) == 0:
            m[i] = m[draw(st.integers(0, i - 1))]
    ids = sorted(set(m))
    return relabel(f, [ids.index(x) for x in m])


def has_repeats(f):
    return len(set(leaves(f))) < len(leaves(f))


def relabel(f, m):
    if isinstance(f, int):
        return m[f]
    return {"op": f["op"], "args": [relabel(a, m) for a in f["args"]]}


def _all_leaves(case):
    return leaves(case["f"]) + (leaves(case["g"]) if case.get("g") else []) + (leaves(case["gate"]["f"]) if case.get("gate") else [])


@st.composite
def _case(draw):
    form = draw(st.sampled_from(["match", "matchp", "matchref", "await", "when", "when"]))
    f = draw(formula())
    # REPEATED LEAVES: the same event / flow is written at several places of the formula (leaf ids mapped onto a smaller pool),
    # so and-groups of the DNF repeat a leaf, coincide, or one alternative is a proper subset of another (`A or (A and B)`)
    if draw(st.integers(0, 3)) == 0:
        f = draw(_repeated(f))
    n = max(leaves(f)) + 1  # number of distinct leaves (= number of leaves unless leaves are repeated)
    g = None
    if form == "when" and draw(st.booleans()):
        g = draw(formula(3))
    # a SEQUENCE of two group statements with no action statement between them: `gate` is a group statement directly in front
    # of the statement under test, over the same pool of leaves (so the second statement awaits members that finished in / lost
    # the first one once more); the statement under test becomes active at the event that completes the gate
    gate = None
    if form != "matchref" and draw(st.integers(0, 3)) == 0:
        g0 = draw(formula(3))
        pool = list(range(max(n, len(leaves(g)) if g else 0, 3)))
        gate = {"form": form if form in ("match", "matchp") else draw(st.sampled_from(["await", "when"])), "f": relabel(g0, list(draw(st.permutations(pool))))}
    nfl = max(leaves(f) + (leaves(g) if g else []) + (leaves(gate["f"]) if gate else [])) + 1
    alphabet = list(range(nfl if gate else max(n, len(leaves(g)) if g else 0))) + [90, 91]
    seq = draw(st.lists(st.sampled_from(alphabet), min_size=1, max_size=10))
    if draw(st.booleans()):
        # make sure the formula can complete: append a permutation of all leaves
        seq = seq + list(draw(st.permutations(list(range(n)))))
    if gate:
        # the first part of the sequence (usually) completes the gate, the events behind it go to the statement under test
        seq = seq[:8] + draw(st.lists(st.sampled_from(alphabet), min_size=1, max_size=6)) + list(draw(st.permutations(list(range(nfl)))))
    leaf = "flow"
    # `await A or B` over ACTIONS starts only one of them (the two starts compete as actions; documented for or-groups of
    # actions), so action leaves are only used in and-only formulas, where all of them are started
    if form in ("await", "when") and g is None and gate is None and ops(f) == {"and"} and not has_repeats(f):
        leaf = draw(st.sampled_from(["flow", "action", "mixed"]))
    # events that arrive BEFORE the group statement becomes active (it sits behind `match Go()`): they must not count
    pre = draw(st.lists(st.sampled_from(alphabet), max_size=4)) if draw(st.booleans()) else None
    case = {"form": form, "f": f, "g": g, "seq": seq[:20 if gate else 14], "leaf": leaf, "pre": pre}
    if gate:
        case["gate"] = gate
    # EVENT LEAVES IN `when`: some leaves of the `when` group(s) are plain events `Ev_i()` instead of flows f_i := match Ev_i()
    # (and-groups mixing flows with events, event-only groups next to flow groups); event Ev_i delivers leaf i either way
    if form == "when" and leaf == "flow" and draw(st.integers(0, 2)) == 0:
        case["evleaf"] = sorted(draw(st.lists(st.sampled_from(list(range(nfl))), min_size=1, max_size=nfl, unique=True)))
        if gate and gate["form"] == "await" and set(case["evleaf"]) & set(leaves(gate["f"])):
            gate["form"] = "when"  # `await` takes flows / actions only
    # SHARED EVENTS: member flows f_i := match Ev_{evmap[i]}() - several members of one group finish on the SAME event (in one
    # processing cycle); the items of the sequence are event numbers, event e finishes every running member i with evmap[i] == e
    if form in ("await", "when", "matchref") and leaf == "flow" and nfl >= 2 and draw(st.integers(0, 2)) == 0:
        evmap = list(range(nfl))
        twin = draw(st.integers(1, nfl - 1))
        for i in range(1, nfl):
            if i == twin or draw(st.integers(0, 2)) == 0:
                evmap[i] = evmap[draw(st.integers(0, i - 1))]
        case["evmap"] = evmap
    # the interpreter's random tie-breaks (which of several heads arriving at one merge / which of several equally good
    # candidates wins) are owned by the case: smh.Chooser consumes `choices` cyclically; absent = always the first candidate
    if "evmap" in case or draw(st.integers(0, 3)) == 0:
        case["choices"] = draw(st.lists(st.integers(0, 3), min_size=1, max_size=3))
    # the statement sits in `while True`: every completion re-activates it and only events since THAT activation count
    if form != "matchref" and draw(st.integers(0, 2)) == 0:
        case["loop"] = True
        more = draw(st.lists(st.sampled_from(alphabet), min_size=1, max_size=8))
        case["seq"] = (case["seq"] + more + list(draw(st.permutations(list(range(nfl if gate else n))))))[:30 if gate else 24]
    # member flows may fail (event Fail_i, written 100+i): a failed flow never delivers its Finished event
    if form in ("await", "when") and leaf == "flow" and draw(st.integers(0, 2)) == 0:
        case["fail"] = True
        fails = draw(st.lists(st.integers(0, nfl - 1), min_size=1, max_size=2))
        for x in fails:
            case["seq"].insert(draw(st.integers(0, min(len(case["seq"]), 4))), 100 + x)
    # some member flows need no event at all (they finish in the step that starts them): their Finished events belong to
    # the events received since the statement became active
    if form in ("await", "when") and leaf == "flow" and g is None and gate is None and "evmap" not in case and "evleaf" not in case and not has_repeats(f) and not case.get("loop") and not case.get("fail") and draw(st.integers(0, 3)) == 0:
        case["instant"] = sorted(draw(st.lists(st.sampled_from(list(range(n))), min_size=1, max_size=2, unique=True)))
    # idle time between the events (the harness owns the clock): [position, seconds] = that much time passes right before
    # seq[position] (before pre[position] / before Go for position == len(pre)). Idle time is not an event: the oracle ignores it.
    # 6 s and 60 s are beyond the interpreter's clean-up age for finished flows (5 s), 3 s + 3 s add up to it.
    mode = draw(st.sampled_from(["none", "none", "some", "some", "every-gap"]))
    if mode != "none":
        secs = st.sampled_from([6.0, 6.0, 3.0, 60.0])
        m = len(case["seq"])
        if mode == "every-gap":
            case["idle"] = [[i, draw(secs)] for i in range(m)]
        else:
            pos = sorted(draw(st.lists(st.integers(0, m - 1), min_size=1, max_size=4, unique=True)))
            case["idle"] = [[i, draw(secs)] for i in pos]
        if pre is not None and draw(st.booleans()):
            pos = sorted(draw(st.lists(st.integers(0, len(pre)), min_size=1, max_size=2, unique=True)))
            case["pre_idle"] = [[i, draw(secs)] for i in pos]
    return case


def strategy(tier):
    return _case()


def enumerate_cases(tier):
    yield from _enumerate_repeated(tier)
    yield from _enumerate_when_events(tier)
    for n in (2, 3, 4):
        for shape in shapes(n, 3):
            f = label(shape)
            if n == 4 and tier == "quick" and fdepth(f) >= 3 and f["op"] == "and":
                pass
            perms = list(itertools.permutations(range(n)))
            for form in ("match", "await", "when"):
                for p in perms:
                    yield {"form": form, "f": f, "g": None, "seq": list(p)}
            if n <= 3:
                for form in ("matchp", "matchref"):
                    for p in perms:
                        yield {"form": form, "f": f, "g": None, "seq": list(p), "pre": None}
                        yield {"form": form, "f": f, "g": None, "seq": list(p), "pre": [p[0]]}
            if n <= 3 and ops(f) == {"and"}:
                for form in ("await", "when"):
                    for leaf in ("action", "mixed"):
                        for p in perms:
                            yield {"form": form, "f": f, "g": None, "seq": list(p), "leaf": leaf}
            # idle time (> clean-up age of finished flows) in every gap between the events: every order, every shape with
            # <= 3 leaves in all forms; 4 leaves: the forms over flows, idle time only before the last two events
            if n <= 3:
                for form in ("match", "matchp", "matchref", "await", "when"):
                    for p in perms:
                        yield {"form": form, "f": f, "g": None, "seq": list(p), "pre": None, "idle": [[i, 6.0] for i in range(1, n)]}
            else:
                for form in ("await", "when"):
                    for p in perms:
                        yield {"form": form, "f": f, "g": None, "seq": list(p), "idle": [[2, 6.0], [3, 6.0]]}


    yield from _enumerate_shared(tier)
    yield from _enumerate_sequence(tier)


def _enumerate_repeated(tier):
    """REPEATED LEAVES: every formula shape with 2-3 leaf places (4 places: forms in rotation in the quick tier) x every mapping
    of the places onto fewer distinct leaves (one per set partition with a shared block) x every order of the distinct leaf
    events x match / matchp / matchref / await / when."""
    forms = ("match", "matchp", "matchref", "await", "when")
    k = 0
    for n in (2, 3, 4):
        for shape in shapes(n, 3):
            f0 = label(shape)
            for m in _evmaps(n):
                ids = sorted(set(m))
                f = relabel(f0, [ids.index(x) for x in m])
                for p in itertools.permutations(range(len(ids))):
                    if n <= 3:
                        use = forms
                    elif tier == "quick":
                        k += 1
                        use = (("match", "await", "when")[k % 3],)
                    else:
                        use = ("match", "await", "when")
                    for form in use:
                        yield {"form": form, "f": f, "g": None, "seq": list(p), "pre": None}


def _subsets(n):
    for r in range(1, n + 1):
        yield from itertools.combinations(range(n), r)


def _enumerate_when_events(tier):
    """EVENT LEAVES IN `when`: every formula shape with 2-3 leaves x every non-empty subset of the leaves written as plain
    events (the others are flows) x every order of the leaf events; plus the formulas with 3 leaf places and a repeated leaf;
    plus `when F or when <leaf 2>` with the second case a plain event or a flow next to event leaves in F."""
    for n in (2, 3):
        for shape in shapes(n, 3):
            f = label(shape)
            for sub in _subsets(n):
                for p in itertools.permutations(range(n)):
                    yield {"form": "when", "f": f, "g": None, "seq": list(p), "pre": None, "evleaf": list(sub)}
            if n == 2:
                for sub in _subsets(3):
                    for p in itertools.permutations(range(3)):
                        yield {"form": "when", "f": f, "g": 2, "seq": list(p), "pre": None, "evleaf": list(sub)}
            if n == 3:
                for m in _evmaps(3):
                    ids = sorted(set(m))
                    fr = relabel(f, [ids.index(x) for x in m])
                    for sub in _subsets(len(ids)):
                        for p in itertools.permutations(range(len(ids))):
                            yield {"form": "when", "f": fr, "g": None, "seq": list(p), "pre": None, "evleaf": list(sub)}


TIE_BREAKS = [[0], [1], [2], [0, 1], [1, 0]]


def _evmaps(n):
    """Every assignment of events to n member flows in which at least two flows wait for the same event (one per set
    partition of the flows; the event of a block is the number of its first flow)."""
    def rec(prefix):
        if len(prefix) == n:
            if len(set(prefix)) < n:
                yield list(prefix)
            return
        i = len(prefix)
        for e in sorted(set(prefix)) + [i]:
            yield from rec(prefix + [e])

    yield from rec([0])


def _enumerate_shared(tier):
    """SHARED EVENTS x TIE-BREAKS: every formula shape with <= 3 leaves (thorough: 4) over member flows of which at least two
    finish on the same event, every such assignment, every order of the distinct events, every tie-break pattern."""
    for n in (2, 3) if tier == "quick" else (2, 3, 4):
        for shape in shapes(n, 3):
            f = label(shape)
            for evmap in _evmaps(n):
                for p in itertools.permutations(sorted(set(evmap))):
                    for form in ("await", "when", "matchref") if n <= 3 else ("await", "when"):
                        for choices in TIE_BREAKS if n <= 3 else TIE_BREAKS[:3]:
                            yield {"form": form, "f": f, "g": None, "seq": list(p), "pre": None, "evmap": evmap, "choices": choices}
            if n == 2:
                # two cases: `when F ... or when f2 ...` with f2 sharing its event with a member of F
                for evmap in _evmaps(3):
                    for p in itertools.permutations(sorted(set(evmap))):
                        for choices in TIE_BREAKS:
                            yield {"form": "when", "f": f, "g": 2, "seq": list(p), "evmap": evmap, "choices": choices}


def _enumerate_sequence(tier):
    """TWO GROUP STATEMENTS IN SEQUENCE (no action statement between them): every two-member first statement over a pool of
    three leaves (or: both start orders, and: one), every formula shape with <= 3 leaves behind it, every order of the three
    events followed by the same order once more (the first statement completes somewhere in the first round)."""
    mains = [label(shape) for n in (2, 3) for shape in shapes(n, 3)]
    gates = [{"op": "or", "args": [a, b]} for a, b in itertools.permutations(range(3), 2)] + [{"op": "and", "args": [a, b]} for a, b in itertools.combinations(range(3), 2)]
    for gf in gates:
        pairs = [("await", "await"), ("when", "await"), ("await", "when"), ("when", "when")]
        if gf["op"] == "or":
            pairs += [("match", "match"), ("matchp", "matchp")]
        for f in mains:
            for p in itertools.permutations(range(3)):
                for gform, form in pairs:
                    yield {"form": form, "f": f, "g": None, "seq": list(p) + list(p), "pre": None, "gate": {"form": gform, "f": gf}}


def _is_action_leaf(case, i):
    kind = case.get("leaf", "flow")
    return kind == "action" or (kind == "mixed" and i % 2 == 1)


def program(case):
    f, g, form = case["f"], case["g"], case["form"]
    gate, evmap = case.get("gate"), case.get("evmap")
    ev = lambda i: f"Ev{i}()"  # noqa: E731
    evleaf = set(case.get("evleaf") or [])  # leaves of a `when` group that are plain events instead of flows
    fl = lambda i: f"X{i}Action()" if _is_action_leaf(case, i) else f"Ev{evmap[i] if evmap else i}()" if i in evleaf else f"f{i}"  # noqa: E731
    lines = []
    evp = lambda i: f"Ev(v={i})"  # noqa: E731
    rf = lambda i: f"$r{i}.Finished()"  # noqa: E731
    if form not in ("match", "matchp"):
        n = max(_all_leaves(case)) + 1
        for i in range(n):
            e = evmap[i] if evmap else i  # shared events: several member flows wait for the same event
            if i in (case.get("instant") or []):
                # no event is sent: flows started by different branches of an or-group would compete over their actions (C05)
                lines += [f"flow f{i}", f"  $done = {i}", ""]
            elif case.get("fail"):
                lines += [f"flow f{i}", f"  when Ev{e}()", "    pass", f"  or when Fail{i}()", "    abort", ""]
            else:
                lines += [f"flow f{i}", f"  match Ev{e}()", ""]
    lines.append("flow main")
    if form == "matchref":
        for i in sorted(set(leaves(f))):
            lines.append(f"  start f{i} as $r{i}")
    if case.get("pre") is not None:
        lines.append("  match Go()")
    body_at = len(lines)
    if gate:
        # a group statement directly in front of the statement under test - no action statement (send / start of an action)
        # between the two: the second statement starts in the very processing step that completes the first one
        gf = gate["f"]
        if gate["form"] == "match":
            lines += [f"  match {render(gf, ev)}"]
        elif gate["form"] == "matchp":
            lines += [f"  match {render(gf, evp)}"]
        elif gate["form"] == "await":
            lines += [f"  await {render(gf, fl)}"]
        else:
            lines += [f"  when {render(gf, fl)}", "    $gate = 1"]
    if form == "match":
        lines += [f"  match {render(f, ev)}", "  send Done()"]
    elif form == "matchp":
        lines += [f"  match {render(f, evp)}", "  send Done()"]
    elif form == "matchref":
        lines += [f"  match {render(f, rf)}", "  send Done()"]
    elif form == "await":
        lines += [f"  await {render(f, fl)}", "  send Done()"]
    else:
        lines += [f"  when {render(f, fl)}", "    send Done()"]
        if g is not None:
            lines += [f"  or when {render(g, fl)}", "    send Done2()"]
    if case.get("loop"):
        lines[body_at:] = ["  while True"] + ["  " + x for x in lines[body_at:]]
    lines += ["  match Never()", ""]
    return "\n".join(lines)


def dnf(f):
    """Or-list of and-groups, leaves in the order they are written (the order in which a group's flows are started)."""
    if isinstance(f, int):
        return [[f]]
    parts = [dnf(a) for a in f["args"]]
    if f["op"] == "or":
        return [grp for p in parts for grp in p]
    return [[x for grp in combo for x in grp] for combo in itertools.product(*parts)]


def _timeline(case, defect=False):
    """Index of the step at which the marker is due (-1 = at activation, None = never).
    defect=True models known finding C07-F20: the Finished event of an instant flow is lost unless it is the last flow
    started by its and-group (the group starts its flows one after the other and only then begins to match)."""
    f, inst = case["f"], set(case["instant"])
    groups = dnf(f)
    if defect:
        groups = [grp for grp in groups if not (set(grp[:-1]) & inst)]
    seen = set(inst)
    if any(all(x in seen for x in grp) for grp in groups):
        return -1
    for idx, e in enumerate(case["seq"]):
        if e < 90:
            seen.add(e)
        if any(all(x in seen for x in grp) for grp in groups):
            return idx
    return None


CLEANUP_AGE = 5.0  # seconds after which the interpreter drops the state of a finished flow (idle clean-up)


def _clock_reset():
    smh.install()
    smh.Clock.virtual = 0.0


def _pass_time(case, key, pos):
    """Idle time right before item `pos` of the sequence (`idle`) / of the pre-activation events (`pre_idle`)."""
    for p, secs in case.get(key) or []:
        if p == pos:
            smh.Clock.virtual += float(secs)


def _idle_desc(case):
    s = ""
    if case.get("pre_idle"):
        s += f" idle-before-pre[pos,s]={case['pre_idle']}"
    if case.get("idle"):
        s += f" idle-before-seq[pos,s]={case['idle']}"
    return s


def _idle_labels(case, aged):
    if not case.get("idle") and not case.get("pre_idle"):
        return ["no-idle-time"]
    out = ["idle-time"]
    if aged:
        # a member FLOW (not an event / action leaf) finished more than the clean-up age before the completing event
        out.append("member-flow-done>5s-before-completion")
        if len(dnf(case["f"])) + (len(dnf(case["g"])) if case.get("g") else 0) >= 2:
            out.append("member-flow-done>5s-before-completion+dnf>=2-and-groups")
    return out


def _prop_instant(case):
    f, form, seq = case["f"], case["form"], case["seq"]
    text = program(case)
    _clock_reset()
    state = smh.init(text)
    desc = f"{form} F={render(f, str)} with f_i, i in {case['instant']}, finishing without any event" + (f" pre={case['pre']}" if case.get("pre") is not None else "") + f" seq={seq}" + _idle_desc(case)
    out = smh.types(list(state.outgoing_events))
    if case.get("pre") is not None:
        for k, e in enumerate(case["pre"]):
            _pass_time(case, "pre_idle", k)
            if "Done" in smh.types(smh.feed(state, smh.ev(f"Ev{e}"))) or "Done" in out:
                raise Violation(f"{form}-fired-before-active", f"{desc}: marker before the statement became active")
        _pass_time(case, "pre_idle", len(case["pre"]))
        out = smh.types(smh.feed(state, smh.ev("Go")))
    observed = [-1] if "Done" in out else []
    first_at = {i: smh.Clock.virtual for i in case["instant"]}  # virtual time at which leaf i was first delivered
    at = {}
    for idx, e in enumerate(seq):
        _pass_time(case, "idle", idx)
        at[idx] = smh.Clock.virtual
        first_at.setdefault(e, smh.Clock.virtual)
        if "Done" in smh.types(smh.feed(state, smh.ev(f"Ev{e}"))):
            observed.append(idx)
    exp = _timeline(case)
    if observed != ([exp] if exp is not None else []):
        kind = f"{form}-not-fired" if not observed else f"{form}-fired-early" if exp is None or observed[0] < exp else f"{form}-fired-late" if len(observed) == 1 else f"{form}-fired-twice"
        raise Violation(kind, f"{desc}: marker at steps {observed} (-1 = at activation), the formula is first satisfied at step {exp}", detail={"observed": observed})
    o = ops(f)
    labels = [form, "leaf-flow", "instant-member-flows", f"depth{fdepth(f)}", "both-ops" if len(o) == 2 else "one-op", "completed" if exp is not None else "never-true"]
    if exp == -1:
        labels.append("satisfied-at-activation")
    if _timeline(case, defect=True) != exp:
        labels.append("instant-flow-not-last-of-its-and-group")
    aged = exp is not None and exp >= 0 and any(at[exp] - first_at[x] > CLEANUP_AGE for x in set(leaves(f)) & set(first_at) if first_at[x] <= at[exp] and x not in case["instant"])
    labels += _idle_labels(case, aged)
    view = {"statement": text.split("flow main\n")[1].split("\n  match Never")[0], "instant": case["instant"], "events": [f"Ev{e}" for e in seq], "idle": case.get("idle"), "fired_at": exp}
    return ok(nt=len(o) == 2 or fdepth(f) >= 2 or len(leaves(f)) > len(case["instant"]), labels=labels, view=view)


def known(case, violation):
    # C07-F20: an exact model of the defect predicts the observed marker steps
    if case.get("instant") and isinstance(violation.detail, dict) and "observed" in violation.detail:
        d = _timeline(case, defect=True)
        if d != _timeline(case) and violation.detail["observed"] == ([d] if d is not None else []):
            return "C07-F20"
    return None


def _shape_labels(case):
    """Share of the formula-shape dimensions: repeated leaves (what they do to the DNF) and event leaves in `when`."""
    out = []
    fs = [case["f"]] + ([case["g"]] if case.get("g") else [])
    if any(has_repeats(x) for x in fs):
        out.append("repeated-leaf")
        for x in fs:
            groups = dnf(x)
            sets = [frozenset(grp) for grp in groups]
            if any(len(set(grp)) < len(grp) for grp in groups):
                out.append("repeated-leaf-within-one-and-group")
            if any(a < b for a in sets for b in sets):
                out.append("dnf-alternative-proper-subset-of-another")
            if len(set(sets)) < len(sets):
                out.append("dnf-alternatives-coincide")
        out = sorted(set(out))
    evleaf = set(case.get("evleaf") or [])
    if evleaf:
        out.append("when-event-leaves")
        groups = [set(grp) for x in fs for grp in dnf(x)]
        if any(grp & evleaf and grp - evleaf for grp in groups):
            out.append("when-and-group-mixes-flows-and-events")
        if any(grp <= evleaf for grp in groups) and any(not (grp & evleaf) for grp in groups):
            out.append("when-event-only-group-next-to-flow-only-group")
        if all(grp <= evleaf for grp in groups):
            out.append("when-events-only")
    return out


def _stmt_desc(case):
    f, g, form, gate = case["f"], case["g"], case["form"], case.get("gate")
    s = ""
    if gate:
        s += f"[{gate['form']} {render(gate['f'], str)}] directly followed by "
    s += f"{form} F={render(f, str)}" + (f" G={render(g, str)}" if g else "")
    if case.get("evleaf"):
        s += f" (leaves {case['evleaf']} of the when group are plain events Ev_i(), the others flows f_i)"
    if case.get("evmap"):
        s += f" (member flow f_i finishes on event evmap[i], evmap={case['evmap']}; seq = event numbers)"
    if case.get("choices"):
        s += f" tie-breaks={case['choices']}"
    return s


def prop(case):
    smh.install()
    smh.CHOOSER.reset(case.get("choices") or [])
    if case.get("instant"):
        return _prop_instant(case)
    f, g, form, seq = case["f"], case["g"], case["form"], case["seq"]
    gate, evmap = case.get("gate"), case.get("evmap")
    text = program(case)
    _clock_reset()
    try:
        state = smh.init(text)
    except Exception as e:  # the loader/interpreter must accept every well-formed group statement
        raise Violation("startup-" + type(e).__name__, f"{_stmt_desc(case)}: {e!r}"[:300])
    main = [fs for fs in state.flow_states.values() if fs.flow_id == "main"]
    if not main or main[0].status.value not in ("started", "starting"):
        raise Violation("startup-main-not-running", f"{_stmt_desc(case)}: main is {main[0].status.value if main else 'missing'} after start")
    seen = set()
    done_at = None
    exp_at = None
    exp_markers = None
    uids = {}
    for e0 in state.outgoing_events:
        t = e0["type"]
        if t.startswith("StartX") and t.endswith("Action"):
            uids[int(t[6:-6])] = e0["action_uid"]

    def mk(e):
        if form == "matchp":
            return smh.ev("Ev", v=e)
        return smh.ev(f"Ev{e}")

    def members(e):
        """Leaves that event number e delivers (shared events: every member flow waiting for it)."""
        if evmap:
            return [i for i, x in enumerate(evmap) if x == e]
        return [e]

    failed_out = False
    dead = set()  # matchref: flows that finished before the statement became active can never satisfy their leaf
    evleaf = set(case.get("evleaf") or [])  # `when` leaves that are plain events (they cannot fail)
    if case.get("pre") is not None:
        for k, e in enumerate(case["pre"]):
            _pass_time(case, "pre_idle", k)
            out = smh.types(smh.feed(state, mk(e)))
            if "Done" in out or "Done2" in out:
                raise Violation(f"{form}-fired-before-active", f"{_stmt_desc(case)}: marker on pre-activation event Ev{e} of {case['pre']}" + _idle_desc(case))
            if form == "matchref":
                dead.update(members(e))
        _pass_time(case, "pre_idle", len(case["pre"]))
        out = smh.types(smh.feed(state, smh.ev("Go")))
        if "Done" in out or "Done2" in out:
            raise Violation(f"{form}-fired-before-active", f"{_stmt_desc(case)} pre={case['pre']}: marker right at activation, events received before the statement became active were counted" + _idle_desc(case))
        # actions of await/when groups are started at activation
        for e0 in state.outgoing_events:
            t = e0["type"]
            if t.startswith("StartX") and t.endswith("Action"):
                uids[int(t[6:-6])] = e0["action_uid"]
    activation = 0
    first_at = {}  # virtual time at which leaf i was first delivered in the current activation
    aged = False
    phase = 0 if gate else 1  # 0 = the group statement in front (gate) is active, 1 = the statement under test is active
    groups = dnf(f) + (dnf(g) if g else [])
    under_test = set(leaves(f) + (leaves(g) if g else []))
    extra = set()
    for idx, e in enumerate(seq):
        _pass_time(case, "idle", idx)
        if e >= 100:
            event = smh.ev(f"Fail{e - 100}")
        elif e < 90 and _is_action_leaf(case, e) and e not in seen and e in uids:
            event = smh.ev(f"X{e}ActionFinished", action_uid=uids[e], is_success=True)
        else:
            event = mk(e)
        out_events = smh.feed(state, event)
        for e0 in out_events:
            t = e0["type"]
            if t.startswith("StartX") and t.endswith("Action"):
                uids[int(t[6:-6])] = e0["action_uid"]
        out = smh.types(out_events)
        before = set(seen)
        if e >= 100:
            if e - 100 not in seen and e - 100 not in evleaf:
                dead.add(e - 100)
        elif e < 90:
            for i in members(e):
                if i not in dead:
                    seen.add(i)
                    first_at.setdefault(i, smh.Clock.virtual)
        markers = [t for t in out if t in ("Done", "Done2")]
        desc = _stmt_desc(case) + (f" pre={case['pre']}" if case.get("pre") is not None else "") + (" in `while True`" if case.get("loop") else "") + (" (100+i = flow f_i fails)" if case.get("fail") else "") + f" seq={seq}" + _idle_desc(case)
        if case.get("loop") and activation:
            desc += f" [activation #{activation + 1}: events since it became active {sorted(seen)}]"
        if phase == 0:
            # the group statement in front of the one under test is active: it completes by the same formula rule, and the
            # statement under test becomes active right then - this event and everything before it do not count for it
            if markers:
                raise Violation(f"{form}-fired-before-active", f"{desc}: {markers} at step {idx} while the group statement in front is not complete (members finished since it became active: {sorted(before)} + this event)")
            if evaluate(gate["f"], seen):
                stopped = set(leaves(gate["f"])) - seen - dead  # members still running when the first statement completed
                if gate["form"] in ("await", "when"):
                    if under_test & stopped:
                        extra.add("second-statement-re-awaits-member-that-lost-the-first")
                    if under_test & seen:
                        extra.add("second-statement-re-awaits-member-that-finished-in-the-first")
                else:
                    if under_test & seen:
                        extra.add("second-statement-re-matches-event-of-the-first")
                phase = 1
                seen, dead, first_at = set(), set(), {}
            elif case.get("fail"):
                alive = set(range(100)) - dead
                if not evaluate(gate["f"], alive):
                    failed_out = True
                    break
            continue
        if exp_at is None:
            ok_f = evaluate(f, seen)
            ok_g = g is not None and evaluate(g, seen)
            if ok_f or ok_g:
                exp_at = idx
                exp_markers = {"Done"} if ok_f and not ok_g else {"Done2"} if ok_g and not ok_f else {"Done", "Done2"}
                if len(seen - before) >= 2:
                    extra.add("completing-event-finishes>=2-members")
                sat = [set(grp) for grp in groups if all(x in seen for x in grp)]
                if any(set(grp) > a for a in sat for grp in groups if not set(grp) <= seen):
                    # `A or (A and B)` completed by A alone: a satisfied alternative is a proper subset of an unsatisfied one
                    extra.add("completed-by-alternative-that-is-proper-subset-of-an-incomplete-one")
                if evleaf and any(set(grp) & evleaf and set(grp) - evleaf for grp in groups if all(x in seen for x in grp)):
                    extra.add("completed-by-and-group-mixing-flows-and-events")
                if sum(1 for grp in groups if all(x in seen for x in grp)) >= 2:
                    extra.add("completing-event-satisfies>=2-alternatives")
                    if len(seen - before) >= 2:
                        extra.add("completing-event-satisfies>=2-alternatives+finishes>=2-members")
        if case.get("fail") and exp_at is None and not markers:
            alive = set(range(100)) - dead
            if not evaluate(f, alive) and not (g is not None and evaluate(g, alive)):
                # no member flow that is still running can complete the group: the statement fails (its flow is aborted);
                # what follows is outside the property
                failed_out = True
                break
        if markers:
            if done_at is not None:
                raise Violation(f"{form}-fired-twice", f"{desc}: marker again at step {idx} (first at {done_at})")
            if exp_at != idx:
                raise Violation(f"{form}-fired-early", f"{desc}: {markers} at step {idx}, formula not satisfied by {sorted(seen)}")
            if len(markers) != 1 or markers[0] not in exp_markers:
                raise Violation(f"{form}-wrong-marker", f"{desc}: {markers} at step {idx}, expected one of {sorted(exp_markers)}")
            done_at = idx
            if form in ("await", "when", "matchref") and any(smh.Clock.virtual - first_at[x] > CLEANUP_AGE for x in (under_test - evleaf) & set(first_at) if not _is_action_leaf(case, x)):
                aged = True
            if case.get("loop"):
                # the statement is active again: only events from now on count
                activation += 1
                seen, dead, done_at, exp_at, exp_markers = set(), set(), None, None, None
                first_at = {}
                phase = 0 if gate else 1
        elif exp_at == idx:
            raise Violation(f"{form}-not-fired", f"{desc}: formula satisfied at step {idx} by {sorted(seen)} but no marker")
    o = ops(f) | (ops(g) if g else set()) | (ops(gate["f"]) if gate else set())
    d = max(fdepth(f), fdepth(g) if g else 0)
    nt = len(o) == 2 or d >= 2
    labels = [form, "leaf-" + case.get("leaf", "flow"), f"depth{d}", "both-ops" if len(o) == 2 else "one-op", "completed" if exp_at is not None or activation else "never-true"]
    if g:
        labels.append("two-cases")
    if gate:
        labels.append("two-group-statements-in-sequence")
        labels.append(f"first-statement-{gate['form']}" + ("-completed" if phase == 1 or activation else "-never-completed"))
    if evmap:
        labels.append("shared-events")
    labels += _shape_labels(case)
    labels += sorted(extra)
    if smh.CHOOSER.used:
        ch = case.get("choices") or [0]
        labels.append("tie-break-asked")
        if any(ch[k % len(ch)] != 0 for k in range(smh.CHOOSER.used)):
            labels.append("tie-break-asked+choice-not-first-candidate")
    if case.get("loop"):
        labels.append(f"re-activated-{min(activation, 3)}x")
    if case.get("fail"):
        labels.append("member-flow-fails" + ("+group-fails" if failed_out else ""))
    if case.get("pre") is not None:
        labels.append("gated" + ("+early-events" if case["pre"] else ""))
    if any(e >= 90 for e in seq):
        labels.append("irrelevant-events")
    if len(set(seq)) < len(seq):
        labels.append("repeats")
    labels += _idle_labels(case, aged)
    view = {"statement": text.split("flow main\n")[1].split("\n  match Never")[0], "events": [f"Ev{e}" for e in seq], "idle": case.get("idle"), "fired_at": exp_at}
    if evmap:
        view["evmap"] = evmap
    return ok(nt=nt, labels=labels, view=view)
