#!/bin/bash
# usage: mk.sh <PID> "<i j ...>" "<extra notes>"
pid=$1; idx="$2"; notes="$3"; low=$(echo $pid | tr A-Z a-z)
{
cat <<T
You are extending one property check of a property-based-testing framework that lives in /verif (read /verif/AGENT_GUIDE.md first - it is the contract for property modules - then the record of property $pid in /verif/properties.jsonl, the "$pid" entries in sections 4 and 9 of /verif/DESIGN.md, /verif/vf/core.py (runner) and the module /verif/vf/props/$low.py with the helper modules it imports). The code under test is the git repository /repo (NVIDIA NeMo-Guardrails, Python; run everything with /venv/bin/python; the ./check CLI re-execs itself correctly).

Independent testers produced source changes to /repo that BREAK property $pid while the existing test suite still passes. The current check ./check $pid does NOT detect the following ones (quick tier):
T
for i in $idx; do echo "  * /tmp/seed-$pid/seeded_${pid}_$i.diff  (demonstration: /tmp/seed-$pid/demo_${pid}_$i.py - passes on the clean tree, fails with the diff applied)"; done
cat <<T

$notes

Your task: strengthen /verif/vf/props/$low.py (generator, enumerated families, oracle) so that the quick tier catches each of these changes - by WIDENING what is generated towards the whole class of inputs the change needs (read the diff and the demo to understand which shape of input/history/schedule was missing, then generate that shape as one more dimension of the case, with its share visible in the labels), never by hard-coding the one failing example and never by loosening or special-casing the oracle. The oracle must keep asserting only what the property statement (or the documented behaviour it refers to) says: if a seeded change breaks something the statement does not promise, say so in your report instead of stretching the oracle. False alarms on the unchanged tree are worse than a miss.

Working rules:
  * Create your own scratch worktree:  git -C /repo worktree add --detach /var/tmp/vf-mut-$low HEAD ; apply a diff there with  cd /var/tmp/vf-mut-$low && git apply <diff> ; run the check against it with  cd /verif && VERIF_REPO=/var/tmp/vf-mut-$low ./check $pid --workers 6 ; undo with  git -C /var/tmp/vf-mut-$low checkout -- .  ; when finished remove it:  git -C /repo worktree remove --force /var/tmp/vf-mut-$low . Never edit /repo itself, never use git stash, never commit anywhere.
  * Always use --workers 6 (the machine is shared) and wrap every run in  timeout 1500 . The repo code hangs on some inputs: ad-hoc probes need  timeout 300  as well.
  * Edit ONLY /verif/vf/props/$low.py (and, if unavoidable, add - never change existing behaviour of - helpers in the shared modules it imports: other checks depend on them; say so in the report). Add one small regression replay per newly caught change under /verif/replays/regress/$pid/<descriptive-name>.json (format: the JSON case, as written to replays/out/ by a failing run - such a case must PASS on the unchanged tree and FAIL with the diff applied; verify both with ./check $pid --replay FILE, using VERIF_REPO for the patched run). Do not edit MANIFEST.json, DESIGN.md, known_findings.json.
  * Update the RULE / ASSUMPTIONS strings of the module so that they describe the widened generator.
  * When the new shapes are in, the check must still be quiet on the unchanged tree: run  VERIF_SEED=1, 2 and 3  ./check $pid --workers 6  (full quick budget, no --budget) - each must exit 0 with no VIOLATION / HARNESS-ERROR line - and the quick tier must stay under about 3 minutes of wall time with 16 workers (so under ~6 with 6). If the widened check reports a violation on the UNCHANGED tree, work out whether /repo really breaks the statement as written (then keep the replay file, do not "fix" the oracle, and report it to me with the file and your analysis - do not touch /repo) or whether your generator/oracle over-reaches (then correct it).
  * Also confirm that the seeded changes of earlier rounds are still caught is NOT your job; just do not remove any existing generator feature.

Final report (plain text): for each listed change - caught or not, by which violation kind, in how many seconds, and the regress replay you added; what you widened (one paragraph, suitable for the design document); the three quiet-run summary lines; anything found on the unchanged tree; anything you could not do.
T
} > /tmp/builders/$pid.prompt.txt
wc -c /tmp/builders/$pid.prompt.txt
