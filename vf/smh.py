"""State-machine harness for Colang 2.x (DESIGN 3.4): init a program, feed events, own the tie-breaks
and the clock, canonicalise outgoing events, structural invariants (C09)."""
import datetime as _dt
import re
from collections import Counter

_patched = {}


class Chooser:
    """Replacement for `statemachine.random`: tie-break outcomes come from the case."""

    def __init__(self):
        self.choices = []
        self.i = 0
        self.used = 0

    def reset(self, choices):
        self.choices = list(choices or [])
        self.i = 0
        self.used = 0

    def choice(self, seq):
        seq = list(seq)
        self.used += 1
        if not self.choices:
            return seq[0]
        c = self.choices[self.i % len(self.choices)]
        self.i += 1
        return seq[c % len(seq)]

    # anything else falls back to the real module
    def __getattr__(self, name):
        import random

        return getattr(random, name)


CHOOSER = Chooser()
BASE = _dt.datetime(2030, 1, 1, 12, 0, 0)


class Clock:
    virtual = 0.0


class FakeDateTime(_dt.datetime):
    @classmethod
    def now(cls, tz=None):
        d = BASE + _dt.timedelta(seconds=Clock.virtual)
        if tz is not None:
            d = d.replace(tzinfo=tz)
        return d


def install():
    """Patch module-level names of the imported package (idempotent)."""
    if _patched:
        return
    from nemoguardrails.colang.v2_x.runtime import flows, statemachine

    statemachine.random = CHOOSER
    statemachine.datetime = FakeDateTime
    flows.datetime = FakeDateTime
    _patched["done"] = True


def sm():
    from nemoguardrails.colang.v2_x.runtime import statemachine

    return statemachine


def parse(text):
    from nemoguardrails.colang import parse_colang_file

    return parse_colang_file(filename="", content=text, include_source_mapping=False, version="2.x")["flows"]


def init(text, start=True, extra_flows=None):
    """parse -> flow configs -> State -> initialize_state -> StartFlow main (as tests/utils._init_state)."""
    install()
    from nemoguardrails.colang.v2_x.runtime.flows import InternalEvent, State
    from nemoguardrails.colang.v2_x.runtime.statemachine import initialize_state, run_to_completion
    from nemoguardrails.colang.v2_x.runtime.runtime import create_flow_configs_from_flow_list

    flows = parse(text)
    if extra_flows:
        flows = list(extra_flows) + flows
    config = create_flow_configs_from_flow_list(flows)
    state = State(flow_states=[], flow_configs=config)
    initialize_state(state)
    if start:
        run_to_completion(state, InternalEvent(name="StartFlow", arguments={"flow_id": "main"}))
    return state


def feed(state, event):
    """Feeds one external event (dict); returns a copy of the outgoing events."""
    from nemoguardrails.colang.v2_x.runtime.statemachine import run_to_completion

    run_to_completion(state, event)
    return [dict(e) for e in state.outgoing_events]


def ev(name, **kw):
    d = {"type": name}
    d.update(kw)
    return d


_VOLATILE = {"uid", "event_created_at", "source_uid", "action_info_modality", "action_info_modality_policy"}


def canon(events, keep_action_uid=True):
    """Canonicalise outgoing events: drop timestamps/uids, rename action uids by first appearance."""
    names = {}
    out = []
    for e in events:
        d = {}
        for k, v in e.items():
            if k in _VOLATILE:
                continue
            if k == "action_uid":
                if keep_action_uid:
                    d[k] = names.setdefault(v, f"A{len(names)}")
                continue
            d[k] = v
        out.append(d)
    return out


def types(events):
    return [e["type"] for e in events]


def flow_status_by_id(state):
    out = {}
    for fs in state.flow_states.values():
        out.setdefault(fs.flow_id, []).append(fs.status.value)
    return out


# ------------------------------------------------------------------------------------------------
# Colang literal rendering


def lit(v):
    """Render a Python value as a Colang 2 literal expression."""
    if isinstance(v, dict) and "__regex__" in v:
        return "regex(%s)" % lit(v["__regex__"])
    if isinstance(v, dict) and "__set__" in v:
        items = v["__set__"]
        if not items:
            return "set()"
        return "{" + ", ".join(lit(x) for x in items) + "}"
    if v is None:
        return "None"
    if v is True:
        return "True"
    if v is False:
        return "False"
    if isinstance(v, (int, float)):
        return repr(v)
    if isinstance(v, str):
        return '"' + v.replace("\\", "\\\\").replace('"', '\\"').replace("\n", "\\n") + '"'
    if isinstance(v, list):
        return "[" + ", ".join(lit(x) for x in v) + "]"
    if isinstance(v, dict):
        return "{" + ", ".join(f"{lit(k)}: {lit(x)}" for k, x in v.items()) + "}"
    raise TypeError(v)


def to_py(v):
    """Case value -> the Python object an event payload carries ('__set__' -> set)."""
    if isinstance(v, dict) and "__set__" in v:
        return set(_freeze(to_py(x)) for x in v["__set__"])
    if isinstance(v, dict) and "__regex__" in v:
        return re.compile(v["__regex__"])
    if isinstance(v, list):
        return [to_py(x) for x in v]
    if isinstance(v, dict):
        return {k: to_py(x) for k, x in v.items()}
    return v


def _freeze(x):
    if isinstance(x, list):
        return tuple(_freeze(i) for i in x)
    if isinstance(x, set):
        return frozenset(x)
    return x


# ------------------------------------------------------------------------------------------------
# sessions over generated programs (co2) and abstract histories


class Session:
    """Runs a program text, keeps a ledger of actions from the outgoing events and translates abstract
    history items (["ev",k,v] | ["started",i] | ["finished",i]) into UMIM events."""

    def __init__(self, text, choices=None):
        install()
        CHOOSER.reset(choices or [])
        Clock.virtual = 0.0
        self.running = []  # action uids started and not yet finished (from outgoing Start events)
        self.action_type = {}
        self.started_sent = set()
        self.steps = []
        self.state = init(text)
        self._ledger(self.state.outgoing_events)
        self.start_events = [dict(e) for e in self.state.outgoing_events]

    def _ledger(self, events):
        for e in events:
            t = e["type"]
            if t.startswith("Start") and t.endswith("Action") and "action_uid" in e:
                self.running.append(e["action_uid"])
                self.action_type[e["action_uid"]] = t[5:]

    def concrete(self, item):
        kind = item[0]
        if kind == "age":
            Clock.virtual += 6.0
            return None
        if kind == "save":
            # the conversation state is serialised and restored between two events (what LLMRails does between calls)
            from nemoguardrails.colang.v2_x.runtime.serialization import json_to_state, state_to_json

            self.state = json_to_state(state_to_json(self.state))
            return None
        if kind == "ev":
            d = {"type": f"Ev{item[1]}"}
            if item[2] is not None:
                d["v"] = item[2]
            return d
        if kind in ("started", "finished") and not self.running:
            kind, item = "hit", ["hit", item[1], None]  # nothing to finish: use the slot for a guided event
        if kind == "hit":
            names = sorted(n for n in scan_matchers(self.state) if n.startswith("Ev"))
            if not names:
                return None
            d = {"type": names[item[1] % len(names)]}
            if item[2] is not None:
                d["v"] = item[2]
            return d
        if not self.running:
            return None
        uid = self.running[item[1] % len(self.running)]
        typ = self.action_type[uid]
        if kind == "started":
            return {"type": f"{typ}Started", "action_uid": uid}
        if kind == "finished":
            self.running.remove(uid)
            return {"type": f"{typ}Finished", "action_uid": uid, "is_success": True}
        raise ValueError(kind)

    def feed(self, item):
        e = self.concrete(item)
        if e is None:
            return None
        out = feed(self.state, e)
        self._ledger(out)
        return out


def scan_matchers(state):
    """From-scratch scan: (event name -> sorted [(flow uid, head uid)]) of all waiting match statements."""
    s = sm()
    found = {}
    for fs in state.flow_states.values():
        if not s.is_listening_flow(fs):
            continue
        cfg = state.flow_configs[fs.flow_id]
        for head in fs.heads.values():
            if head.status == s.FlowHeadStatus.INACTIVE:
                continue
            if head.position < 0 or head.position >= len(cfg.elements):
                continue
            el = cfg.elements[head.position]
            if s.is_match_op_element(el):
                try:
                    name = s.get_event_name_from_element(state, fs, el)
                except Exception as e:
                    # a head left on a match statement whose event cannot even be named (e.g. `match $undefined.Finished()`)
                    name = f"<unevaluable:{type(e).__name__}>"
                found.setdefault(name, []).append((fs.uid, head.uid))
    return {k: sorted(v) for k, v in found.items()}


def invariants(state):
    """Structural invariants of C09 after a completed run_to_completion; returns a list of (kind, message)."""
    s = sm()
    from nemoguardrails.colang.v2_x.lang.colang_ast import MergeHeads, WaitForHeads

    bad = []
    if len(state.internal_events) != 0:
        bad.append(("I1-internal-events-pending", f"{len(state.internal_events)} internal events left: {[e.name for e in state.internal_events][:5]}"))
    for fs in state.flow_states.values():
        cfg = state.flow_configs[fs.flow_id]
        if s.is_listening_flow(fs):
            for head in fs.heads.values():
                if head.status == s.FlowHeadStatus.INACTIVE:
                    continue
                el = cfg.elements[head.position] if 0 <= head.position < len(cfg.elements) else None
                if el is None or not (s.is_match_op_element(el) or isinstance(el, (WaitForHeads, MergeHeads))):
                    bad.append(("I2-head-not-parked-on-wait", f"flow {fs.flow_id} ({fs.status.value}) head at {head.position}: {type(el).__name__} {getattr(el, 'op', '')}"))
            if s.is_active_flow(fs) or fs.status == s.FlowStatus.WAITING:
                for uid in fs.action_uids:
                    if uid not in state.actions:
                        bad.append(("I6-dangling-action", f"flow {fs.flow_id} references action {uid[:8]} that is not in state.actions"))
                for uid in fs.child_flow_uids:
                    if uid not in state.flow_states:
                        bad.append(("I6-dangling-child", f"flow {fs.flow_id} references child {uid[:14]} that does not exist"))
                if fs.parent_uid is not None and fs.parent_uid not in state.flow_states:
                    bad.append(("I6-dangling-parent", f"flow {fs.flow_id} has a parent that does not exist"))
        else:
            live = [h for h in fs.heads.values() if h.status != s.FlowHeadStatus.INACTIVE]
            if live:
                bad.append(("I3-done-flow-holds-position", f"{fs.status.value} flow {fs.flow_id} still has {len(live)} non-inactive heads"))
    scan = scan_matchers(state)
    for k in [k for k in scan if k.startswith("<unevaluable:")]:
        names = [state.flow_states[f].flow_id for f, _ in scan[k]]
        bad.append(("I2-head-parked-on-unevaluable-match", f"flows {names} wait on a match statement whose event name cannot be evaluated {k}: no event can ever release them"))
        del scan[k]
    index = {k: sorted(v) for k, v in state.event_matching_heads.items() if v}
    if scan != index:
        missing = {k: [x for x in v if x not in index.get(k, [])] for k, v in scan.items()}
        stale = {k: [x for x in v if x not in scan.get(k, [])] for k, v in index.items()}
        missing = {k: v for k, v in missing.items() if v}
        stale = {k: v for k, v in stale.items() if v}
        dup = {k: len(v) - len(set(v)) for k, v in index.items() if len(v) != len(set(v))}

        def names(d):
            return {k: [state.flow_states[f].flow_id if f in state.flow_states else f"<gone:{f[:10]}>" for f, _ in v] for k, v in d.items()}

        if missing:
            bad.append(("I4-waiting-head-missing-from-index", f"{names(missing)}"))
        if stale:
            bad.append(("I4-stale-index-entry", f"{names(stale)}"))
        if dup and not missing and not stale:
            bad.append(("I4-duplicate-index-entry", f"{dup}"))
    rev = {}
    for name, heads in state.event_matching_heads.items():
        for f, h in heads:
            rev[f + h] = name
    if rev != dict(state.event_matching_heads_reverse_map):
        bad.append(("I4-reverse-map-mismatch", f"{len(rev)} entries from the index vs {len(state.event_matching_heads_reverse_map)} in the reverse map"))
    by_id = {}
    for fs in state.flow_states.values():
        by_id.setdefault(fs.flow_id, []).append(fs.uid)
    idx = {k: [fs.uid for fs in v] for k, v in state.flow_id_states.items() if v}
    if {k: sorted(v) for k, v in by_id.items()} != {k: sorted(v) for k, v in idx.items()}:
        bad.append(("I5-flow-id-index-mismatch", "flow_id_states does not partition flow_states"))
    return bad
