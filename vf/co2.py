"""Colang 2 program model: JSON AST, renderer, Hypothesis strategies built by construction (DESIGN 3.3).

A program is {"flows": [Flow...]}; Flow = {"name", "params": [..], "loop": None|"L1"|"NEW", "body": [Stmt...]}.
`main` is flows[-1]; helper flow h_i may only reference helpers h_j with j > i (no recursion, unless profile["recursion"]: then a helper may end with a call of itself or of a lower-numbered helper), every `while`
body starts with a waiting statement and `main` ends in `match Never()`, so event processing must terminate.

Stmt kinds (dict with "k"):
  match   {ev, v?}                      match Ev<ev>([v=<v>])
  matchg  {op, evs}                     match EvA() <op> EvB() ...
  send    {n}                           send Out<n>()                    (the observable marker events)
  startact{a, ref}                      start <Action a> as $a<ref>
  awaitact{a}                           await <Action a>
  matchact{ref, what}                   match $a<ref>.Finished()|Started()
  startflow{f, arg?, ref}               start h<f> [arg] as $r<ref>
  awaitflow{f, arg?}                    await h<f> [arg]
  awaitg  {op, fs}                      await h<a> <op> h<b>
  awaitga {op, acts}                    await <Action a> <op> <Action b>
  activate{f}                           activate h<f>
  matchflow{ref}                        match $r<ref>.Finished()
  assign  {var, expr}                   $<var> = <expr>      expr: int | ["+", var, int]
  if      {var, val, then, else?}       if $<var> == <val> ...
  while   {var, limit, body}            while $<var> < <limit>  (body starts with a wait and increments var)
  when    {cases: [{ev|f, body}], else?}
  return {} | abort {} | break {} | continue {}
"""
from hypothesis import strategies as st

ACTIONS = [
    ("UtteranceBotAction", 'script="hello"'),
    ("UtteranceBotAction", 'script="bye"'),
    ("GestureBotAction", 'gesture="wave"'),
    ("TimerBotAction", 'timer_name="t", duration=1.0'),
    ("XCustomAction", "p=1"),
]
EVENTS = 4  # Ev0..Ev3
VARS = ["x", "y"]


def render(prog):
    lines = []
    for fl in prog["flows"]:
        if fl.get("loop"):
            lines.append(f'@loop("{fl["loop"]}")')
        head = "flow " + fl["name"] + "".join(f" ${p}" for p in fl.get("params", []))
        lines.append(head)
        _body(fl["body"], 1, lines)
        lines.append("")
    return "\n".join(lines)


def _ev(s):
    if s.get("v") is not None:
        return f"Ev{s['ev']}(v={s['v']})"
    return f"Ev{s['ev']}()"


def _expr(e):
    if isinstance(e, list):
        return f"${e[1]} {e[0]} {e[2]}"
    return repr(e)


def _call(f, arg):
    return f"h{f}" + (f" {arg}" if arg is not None else "")


def _body(stmts, ind, out):
    p = "  " * ind
    if not stmts:
        out.append(p + "pass")
    for s in stmts:
        k = s["k"]
        if k == "match":
            out.append(p + "match " + _ev(s))
        elif k == "matchg":
            out.append(p + "match " + f" {s['op']} ".join(f"Ev{e}()" for e in s["evs"]))
        elif k == "send":
            out.append(p + f"send Out{s['n']}()")
        elif k == "sendg":
            out.append(p + "send " + f" {s['op']} ".join(f"Out{n}()" for n in s["ns"]))
        elif k == "startga":
            out.append(p + "start " + f" {s['op']} ".join(f"{ACTIONS[a][0]}({ACTIONS[a][1]})" for a in s["acts"]))
        elif k == "startact":
            a = ACTIONS[s["a"]]
            out.append(p + f"start {a[0]}({a[1]}) as $a{s['ref']}")
        elif k == "awaitact":
            a = ACTIONS[s["a"]]
            out.append(p + f"await {a[0]}({a[1]})")
        elif k == "matchact":
            out.append(p + f"match $a{s['ref']}.{s['what']}()")
        elif k == "startflow":
            out.append(p + f"start {_call(s['f'], s.get('arg'))} as $r{s['ref']}")
        elif k == "awaitflow":
            out.append(p + f"await {_call(s['f'], s.get('arg'))}")
        elif k == "awaitg":
            out.append(p + "await " + f" {s['op']} ".join(f"h{f}" for f in s["fs"]))
        elif k == "awaitga":
            out.append(p + "await " + f" {s['op']} ".join(f"{ACTIONS[a][0]}({ACTIONS[a][1]})" for a in s["acts"]))
        elif k == "activate":
            out.append(p + f"activate h{s['f']}")
        elif k == "matchflow":
            out.append(p + f"match $r{s['ref']}.Finished()")
        elif k == "assign":
            out.append(p + f"${s['var']} = {_expr(s['expr'])}")
        elif k == "if":
            out.append(p + f"if ${s['var']} == {s['val']}")
            _body(s["then"], ind + 1, out)
            if s.get("else") is not None:
                out.append(p + "else")
                _body(s["else"], ind + 1, out)
        elif k == "while":
            out.append(p + f"while ${s['var']} < {s['limit']}")
            _body(s["body"], ind + 1, out)
        elif k == "when":
            for i, c in enumerate(s["cases"]):
                cond = f"Ev{c['ev']}()" if "ev" in c else f"h{c['f']}" if "f" in c else f"{ACTIONS[c['act']][0]}({ACTIONS[c['act']][1]})"
                out.append(p + ("when " if i == 0 else "or when ") + cond)
                _body(c["body"], ind + 1, out)
            if s.get("else") is not None:
                out.append(p + "else")
                _body(s["else"], ind + 1, out)
        elif k in ("return", "abort", "break", "continue", "pass"):
            out.append(p + k)
        elif k == "raw":
            out.append(p + s["text"])
        else:
            raise ValueError(k)


# ---------------------------------------------------------------------------------------------
# strategies


class Ctx:
    def __init__(self, flow_idx, nhelpers, params, profile):
        self.flow_idx = flow_idx  # index of the flow being generated (helpers 0..n-1, main = n)
        self.nhelpers = nhelpers
        self.params = params
        self.profile = profile
        self.action_refs = 0
        self.flow_refs = 0
        self.vis_a = []  # references definitely assigned at this point (block-scoped)
        self.vis_r = []
        self.in_loop = False

    def callable_flows(self, helper_params):
        lo = self.flow_idx + 1 if self.flow_idx < self.nhelpers else 0
        return [j for j in range(lo, self.nhelpers)]


@st.composite
def _wait(draw, ctx):
    kind = draw(st.sampled_from(["match", "match", "match", "matchg"]))
    if kind == "match":
        return {"k": "match", "ev": draw(st.integers(0, EVENTS - 1)), "v": draw(st.sampled_from([None, None, 0, 1]))}
    evs = draw(st.lists(st.integers(0, EVENTS - 1), min_size=2, max_size=3, unique=True))
    return {"k": "matchg", "op": draw(st.sampled_from(["and", "or"])), "evs": evs}


@st.composite
def _stmts(draw, ctx, depth, helper_params, min_size=1, max_size=4, need_wait_first=False):
    out = []
    n = draw(st.integers(min_size, max_size))
    if need_wait_first:
        out.append(draw(_wait(ctx)))
    prof = ctx.profile
    saved = (list(ctx.vis_a), list(ctx.vis_r))
    try:
        return draw(_stmts_inner(ctx, depth, helper_params, n, out, prof))
    finally:
        ctx.vis_a, ctx.vis_r = saved


@st.composite
def _stmts_inner(draw, ctx, depth, helper_params, n, out, prof):
    for _ in range(n):
        kinds = ["wait", "wait", "send", "send", "assign"]
        if prof.get("pass", True) and depth < prof.get("_top_depth", 99):
            kinds += ["pass"]
        if prof.get("actions", True):
            kinds += ["startact", "awaitact"]
            if prof.get("groups", True):
                kinds += ["awaitga"]
                if prof.get("send_groups", True):
                    kinds += ["startga"]
            if ctx.vis_a:
                kinds += ["matchact"]
        if prof.get("groups", True) and prof.get("send_groups", True):
            kinds += ["sendg"]
        callees = ctx.callable_flows(helper_params)
        if callees:
            kinds += ["startflow", "awaitflow"]
            if prof.get("activate", True):
                kinds += ["activate"]
            if len(callees) >= 2 and prof.get("groups", True):
                kinds += ["awaitg"]
            if ctx.vis_r:
                kinds += ["matchflow"]
        if depth > 0:
            kinds += ["if", "while", "when"] if prof.get("control", True) else []
        if ctx.in_loop and prof.get("control", True):
            kinds += ["break", "continue"]
        if prof.get("exits", True) and ctx.flow_idx < ctx.nhelpers:
            kinds += ["return", "abort"]
        kinds += [b for b in prof.get("boost", []) if b in kinds]
        k = draw(st.sampled_from(kinds))
        if k == "wait":
            out.append(draw(_wait(ctx)))
        elif k == "send":
            out.append({"k": "send", "n": draw(st.integers(0, 5))})
        elif k == "assign":
            var = draw(st.sampled_from(VARS))
            out.append({"k": "assign", "var": var, "expr": draw(st.one_of(st.integers(0, 2), st.just(["+", var, 1])))})
        elif k == "startact":
            if ctx.vis_a and draw(st.integers(0, 3)) == 0:
                # re-assign an existing reference (the same `match $aN.Finished()` may then wait for another action type)
                out.append({"k": "startact", "a": draw(st.integers(0, len(ACTIONS) - 1)), "ref": draw(st.sampled_from(ctx.vis_a))})
            else:
                out.append({"k": "startact", "a": draw(st.integers(0, len(ACTIONS) - 1)), "ref": ctx.action_refs})
                ctx.vis_a.append(ctx.action_refs)
                ctx.action_refs += 1
        elif k == "awaitact":
            out.append({"k": "awaitact", "a": draw(st.integers(0, len(ACTIONS) - 1))})
        elif k == "sendg":
            out.append({"k": "sendg", "op": draw(st.sampled_from(["or", "or", "and"])), "ns": draw(st.lists(st.integers(0, 5), min_size=2, max_size=3, unique=True))})
        elif k == "startga":
            acts = draw(st.lists(st.integers(0, len(ACTIONS) - 1), min_size=2, max_size=3, unique=True))
            out.append({"k": "startga", "op": draw(st.sampled_from(["or", "or", "and"])), "acts": acts})
        elif k == "awaitga":
            acts = draw(st.lists(st.integers(0, len(ACTIONS) - 1), min_size=2, max_size=3, unique=True))
            out.append({"k": "awaitga", "op": draw(st.sampled_from(["or", "or", "and"])), "acts": acts})
        elif k == "matchact":
            out.append({"k": "matchact", "ref": draw(st.sampled_from(ctx.vis_a)), "what": draw(st.sampled_from(["Finished", "Finished", "Started"]))})
        elif k in ("startflow", "awaitflow"):
            f = draw(st.sampled_from(callees))
            arg = draw(st.integers(0, 2)) if helper_params[f] else None
            s = {"k": k, "f": f, "arg": arg}
            if k == "startflow":
                s["ref"] = ctx.flow_refs
                ctx.vis_r.append(ctx.flow_refs)
                ctx.flow_refs += 1
            out.append(s)
        elif k == "activate":
            f = draw(st.sampled_from([c for c in callees if not helper_params[c]] or callees))
            if helper_params[f]:
                out.append({"k": "awaitflow", "f": f, "arg": 0})
            else:
                out.append({"k": "activate", "f": f})
        elif k == "awaitg":
            cand = [c for c in callees if not helper_params[c]]
            fs = draw(st.lists(st.sampled_from(cand), min_size=2, max_size=3, unique=True)) if len(cand) >= 2 else []
            if len(fs) >= 2:
                out.append({"k": "awaitg", "op": draw(st.sampled_from(["and", "or"])), "fs": fs})
            else:
                out.append(draw(_wait(ctx)))
        elif k == "matchflow":
            out.append({"k": "matchflow", "ref": draw(st.sampled_from(ctx.vis_r))})
        elif k == "if":
            var = draw(st.sampled_from(VARS + ctx.params))
            s = {"k": "if", "var": var, "val": draw(st.integers(0, 2)), "then": draw(_stmts(ctx, depth - 1, helper_params, 1, 3))}
            if draw(st.booleans()):
                s["else"] = _no_leading_if(draw(_stmts(ctx, depth - 1, helper_params, 1, 2)))
                if prof.get("pass", True) and draw(st.integers(0, 5)) == 0:
                    s["else"] = [{"k": "pass"}]  # an else branch that is empty after expansion
            out.append(s)
        elif k == "while":
            var = draw(st.sampled_from(VARS))
            was = ctx.in_loop
            ctx.in_loop = True
            body = draw(_stmts(ctx, depth - 1, helper_params, 0, 2, need_wait_first=True))
            ctx.in_loop = was
            # the counter is incremented right after the wait so that `continue` cannot skip it
            body.insert(1, {"k": "assign", "var": var, "expr": ["+", var, 1]})
            out.append({"k": "assign", "var": var, "expr": 0})
            out.append({"k": "while", "var": var, "limit": draw(st.integers(1, 3)), "body": body})
        elif k == "when":
            ncases = draw(st.integers(1, 3))
            cases = []
            used = set()
            for _c in range(ncases):
                if callees and prof.get("when_flows", True) and draw(st.integers(0, 2)) == 0:
                    cand = [c for c in callees if not helper_params[c] and ("f", c) not in used]
                    if cand:
                        f = draw(st.sampled_from(cand))
                        used.add(("f", f))
                        cases.append({"f": f, "body": draw(_stmts(ctx, depth - 1, helper_params, 1, 2))})
                        continue
                if prof.get("actions", True) and draw(st.integers(0, 3)) == 0:
                    cand = [a for a in range(len(ACTIONS)) if ("a", a) not in used]
                    a = draw(st.sampled_from(cand))
                    used.add(("a", a))
                    cases.append({"act": a, "body": draw(_stmts(ctx, depth - 1, helper_params, 1, 2))})
                    continue
                cand = [e for e in range(EVENTS) if ("e", e) not in used]
                e = draw(st.sampled_from(cand))
                used.add(("e", e))
                cases.append({"ev": e, "body": draw(_stmts(ctx, depth - 1, helper_params, 1, 2))})
            s = {"k": "when", "cases": cases}
            if any("f" in c or "act" in c for c in cases) and draw(st.booleans()):
                s["else"] = _no_leading_if(draw(_stmts(ctx, depth - 1, helper_params, 1, 2)))
            out.append(s)
        else:
            out.append({"k": k})
            if k in ("return", "abort", "break", "continue"):
                break  # nothing after an exit in the same block
    return out


def _no_leading_if(stmts):
    # `else` + newline + `if` is lexed as `else if` by the 2.x grammar (DedentError): never start an else block with `if`
    if stmts and stmts[0]["k"] == "if":
        return [{"k": "send", "n": 9}] + stmts
    return stmts


DEFAULT_PROFILE = {"actions": True, "activate": True, "groups": True, "control": True, "exits": True, "when_flows": True}


@st.composite
def programs(draw, profile=None, max_helpers=4, depth=2):
    prof = dict(DEFAULT_PROFILE)
    prof.update(profile or {})
    nh = draw(st.integers(1, max_helpers))
    helper_params = [draw(st.integers(0, 3)) == 0 for _ in range(nh)]
    flows = []
    for i in range(nh):
        params = ["p"] if helper_params[i] else []
        ctx = Ctx(i, nh, params, prof)
        body = draw(_stmts(ctx, depth, helper_params, 1, 4, need_wait_first=prof.get("helpers_wait_first", True)))
        if prof.get("recursion") and prof.get("helpers_wait_first", True) and draw(st.integers(0, 3)) == 0:
            # recursion (direct, or mutual through a lower-numbered helper): the flow holding the back-reference starts with an
            # unconditional waiting statement, so every call cycle contains one
            j = draw(st.integers(0, i))
            call = {"k": draw(st.sampled_from(["awaitflow", "awaitflow", "startflow"])), "f": j, "arg": draw(st.integers(0, 2)) if helper_params[j] else None}
            if call["k"] == "startflow":
                call["ref"] = ctx.flow_refs
                ctx.flow_refs += 1
            at = len(body) - 1 if body and body[-1]["k"] in ("return", "abort") else len(body)
            body.insert(at, call)
        loop = draw(st.sampled_from([None, None, None, "L1", "NEW"])) if prof.get("loops", True) else None
        flows.append({"name": f"h{i}", "params": params, "loop": loop, "body": body})
    ctx = Ctx(nh, nh, [], prof)
    body = [{"k": "assign", "var": v, "expr": 0} for v in VARS]
    body += draw(_stmts(ctx, depth, helper_params, 2, 6))
    body.append({"k": "raw", "text": "match Never()"})
    # helper flows read $x/$y too: initialise them at the top of every helper
    for fl in flows:
        fl["body"] = [{"k": "assign", "var": v, "expr": 0} for v in VARS] + fl["body"]
    flows.append({"name": "main", "params": [], "loop": None, "body": body})
    return {"flows": flows}


def has_recursion(prog):
    """Some helper h_i calls itself or a lower-numbered helper (a call cycle exists or can exist)."""
    def walk(stmts):
        for s in stmts:
            yield s
            for key in ("then", "else", "body"):
                if isinstance(s.get(key), list):
                    yield from walk(s[key])
            for case in s.get("cases", []):
                yield from walk(case["body"])

    for i, fl in enumerate(prog["flows"][:-1]):
        for s in walk(fl["body"]):
            if s["k"] in ("awaitflow", "startflow") and s.get("f") is not None and s["f"] <= i:
                return True
    return False


def count_kinds(prog):
    from collections import Counter

    c = Counter()

    def walk(stmts, d):
        for s in stmts:
            c[s["k"]] += 1
            c["maxdepth"] = max(c["maxdepth"], d)
            for key in ("then", "else", "body"):
                if isinstance(s.get(key), list):
                    walk(s[key], d + 1)
            for case in s.get("cases", []):
                walk(case["body"], d + 1)

    for fl in prog["flows"]:
        walk(fl["body"], 0)
    return c


# history items: ["ev", k, v|None] | ["started", i] | ["finished", i] | ["hit", i, v] | ["age"] (6 s of idle time) | ["save"] (state -> JSON -> state)
#   i indexes the running actions; "hit" picks the i-th event name some flow currently waits for (co-simulation)
def history_item():
    v = st.sampled_from([None, None, 0, 1])
    return st.one_of(
        st.tuples(st.just("ev"), st.integers(0, EVENTS - 1), v),
        st.tuples(st.just("hit"), st.integers(0, 5), v),
        st.tuples(st.just("hit"), st.integers(0, 5), v),
        st.tuples(st.just("finished"), st.integers(0, 3)),
        st.tuples(st.just("started"), st.integers(0, 3)),
        st.tuples(st.just("started"), st.integers(0, 3)),
        st.sampled_from([("age",), ("save",), ("hit", 0, None), ("hit", 1, None)]),
    ).map(list)


def histories(max_len=25):
    v = st.sampled_from([None, None, 0, 1])
    item = history_item()
    return st.one_of(st.lists(item, min_size=1, max_size=8), st.lists(item, min_size=12, max_size=max_len), st.lists(item, min_size=12, max_size=max_len))
