"""C07 - and/or groups behave like the boolean formula they spell.

Domain : and/or formulas (2-5 leaves, depth <= 3, every shape incl. those whose DNF repeats a leaf) in three
         program forms - `match F` over events, `await F` and `when F [or when G]` over flows f_i := match Ev_i() -
         x event sequences (orders with repetition + irrelevant events, length <= 10); all orders of the leaf
         events are enumerated for a fixed family of formulas with <= 4 leaves. Idle time (virtual clock of the harness,
         3 / 6 / 60 s, i.e. below / beyond the interpreter's 5 s clean-up age of finished flows) passes between the events
         of ~half of the sequences; it is not an event, so the oracle does not see it.
Oracle : evaluate the formula over the set of events seen so far: the marker appears at exactly the first index
         at which the formula is true, never earlier, never twice; never if it is never true.
"""
import itertools

from hypothesis import strategies as st

from vf import smh
from vf.core import Violation, ok

PID = "C07"
LEVEL = "exploration"
CASE_TIMEOUT = 30
RULE = (
    "formula F over leaves Ev0..Ev4 drawn recursively (and/or nodes with 2-3 children, depth<=3, 2-5 leaves, distinct leaves) "
    "rendered fully parenthesised as `match F` (leaves = distinct event names, or one event name with distinct parameter values, or `$r_i.Finished()` of flows started earlier) / `await F` / `when F [or when G]` (await/when leaves are flows f_i := match Ev_i(), or actions X_iAction() finished by their ActionFinished event, or a mix); optionally the statement sits behind `match Go()` and 0-4 events arrive before it becomes active (they must not count; a flow finished early can never satisfy its leaf); event sequence of <=10 events drawn from the "
    "leaf events (with repetition) and 2 irrelevant events; in a third of the cases the statement sits in `while True` and the sequence goes on over several activations (only events since the current activation count); in a third of the await/when cases over flows the member flows can fail (event Fail_i aborts f_i: it never delivers Finished; when no running member can complete the group the case stops); in a quarter of the single-case await/when cases over flows 1-2 member flows finish without any event (their Finished events count from activation on); in about half of the cases (every form, also the looping / failing / instant / gated ones) IDLE TIME passes between the events: items [position, seconds] with seconds in {3, 6, 60} (the harness owns the clock, smh.Clock; 5 s is the age after which the interpreter drops the state of finished flows) before 1-4 events of the sequence or before every event, and before pre-activation events / the activating Go - idle time is not an event, the marker is still due at exactly the first event that satisfies the formula (labels idle-time / no-idle-time, member-flow-done>5s-before-completion[+dnf>=2-and-groups] = a member flow finished more than 5 s before the completing event [and the formula normalises to >= 2 and-groups]); plus enumeration of ALL permutations of the leaf events for every "
    "formula shape with <=4 leaves (x 3 forms), and the same permutations once more with 6 s of idle time in every gap between the events (<=3 leaves: all five forms; 4 leaves: await/when, idle time before the last two events). Non-trivial = formula uses both operators or has depth>=2; distinct by "
    "(form, formula, sequence)."
)
ASSUMPTIONS = [
    "leaves of one formula are distinct events/flows (as the quantifier says)",
    "for `when F or when G` satisfied by the same event either case's marker is accepted",
    "each flow f_i finishes on the first Ev_i after the statement became active",
    "time that passes between two events (any amount) is not an event: it neither satisfies nor resets a leaf - 'the first moment the set of events received since the statement became active satisfies the formula' does not depend on the clock",
]
WALL = {"quick": 150, "thorough": 1500}


def budget(tier):
    return 6000 if tier == "quick" else 80000


# formula encoding: int leaf | {"op": "and"|"or", "args": [...]}


def leaves(f):
    if isinstance(f, int):
        return [f]
    out = []
    for a in f["args"]:
        out += leaves(a)
    return out


def fdepth(f):
    return 0 if isinstance(f, int) else 1 + max(fdepth(a) for a in f["args"])


def ops(f):
    if isinstance(f, int):
        return set()
    s = {f["op"]}
    for a in f["args"]:
        s |= ops(a)
    return s


def evaluate(f, seen):
    if isinstance(f, int):
        return f in seen
    vals = [evaluate(a, seen) for a in f["args"]]
    return all(vals) if f["op"] == "and" else any(vals)


def render(f, leaf, top=True):
    if isinstance(f, int):
        return leaf(f)
    s = f" {f['op']} ".join(render(a, leaf, False) for a in f["args"])
    return s if top else f"({s})"


def shapes(n, depth):
    """All formula shapes with exactly n leaves (unlabelled), depth <= depth, alternating operators not required."""
    if n == 1:
        yield "L"
        return
    if depth == 0:
        return
    for op in ("and", "or"):
        for k in (2, 3):
            if k > n:
                continue
            for split in _compositions(n, k):
                for parts in itertools.product(*[list(shapes(m, depth - 1)) for m in split]):
                    yield {"op": op, "args": list(parts)}


def _compositions(n, k):
    if k == 1:
        yield (n,)
        return
    for first in range(1, n - k + 2):
        for rest in _compositions(n - first, k - 1):
            yield (first,) + rest


def label(shape, counter=None):
    counter = counter if counter is not None else [0]
    if shape == "L":
        counter[0] += 1
        return counter[0] - 1
    return {"op": shape["op"], "args": [label(a, counter) for a in shape["args"]]}


@st.composite
def formula(draw, max_leaves=5):
    n = draw(st.integers(2, max_leaves))
    perm = draw(st.permutations(list(range(n))))

    def build(ids, depth, parent_op=None):
        if len(ids) == 1:
            return ids[0]
        op = draw(st.sampled_from(["and", "or"])) if parent_op is None or draw(st.integers(0, 3)) == 0 else ("or" if parent_op == "and" else "and")
        k = draw(st.integers(2, min(3, len(ids))))
        if depth <= 1:
            k = len(ids) if len(ids) <= 3 else k
        # split ids into k non-empty consecutive parts
        cuts = sorted(draw(st.lists(st.integers(1, len(ids) - 1), min_size=k - 1, max_size=k - 1, unique=True)))
        parts, last = [], 0
        for c in cuts + [len(ids)]:
            parts.append(ids[last:c])
            last = c
        if depth <= 1:
            # no more nesting allowed: flatten
            return {"op": op, "args": list(ids)}
        return {"op": op, "args": [build(p, depth - 1, op) for p in parts]}

    return build(list(perm), 3)


@st.composite
def _case(draw):
    form = draw(st.sampled_from(["match", "matchp", "matchref", "await", "when", "when"]))
    f = draw(formula())
    n = len(leaves(f))
    g = None
    if form == "when" and draw(st.booleans()):
        g = draw(formula(3))
    alphabet = list(range(max(n, len(leaves(g)) if g else 0))) + [90, 91]
    seq = draw(st.lists(st.sampled_from(alphabet), min_size=1, max_size=10))
    if draw(st.booleans()):
        # make sure the formula can complete: append a permutation of all leaves
        seq = seq + list(draw(st.permutations(list(range(n)))))
    leaf = "flow"
    # `await A or B` over ACTIONS starts only one of them (the two starts compete as actions; documented for or-groups of
    # actions), so action leaves are only used in and-only formulas, where all of them are started
    if form in ("await", "when") and g is None and ops(f) == {"and"}:
        leaf = draw(st.sampled_from(["flow", "action", "mixed"]))
    # events that arrive BEFORE the group statement becomes active (it sits behind `match Go()`): they must not count
    pre = draw(st.lists(st.sampled_from(alphabet), max_size=4)) if draw(st.booleans()) else None
    case = {"form": form, "f": f, "g": g, "seq": seq[:14], "leaf": leaf, "pre": pre}
    # the statement sits in `while True`: every completion re-activates it and only events since THAT activation count
    if form != "matchref" and draw(st.integers(0, 2)) == 0:
        case["loop"] = True
        more = draw(st.lists(st.sampled_from(alphabet), min_size=1, max_size=8))
        case["seq"] = (case["seq"] + more + list(draw(st.permutations(list(range(n))))))[:24]
    # member flows may fail (event Fail_i, written 100+i): a failed flow never delivers its Finished event
    if form in ("await", "when") and leaf == "flow" and draw(st.integers(0, 2)) == 0:
        case["fail"] = True
        nfl = max(leaves(f) + (leaves(g) if g else [])) + 1
        fails = draw(st.lists(st.integers(0, nfl - 1), min_size=1, max_size=2))
        for x in fails:
            case["seq"].insert(draw(st.integers(0, min(len(case["seq"]), 4))), 100 + x)
    # some member flows need no event at all (they finish in the step that starts them): their Finished events belong to
    # the events received since the statement became active
    if form in ("await", "when") and leaf == "flow" and g is None and not case.get("loop") and not case.get("fail") and draw(st.integers(0, 3)) == 0:
        case["instant"] = sorted(draw(st.lists(st.sampled_from(list(range(n))), min_size=1, max_size=2, unique=True)))
    # idle time between the events (the harness owns the clock): [position, seconds] = that much time passes right before
    # seq[position] (before pre[position] / before Go for position == len(pre)). Idle time is not an event: the oracle ignores it.
    # 6 s and 60 s are beyond the interpreter's clean-up age for finished flows (5 s), 3 s + 3 s add up to it.
    mode = draw(st.sampled_from(["none", "none", "some", "some", "every-gap"]))
    if mode != "none":
        secs = st.sampled_from([6.0, 6.0, 3.0, 60.0])
        m = len(case["seq"])
        if mode == "every-gap":
            case["idle"] = [[i, draw(secs)] for i in range(m)]
        else:
            pos = sorted(draw(st.lists(st.integers(0, m - 1), min_size=1, max_size=4, unique=True)))
            case["idle"] = [[i, draw(secs)] for i in pos]
        if pre is not None and draw(st.booleans()):
            pos = sorted(draw(st.lists(st.integers(0, len(pre)), min_size=1, max_size=2, unique=True)))
            case["pre_idle"] = [[i, draw(secs)] for i in pos]
    return case


def strategy(tier):
    return _case()


def enumerate_cases(tier):
    for n in (2, 3, 4):
        for shape in shapes(n, 3):
            f = label(shape)
            if n == 4 and tier == "quick" and fdepth(f) >= 3 and f["op"] == "and":
                pass
            perms = list(itertools.permutations(range(n)))
            for form in ("match", "await", "when"):
                for p in perms:
                    yield {"form": form, "f": f, "g": None, "seq": list(p)}
            if n <= 3:
                for form in ("matchp", "matchref"):
                    for p in perms:
                        yield {"form": form, "f": f, "g": None, "seq": list(p), "pre": None}
                        yield {"form": form, "f": f, "g": None, "seq": list(p), "pre": [p[0]]}
            if n <= 3 and ops(f) == {"and"}:
                for form in ("await", "when"):
                    for leaf in ("action", "mixed"):
                        for p in perms:
                            yield {"form": form, "f": f, "g": None, "seq": list(p), "leaf": leaf}
            # idle time (> clean-up age of finished flows) in every gap between the events: every order, every shape with
            # <= 3 leaves in all forms; 4 leaves: the forms over flows, idle time only before the last two events
            if n <= 3:
                for form in ("match", "matchp", "matchref", "await", "when"):
                    for p in perms:
                        yield {"form": form, "f": f, "g": None, "seq": list(p), "pre": None, "idle": [[i, 6.0] for i in range(1, n)]}
            else:
                for form in ("await", "when"):
                    for p in perms:
                        yield {"form": form, "f": f, "g": None, "seq": list(p), "idle": [[2, 6.0], [3, 6.0]]}


def _is_action_leaf(case, i):
    kind = case.get("leaf", "flow")
    return kind == "action" or (kind == "mixed" and i % 2 == 1)


def program(case):
    f, g, form = case["f"], case["g"], case["form"]
    ev = lambda i: f"Ev{i}()"  # noqa: E731
    fl = lambda i: f"X{i}Action()" if _is_action_leaf(case, i) else f"f{i}"  # noqa: E731
    lines = []
    evp = lambda i: f"Ev(v={i})"  # noqa: E731
    rf = lambda i: f"$r{i}.Finished()"  # noqa: E731
    if form not in ("match", "matchp"):
        n = max(leaves(f) + (leaves(g) if g else [])) + 1
        for i in range(n):
            if i in (case.get("instant") or []):
                # no event is sent: flows started by different branches of an or-group would compete over their actions (C05)
                lines += [f"flow f{i}", f"  $done = {i}", ""]
            elif case.get("fail"):
                lines += [f"flow f{i}", f"  when Ev{i}()", "    pass", f"  or when Fail{i}()", "    abort", ""]
            else:
                lines += [f"flow f{i}", f"  match Ev{i}()", ""]
    lines.append("flow main")
    if form == "matchref":
        for i in sorted(set(leaves(f))):
            lines.append(f"  start f{i} as $r{i}")
    if case.get("pre") is not None:
        lines.append("  match Go()")
    body_at = len(lines)
    if form == "match":
        lines += [f"  match {render(f, ev)}", "  send Done()"]
    elif form == "matchp":
        lines += [f"  match {render(f, evp)}", "  send Done()"]
    elif form == "matchref":
        lines += [f"  match {render(f, rf)}", "  send Done()"]
    elif form == "await":
        lines += [f"  await {render(f, fl)}", "  send Done()"]
    else:
        lines += [f"  when {render(f, fl)}", "    send Done()"]
        if g is not None:
            lines += [f"  or when {render(g, fl)}", "    send Done2()"]
    if case.get("loop"):
        lines[body_at:] = ["  while True"] + ["  " + x for x in lines[body_at:]]
    lines += ["  match Never()", ""]
    return "\n".join(lines)


def dnf(f):
    """Or-list of and-groups, leaves in the order they are written (the order in which a group's flows are started)."""
    if isinstance(f, int):
        return [[f]]
    parts = [dnf(a) for a in f["args"]]
    if f["op"] == "or":
        return [grp for p in parts for grp in p]
    return [[x for grp in combo for x in grp] for combo in itertools.product(*parts)]


def _timeline(case, defect=False):
    """Index of the step at which the marker is due (-1 = at activation, None = never).
    defect=True models known finding C07-F20: the Finished event of an instant flow is lost unless it is the last flow
    started by its and-group (the group starts its flows one after the other and only then begins to match)."""
    f, inst = case["f"], set(case["instant"])
    groups = dnf(f)
    if defect:
        groups = [grp for grp in groups if not (set(grp[:-1]) & inst)]
    seen = set(inst)
    if any(all(x in seen for x in grp) for grp in groups):
        return -1
    for idx, e in enumerate(case["seq"]):
        if e < 90:
            seen.add(e)
        if any(all(x in seen for x in grp) for grp in groups):
            return idx
    return None


CLEANUP_AGE = 5.0  # seconds after which the interpreter drops the state of a finished flow (idle clean-up)


def _clock_reset():
    smh.install()
    smh.Clock.virtual = 0.0


def _pass_time(case, key, pos):
    """Idle time right before item `pos` of the sequence (`idle`) / of the pre-activation events (`pre_idle`)."""
    for p, secs in case.get(key) or []:
        if p == pos:
            smh.Clock.virtual += float(secs)


def _idle_desc(case):
    s = ""
    if case.get("pre_idle"):
        s += f" idle-before-pre[pos,s]={case['pre_idle']}"
    if case.get("idle"):
        s += f" idle-before-seq[pos,s]={case['idle']}"
    return s


def _idle_labels(case, aged):
    if not case.get("idle") and not case.get("pre_idle"):
        return ["no-idle-time"]
    out = ["idle-time"]
    if aged:
        # a member FLOW (not an event / action leaf) finished more than the clean-up age before the completing event
        out.append("member-flow-done>5s-before-completion")
        if len(dnf(case["f"])) + (len(dnf(case["g"])) if case.get("g") else 0) >= 2:
            out.append("member-flow-done>5s-before-completion+dnf>=2-and-groups")
    return out


def _prop_instant(case):
    f, form, seq = case["f"], case["form"], case["seq"]
    text = program(case)
    _clock_reset()
    state = smh.init(text)
    desc = f"{form} F={render(f, str)} with f_i, i in {case['instant']}, finishing without any event" + (f" pre={case['pre']}" if case.get("pre") is not None else "") + f" seq={seq}" + _idle_desc(case)
    out = smh.types(list(state.outgoing_events))
    if case.get("pre") is not None:
        for k, e in enumerate(case["pre"]):
            _pass_time(case, "pre_idle", k)
            if "Done" in smh.types(smh.feed(state, smh.ev(f"Ev{e}"))) or "Done" in out:
                raise Violation(f"{form}-fired-before-active", f"{desc}: marker before the statement became active")
        _pass_time(case, "pre_idle", len(case["pre"]))
        out = smh.types(smh.feed(state, smh.ev("Go")))
    observed = [-1] if "Done" in out else []
    first_at = {i: smh.Clock.virtual for i in case["instant"]}  # virtual time at which leaf i was first delivered
    at = {}
    for idx, e in enumerate(seq):
        _pass_time(case, "idle", idx)
        at[idx] = smh.Clock.virtual
        first_at.setdefault(e, smh.Clock.virtual)
        if "Done" in smh.types(smh.feed(state, smh.ev(f"Ev{e}"))):
            observed.append(idx)
    exp = _timeline(case)
    if observed != ([exp] if exp is not None else []):
        kind = f"{form}-not-fired" if not observed else f"{form}-fired-early" if exp is None or observed[0] < exp else f"{form}-fired-late" if len(observed) == 1 else f"{form}-fired-twice"
        raise Violation(kind, f"{desc}: marker at steps {observed} (-1 = at activation), the formula is first satisfied at step {exp}", detail={"observed": observed})
    o = ops(f)
    labels = [form, "leaf-flow", "instant-member-flows", f"depth{fdepth(f)}", "both-ops" if len(o) == 2 else "one-op", "completed" if exp is not None else "never-true"]
    if exp == -1:
        labels.append("satisfied-at-activation")
    if _timeline(case, defect=True) != exp:
        labels.append("instant-flow-not-last-of-its-and-group")
    aged = exp is not None and exp >= 0 and any(at[exp] - first_at[x] > CLEANUP_AGE for x in set(leaves(f)) & set(first_at) if first_at[x] <= at[exp] and x not in case["instant"])
    labels += _idle_labels(case, aged)
    view = {"statement": text.split("flow main\n")[1].split("\n  match Never")[0], "instant": case["instant"], "events": [f"Ev{e}" for e in seq], "idle": case.get("idle"), "fired_at": exp}
    return ok(nt=len(o) == 2 or fdepth(f) >= 2 or len(leaves(f)) > len(case["instant"]), labels=labels, view=view)


def known(case, violation):
    # C07-F20: an exact model of the defect predicts the observed marker steps
    if case.get("instant") and isinstance(violation.detail, dict) and "observed" in violation.detail:
        d = _timeline(case, defect=True)
        if d != _timeline(case) and violation.detail["observed"] == ([d] if d is not None else []):
            return "C07-F20"
    return None


def prop(case):
    if case.get("instant"):
        return _prop_instant(case)
    f, g, form, seq = case["f"], case["g"], case["form"], case["seq"]
    text = program(case)
    _clock_reset()
    try:
        state = smh.init(text)
    except Exception as e:  # the loader/interpreter must accept every well-formed group statement
        raise Violation("startup-" + type(e).__name__, f"{form} {render(f, str)}" + (f" | {render(g, str)}" if g else "") + f": {e!r}"[:300])
    main = [fs for fs in state.flow_states.values() if fs.flow_id == "main"]
    if not main or main[0].status.value not in ("started", "starting"):
        raise Violation("startup-main-not-running", f"{form} {render(f, str)}" + (f" | {render(g, str)}" if g else "") + f": main is {main[0].status.value if main else 'missing'} after start")
    seen = set()
    done_at = None
    exp_at = None
    exp_markers = None
    uids = {}
    for e0 in state.outgoing_events:
        t = e0["type"]
        if t.startswith("StartX") and t.endswith("Action"):
            uids[int(t[6:-6])] = e0["action_uid"]
    def mk(e):
        if form == "matchp":
            return smh.ev("Ev", v=e)
        return smh.ev(f"Ev{e}")

    failed_out = False
    dead = set()  # matchref: flows that finished before the statement became active can never satisfy their leaf
    if case.get("pre") is not None:
        for k, e in enumerate(case["pre"]):
            _pass_time(case, "pre_idle", k)
            out = smh.types(smh.feed(state, mk(e)))
            if "Done" in out or "Done2" in out:
                raise Violation(f"{form}-fired-before-active", f"{form} F={render(f, str)}: marker on pre-activation event Ev{e} of {case['pre']}" + _idle_desc(case))
            if form == "matchref":
                dead.add(e)
        _pass_time(case, "pre_idle", len(case["pre"]))
        out = smh.types(smh.feed(state, smh.ev("Go")))
        if "Done" in out or "Done2" in out:
            raise Violation(f"{form}-fired-before-active", f"{form} F={render(f, str)} pre={case['pre']}: marker right at activation, events received before the statement became active were counted" + _idle_desc(case))
        # actions of await/when groups are started at activation
        for e0 in state.outgoing_events:
            t = e0["type"]
            if t.startswith("StartX") and t.endswith("Action"):
                uids[int(t[6:-6])] = e0["action_uid"]
    activation = 0
    first_at = {}  # virtual time at which leaf i was first delivered in the current activation
    aged = False
    for idx, e in enumerate(seq):
        _pass_time(case, "idle", idx)
        if e >= 100:
            event = smh.ev(f"Fail{e - 100}")
        elif e < 90 and _is_action_leaf(case, e) and e not in seen and e in uids:
            event = smh.ev(f"X{e}ActionFinished", action_uid=uids[e], is_success=True)
        else:
            event = mk(e)
        out_events = smh.feed(state, event)
        for e0 in out_events:
            t = e0["type"]
            if t.startswith("StartX") and t.endswith("Action"):
                uids[int(t[6:-6])] = e0["action_uid"]
        out = smh.types(out_events)
        if e >= 100:
            if e - 100 not in seen:
                dead.add(e - 100)
        elif e not in dead:
            seen.add(e)
            first_at.setdefault(e, smh.Clock.virtual)
        markers = [t for t in out if t in ("Done", "Done2")]
        if exp_at is None:
            ok_f = evaluate(f, seen)
            ok_g = g is not None and evaluate(g, seen)
            if ok_f or ok_g:
                exp_at = idx
                exp_markers = {"Done"} if ok_f and not ok_g else {"Done2"} if ok_g and not ok_f else {"Done", "Done2"}
        desc = f"{form} F={render(f, str)}" + (f" G={render(g, str)}" if g else "") + (f" pre={case['pre']}" if case.get("pre") is not None else "") + (" in `while True`" if case.get("loop") else "") + (" (100+i = flow f_i fails)" if case.get("fail") else "") + f" seq={seq}" + _idle_desc(case)
        if case.get("loop") and activation:
            desc += f" [activation #{activation + 1}: events since it became active {sorted(seen)}]"
        if case.get("fail") and exp_at is None and not markers:
            alive = set(range(100)) - dead
            if not evaluate(f, alive) and not (g is not None and evaluate(g, alive)):
                # no member flow that is still running can complete the group: the statement fails (its flow is aborted);
                # what follows is outside the property
                failed_out = True
                break
        if markers:
            if done_at is not None:
                raise Violation(f"{form}-fired-twice", f"{desc}: marker again at step {idx} (first at {done_at})")
            if exp_at != idx:
                raise Violation(f"{form}-fired-early", f"{desc}: {markers} at step {idx}, formula not satisfied by {sorted(seen)}")
            if len(markers) != 1 or markers[0] not in exp_markers:
                raise Violation(f"{form}-wrong-marker", f"{desc}: {markers} at step {idx}, expected one of {sorted(exp_markers)}")
            done_at = idx
            if form in ("await", "when", "matchref") and any(smh.Clock.virtual - first_at[x] > CLEANUP_AGE for x in set(leaves(f) + (leaves(g) if g else [])) & set(first_at) if not _is_action_leaf(case, x)):
                aged = True
            if case.get("loop"):
                # the statement is active again: only events from now on count
                activation += 1
                seen, dead, done_at, exp_at, exp_markers = set(), set(), None, None, None
                first_at = {}
        elif exp_at == idx:
            raise Violation(f"{form}-not-fired", f"{desc}: formula satisfied at step {idx} by {sorted(seen)} but no marker")
    o = ops(f) | (ops(g) if g else set())
    d = max(fdepth(f), fdepth(g) if g else 0)
    nt = len(o) == 2 or d >= 2
    labels = [form, "leaf-" + case.get("leaf", "flow"), f"depth{d}", "both-ops" if len(o) == 2 else "one-op", "completed" if exp_at is not None or activation else "never-true"]
    if g:
        labels.append("two-cases")
    if case.get("loop"):
        labels.append(f"re-activated-{min(activation, 3)}x")
    if case.get("fail"):
        labels.append("member-flow-fails" + ("+group-fails" if failed_out else ""))
    if case.get("pre") is not None:
        labels.append("gated" + ("+early-events" if case["pre"] else ""))
    if any(e >= 90 for e in seq):
        labels.append("irrelevant-events")
    if len(set(seq)) < len(seq):
        labels.append("repeats")
    labels += _idle_labels(case, aged)
    view = {"statement": text.split("flow main\n")[1].split("\n  match Never")[0], "events": [f"Ev{e}" for e in seq], "idle": case.get("idle"), "fired_at": exp_at}
    return ok(nt=nt, labels=labels, view=view)
